//! Honest multi-peer network simulation around the real `air::execute_air` (DESIGN.md Appendix H):
//! hosts store the returned data as their next prev_data, execute call requests with a deterministic
//! service oracle, hand results back later (any grouping), forward data to `next_peer_pks`.
use crate::host::*;
use crate::util::*;
use air_interpreter_interface::{CallArgumentsRepr, CallRequestParams, CallResults, CallServiceResult, InterpreterOutcome, TetrapletsRepr};
use air_interpreter_sede::FromSerialized;
use serde_json::{json, Value};
use std::collections::BTreeMap;

/// deterministic service oracle: the answer is a function of (peer, service, function, args)
pub fn service(peers: &[String], peer: &str, svc: &str, func: &str, args: &[Value]) -> CallServiceResult {
    let key = format!("{peer}|{svc}|{func}|{}", serde_json::to_string(args).unwrap());
    let h = fnv(&key);
    let pick = |k: u64| peers[((h >> (8 * k)) % peers.len() as u64) as usize].clone();
    let kind = func.split('_').next().unwrap_or("");
    match kind {
        "peer" => CallServiceResult::ok(&json!(pick(0))),
        "peers" => {
            let n = 1 + (h % 3) as usize;
            let mut v: Vec<String> = vec![];
            for k in 0..n { let p = pick(k as u64 + 1); if !v.contains(&p) { v.push(p); } }
            CallServiceResult::ok(&json!(v))
        }
        "obj" => {
            let mut ps: Vec<String> = vec![pick(1)]; let p2 = pick(2); if !ps.contains(&p2) { ps.push(p2); }
            CallServiceResult::ok(&json!({"peer": pick(0), "peers": ps, "arr": [h % 5, 10 + h % 7, "s"], "n": h % 4, "s": format!("s{}", h % 3),
                                           "nested": {"a": [1, h % 9]}, "idx": h % 2}))
        }
        "arrempty" => CallServiceResult::ok(&json!([])),
        "arr" => { let n = (h % 4) as usize; let v: Vec<Value> = (0..n).map(|i| json!(format!("e{}_{}", h % 100, i))).collect(); CallServiceResult::ok(&json!(v)) }
        "str" => CallServiceResult::ok(&json!(format!("str{}", h % 5))),
        "num" => CallServiceResult::ok(&json!(h % 6)),
        "echo" => CallServiceResult::ok(args.get(0).unwrap_or(&Value::Null)),
        "fail" => CallServiceResult::err(1 + (h % 3) as i32, &json!(format!("service error {}", h % 4))),
        "badjson" => CallServiceResult { ret_code: 0, result: "not json {".into() },
        _ => CallServiceResult::ok(&json!(format!("r:{func}"))),
    }
}

/// pseudo return code of a run in which the interpreter panicked
pub const PANIC_CODE: i64 = -101;

#[derive(Clone, Debug)]
pub struct Invocation { pub id: u32, pub service_id: String, pub function_name: String, pub args: Vec<Value>, pub tetraplets: Value, pub result: CallServiceResult, pub step: usize }

#[derive(Clone)]
pub struct PeerState { pub peer: Peer, pub prev: Vec<u8>, pub pending: BTreeMap<u32, CallServiceResult>, pub invocations: Vec<Invocation>, pub max_id_seen: u32,
    /// a run that received call results failed without consuming them: the host keeps them and stops retrying
    pub stuck: bool }

#[derive(Clone)]
pub struct StepRecord {
    pub step: usize, pub peer: usize, pub prev: Vec<u8>, pub cur: Vec<u8>, pub results: CallResults, pub outcome: InterpreterOutcome,
    pub new_request_ids: Vec<u32>, pub event: String,
}

#[derive(Clone, Debug)]
pub enum Event { Deliver { msg: usize, keep: bool }, Answer { peer: usize, ids: Vec<u32> }, Stale { peer: usize, from_step: usize } }

pub struct Net {
    pub air: String, pub particle: String, pub init: usize, pub timestamp: u64, pub ttl: u32,
    pub peers: Vec<PeerState>, pub inflight: Vec<(usize, Vec<u8>)>, pub log: Vec<StepRecord>, pub peer_ids: Vec<String>,
    pub sent_messages: Vec<(usize, Vec<u8>)>,
}

pub fn decode_args(p: &CallRequestParams) -> Vec<Value> { CallArgumentsRepr.deserialize(&p.arguments).unwrap_or_default() }
pub fn decode_tetraplets(p: &CallRequestParams) -> Value {
    let t: Result<Vec<Vec<polyplets::SecurityTetraplet>>, _> = TetrapletsRepr.deserialize(&p.tetraplets);
    match t { Ok(t) => serde_json::to_value(&t).unwrap_or(Value::Null), Err(_) => Value::Null }
}

impl Net {
    pub fn new(air: &str, peers: &[Peer], particle: &str) -> Net {
        Net { air: air.to_string(), particle: particle.to_string(), init: 0, timestamp: 1_700_000_000_000, ttl: 120_000,
              peers: peers.iter().map(|p| PeerState { peer: p.clone(), prev: vec![], pending: BTreeMap::new(), invocations: vec![], max_id_seen: 0, stuck: false }).collect(),
              inflight: vec![], log: vec![], peer_ids: peers.iter().map(|p| p.id.clone()).collect(), sent_messages: vec![] }
    }
    pub fn index_of(&self, id: &str) -> Option<usize> { self.peer_ids.iter().position(|p| p == id) }

    /// one run of peer `p` with the given current data and results; applies the host contract
    pub fn run_peer(&mut self, p: usize, cur: &[u8], results: CallResults, event: String) -> &StepRecord {
        let prev = self.peers[p].prev.clone();
        let init_id = self.peer_ids[self.init].clone();
        let outcome = match run_catch(&RunArgs { air: &self.air, prev: &prev, cur, init_peer_id: &init_id, peer: &self.peers[p].peer, particle_id: &self.particle,
                                     timestamp: self.timestamp, ttl: self.ttl, results: &results, limits: Limits::unlimited() }) {
            Ok(o) => o,
            // the interpreter panicked: there is no outcome; a host would keep its previous data (reported under C01, skipped by the other oracles)
            Err(msg) => InterpreterOutcome { ret_code: PANIC_CODE, error_message: format!("PANIC: {msg}"), data: prev.clone(), next_peer_pks: vec![], call_requests: vec![],
                                             air_size_limit_exceeded: false, particle_size_limit_exceeded: false, call_result_size_limit_exceeded: false },
        };
        let step = self.log.len();
        // host contract: store the data, execute requests, forward
        self.peers[p].prev = outcome.data.clone();
        let failed = outcome.ret_code == PANIC_CODE || (1..=9999).contains(&outcome.ret_code) || (20000..=29999).contains(&outcome.ret_code);
        if failed && !results.is_empty() {
            // the run returned the previous data: the results were not consumed, the host still holds them
            for (id, r) in &results { if let Ok(i) = id.parse::<u32>() { if self.peers[p].invocations.iter().any(|inv| inv.id == i) { self.peers[p].pending.insert(i, r.clone()); } } }
            self.peers[p].stuck = true;
        }
        let mut new_ids = vec![];
        if let Some(reqs) = decode_requests(&outcome.call_requests) {
            let mut ids: Vec<&u32> = reqs.keys().collect(); ids.sort();
            for id in ids {
                let r = &reqs[id];
                let args = decode_args(r);
                let res = service(&self.peer_ids, &self.peer_ids[p], &r.service_id, &r.function_name, &args);
                self.peers[p].invocations.push(Invocation { id: *id, service_id: r.service_id.clone(), function_name: r.function_name.clone(), args,
                                                            tetraplets: decode_tetraplets(r), result: res.clone(), step });
                self.peers[p].pending.insert(*id, res);
                new_ids.push(*id);
            }
        }
        for pk in &outcome.next_peer_pks {
            if let Some(q) = self.index_of(pk) { self.inflight.push((q, outcome.data.clone())); self.sent_messages.push((q, outcome.data.clone())); }
        }
        self.log.push(StepRecord { step, peer: p, prev, cur: cur.to_vec(), results, outcome, new_request_ids: new_ids, event });
        self.log.last().unwrap()
    }

    pub fn start(&mut self) { let i = self.init; self.run_peer(i, &[], CallResults::new(), "start".into()); }

    pub fn quiescent(&self) -> bool { self.inflight.is_empty() && self.peers.iter().all(|p| p.pending.is_empty() || p.stuck) }

    /// pick and apply a random enabled event; returns false when quiescent
    pub fn random_step(&mut self, rng: &mut Rng, dup_chance: (u64, u64)) -> bool {
        if self.quiescent() { return false; }
        let answerable: Vec<usize> = (0..self.peers.len()).filter(|&p| !self.peers[p].pending.is_empty() && !self.peers[p].stuck).collect();
        let do_deliver = !self.inflight.is_empty() && (answerable.is_empty() || rng.chance(1, 2));
        if do_deliver {
            let i = rng.below(self.inflight.len());
            let keep = rng.chance(dup_chance.0, dup_chance.1);
            let (q, data) = if keep { self.inflight[i].clone() } else { self.inflight.remove(i) };
            // optionally piggy-back some pending results
            let mut results = CallResults::new();
            if !self.peers[q].pending.is_empty() && !self.peers[q].stuck && rng.chance(1, 4) {
                let ids: Vec<u32> = self.peers[q].pending.keys().cloned().collect();
                for id in ids { if rng.chance(1, 2) { let r = self.peers[q].pending.remove(&id).unwrap(); results.insert(id.to_string(), r); } }
            }
            self.run_peer(q, &data, results, format!("deliver{}", if keep { "+dup" } else { "" }));
        } else {
            let p = answerable[rng.below(answerable.len())];
            let ids: Vec<u32> = self.peers[p].pending.keys().cloned().collect();
            let mut chosen: Vec<u32> = ids.iter().cloned().filter(|_| rng.chance(1, 2)).collect();
            if chosen.is_empty() { chosen.push(ids[rng.below(ids.len())]); }
            let mut results = CallResults::new();
            for id in &chosen { let r = self.peers[p].pending.remove(id).unwrap(); results.insert(id.to_string(), r); }
            self.run_peer(p, &[], results, format!("answer{:?}", chosen));
        }
        true
    }

    pub fn run_random(&mut self, rng: &mut Rng, max_steps: usize) {
        self.start();
        let mut n = 0;
        while n < max_steps && self.random_step(rng, (1, 8)) { n += 1; }
    }

    /// merge all data ever sent plus all final data at a fresh observer (which is addressed by no call)
    pub fn observe_all(&self, observer: &Peer, order: &[usize]) -> Vec<InterpreterOutcome> {
        let mut datas: Vec<Vec<u8>> = self.peers.iter().map(|p| p.prev.clone()).collect();
        for (_, d) in &self.sent_messages { datas.push(d.clone()); }
        let init_id = self.peer_ids[self.init].clone();
        let mut prev: Vec<u8> = vec![];
        let mut outs = vec![];
        let idx: Vec<usize> = if order.is_empty() { (0..datas.len()).collect() } else { order.to_vec() };
        for i in idx {
            if i >= datas.len() { continue; }
            let o = run(&RunArgs { air: &self.air, prev: &prev, cur: &datas[i], init_peer_id: &init_id, peer: observer, particle_id: &self.particle,
                                   timestamp: self.timestamp, ttl: self.ttl, results: &CallResults::new(), limits: Limits::unlimited() });
            prev = o.data.clone();
            outs.push(o);
        }
        outs
    }
}
