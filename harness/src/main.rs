mod util;
mod host;
mod props;
mod mp;
mod script;
mod sim;
mod facts;
mod tamper;
mod gen_codes;
mod wf;

use util::{Driver, Report};

pub struct Ctx { pub tier: String, pub seed: u64, pub driver: Driver, pub thorough: bool, pub replay: Option<String> }

fn main() {
    let args: Vec<String> = std::env::args().collect();
    if args.len() < 6 && !(args.len() >= 3 && (args[1] == "replay-step" || args[1] == "print-ast" || args[1] == "rerun-step" || args[1] == "c01-child")) {
        eprintln!("usage: aquaharness <property> <quick|thorough> <seed> <driver> <report.json> [replay-file]");
        std::process::exit(2);
    }
    if args.len() >= 2 && args[1] == "c01-child" { props::c01::child_main(&args[2..]); return; }
    if args[1] == "print-ast" { props::probe::print_ast(&std::fs::read_to_string(&args[2]).unwrap()); return; }
    if args[1] == "rerun-step" {
        let v: serde_json::Value = serde_json::from_str(&std::fs::read_to_string(&args[2]).unwrap()).unwrap();
        std::panic::set_hook(Box::new(|_| {}));
        props::probe::rerun_step(&v);
        return;
    }
    if args[1] == "replay-step" {
        let v: serde_json::Value = serde_json::from_str(&std::fs::read_to_string(&args[2]).unwrap()).unwrap();
        let idx: usize = args.get(3).and_then(|s| s.parse().ok()).unwrap_or(0);
        let inp = if v.get("oracle_failures").is_some() { v["oracle_failures"][idx]["input"].clone() } else if v.get("failure").is_some() { v["failure"]["input"].clone() } else { v };
        props::probe::replay_step(&inp);
        return;
    }
    let prop = args[1].clone();
    let tier = args[2].clone();
    let seed: u64 = args[3].parse().unwrap_or(0);
    let driver = Driver::spawn(&args[4]);
    let mut ctx = Ctx { thorough: tier == "thorough", tier, seed, driver, replay: args.get(6).cloned() };
    // silence panic messages of caught panics (they are reported through the report)
    if std::env::var("AQUA_PANIC_VERBOSE").is_err() { std::panic::set_hook(Box::new(|_| {})); }
    let t0 = std::time::Instant::now();
    let mut report = Report::new(&prop, "");
    let res = std::panic::catch_unwind(std::panic::AssertUnwindSafe(|| match prop.as_str() {
        "C15" => props::c15::run(&mut ctx, &mut report),
        "C21" => props::c21::run(&mut ctx, &mut report),
        "C17" => props::c17::run(&mut ctx, &mut report),
        "C01" => props::c01::run(&mut ctx, &mut report),
        "C11" => props::c11::run(&mut ctx, &mut report),
        "C12" => props::c12::run(&mut ctx, &mut report),
        "C13" => props::c13::run(&mut ctx, &mut report),
        "C28" => props::c28::run(&mut ctx, &mut report),
        "C22" => props::c22::run(&mut ctx, &mut report),
        "C26" => props::c26::run(&mut ctx, &mut report),
        "C24" => props::c24::run(&mut ctx, &mut report),
        "C25" => props::c25::run(&mut ctx, &mut report),
        "C23" => props::c23::run(&mut ctx, &mut report),
        "C18" => props::c18::run(&mut ctx, &mut report),
        "C16" => props::c16::run(&mut ctx, &mut report),
        "C14" => props::c14::run(&mut ctx, &mut report),
        "C27" => props::c27::run(&mut ctx, &mut report),
        "C02" | "C03" | "C04" | "C05" | "C06" | "C07" | "C09" | "C10" | "C19" | "C20" => {
            // C10: the dedicated search runs first; when it finds a malformed trace the generic history run is skipped (a trace that
            // carries the placeholder generation makes later runs of the same history allocate ~80 GB and abort the process)
            let mut c10_rule = String::new();
            if prop == "C10" { props::c10::run(&mut ctx, &mut report); c10_rule = report.rule.clone(); if !report.oracle_failures.is_empty() { return; } }
            props::hist::run_property(&prop, &mut ctx, &mut report);
            // the per-state mergers and FSMs these properties rest on: component-level correspondence with the model
            if matches!(prop.as_str(), "C04" | "C07" | "C09" | "C10") { let rule = report.rule.clone(); props::traceops::run(&mut ctx, &mut report); report.rule = format!("{rule} || plus trace-handler operation sequences (see traceops)"); }
            if prop == "C10" { report.rule = format!("{} || {c10_rule}", report.rule); }
        }
        "C08" => { props::c08::run(&mut ctx, &mut report); let rule = report.rule.clone(); props::traceops::run(&mut ctx, &mut report); report.rule = rule; }
        "execcorr" => props::execcorr::run(&mut ctx, &mut report),
        "traceops" => props::traceops::run(&mut ctx, &mut report),
        "probe" => props::probe::run(&mut ctx, &mut report),
        _ => { eprintln!("unknown property {prop}"); std::process::exit(2); }
    }));
    let mut j = report.to_json();
    if let Err(e) = res {
        let msg = if let Some(s) = e.downcast_ref::<String>() { s.clone() } else if let Some(s) = e.downcast_ref::<&str>() { s.to_string() } else { "panic".into() };
        j["harness_panic"] = serde_json::json!(msg);
    }
    j["wall_s"] = serde_json::json!(t0.elapsed().as_secs_f64());
    j["driver_requests"] = serde_json::json!(ctx.driver.requests);
    std::fs::write(&args[5], serde_json::to_string_pretty(&j).unwrap()).unwrap();
}
