fn main() { println!("{}", air::interpreter_version()); }
