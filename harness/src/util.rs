//! PRNG, report, Lean-driver plumbing shared by all property checks.
use serde_json::{json, Value};
use std::collections::{BTreeMap, HashSet};
use std::io::{BufRead, BufReader, Write};
use std::process::{Child, ChildStdin, ChildStdout, Command, Stdio};

#[derive(Clone)]
pub struct Rng(pub u64);
impl Rng {
    pub fn new(seed: u64) -> Self { Rng(seed.wrapping_mul(0x9E3779B97F4A7C15) ^ 0xD1B54A32D192ED03) }
    pub fn next(&mut self) -> u64 {
        // splitmix64
        self.0 = self.0.wrapping_add(0x9E3779B97F4A7C15);
        let mut z = self.0;
        z = (z ^ (z >> 30)).wrapping_mul(0xBF58476D1CE4E5B9);
        z = (z ^ (z >> 27)).wrapping_mul(0x94D049BB133111EB);
        z ^ (z >> 31)
    }
    pub fn below(&mut self, n: usize) -> usize { if n == 0 { 0 } else { (self.next() % n as u64) as usize } }
    pub fn range(&mut self, lo: i64, hi: i64) -> i64 { lo + (self.next() % ((hi - lo + 1) as u64)) as i64 }
    pub fn chance(&mut self, num: u64, den: u64) -> bool { self.next() % den < num }
    pub fn pick<'a, T>(&mut self, xs: &'a [T]) -> &'a T { &xs[self.below(xs.len())] }
    pub fn fork(&mut self) -> Rng { Rng(self.next()) }
    pub fn shuffle<T>(&mut self, xs: &mut [T]) {
        for i in (1..xs.len()).rev() { let j = self.below(i + 1); xs.swap(i, j); }
    }
}

pub fn fnv(s: &str) -> u64 {
    let mut h: u64 = 0xcbf29ce484222325;
    for b in s.as_bytes() { h ^= *b as u64; h = h.wrapping_mul(0x100000001b3); }
    h
}

/// Lean model driver (line protocol: one JSON request per line, one JSON answer per line).
pub struct Driver { child: Child, stdin: ChildStdin, stdout: BufReader<ChildStdout>, pub requests: u64, pub dead: bool }
impl Driver {
    pub fn spawn(path: &str) -> Driver {
        let mut child = Command::new(path).stdin(Stdio::piped()).stdout(Stdio::piped()).spawn()
            .unwrap_or_else(|e| panic!("cannot start model driver {path}: {e}"));
        let stdin = child.stdin.take().unwrap();
        let stdout = BufReader::new(child.stdout.take().unwrap());
        Driver { child, stdin, stdout, requests: 0, dead: false }
    }
    /// One request, one answer.  When the driver is not available (the model did not build: bin/check passes a
    /// stub and reports the broken obligation itself) every request is answered `unmodelled`, so that the direct
    /// oracles still run and the search for a failing input goes on without the model.
    pub fn ask(&mut self, req: &Value) -> Value {
        if self.dead { return json!({"unmodelled": "model driver unavailable"}); }
        let line = serde_json::to_string(req).unwrap();
        let sent = self.stdin.write_all(line.as_bytes()).and_then(|_| self.stdin.write_all(b"\n")).and_then(|_| self.stdin.flush());
        let mut resp = String::new();
        let got = match sent { Ok(()) => self.stdout.read_line(&mut resp).unwrap_or(0), Err(_) => 0 };
        if got == 0 {
            if self.requests == 0 { self.dead = true; eprintln!("model driver unavailable: correspondence skipped, direct oracles only"); return json!({"unmodelled": "model driver unavailable"}); }
            panic!("model driver died after {} requests", self.requests);
        }
        self.requests += 1;
        serde_json::from_str(&resp).unwrap_or_else(|e| json!({"protocol_error": format!("{e}: {resp}")}))
    }
}
impl Drop for Driver { fn drop(&mut self) { let _ = self.child.kill(); let _ = self.child.wait(); } }

/// What a property run reports to bin/check (which writes the evidence file and prints the verdict).
pub struct Report {
    pub property: String,
    pub evaluations: u64,
    pub distinct: HashSet<u64>,
    pub samples: Vec<Value>,
    /// model-vs-implementation disagreements (correspondence)
    pub disagreements: Vec<Value>,
    /// implementation-vs-oracle failures (the property itself fails on the real code)
    pub oracle_failures: Vec<Value>,
    pub known_findings: Vec<Value>,
    pub stats: BTreeMap<String, u64>,
    pub unmodelled: u64,
    pub model_compared: u64,
    pub rule: String,
}
impl Report {
    pub fn new(property: &str, rule: &str) -> Self {
        Report { property: property.into(), evaluations: 0, distinct: HashSet::new(), samples: vec![], disagreements: vec![],
            oracle_failures: vec![], known_findings: vec![], stats: BTreeMap::new(), unmodelled: 0, model_compared: 0, rule: rule.into() }
    }
    pub fn stat(&mut self, k: &str) { *self.stats.entry(k.to_string()).or_insert(0) += 1; }
    pub fn stat_n(&mut self, k: &str, n: u64) { *self.stats.entry(k.to_string()).or_insert(0) += n; }
    /// count one evaluated case; `nontrivial` cases are hashed for the distinct count
    pub fn case(&mut self, canonical: &str, nontrivial: bool, sample: impl FnOnce() -> Value) {
        self.evaluations += 1;
        if nontrivial {
            let fresh = self.distinct.insert(fnv(canonical));
            if fresh && self.samples.len() < 5 { self.samples.push(sample()); }
        }
    }
    pub fn disagree(&mut self, v: Value) { if self.disagreements.len() < 20 { self.disagreements.push(v); } self.stat("disagreements"); }
    pub fn oracle_fail(&mut self, v: Value) { if self.oracle_failures.len() < 20 { self.oracle_failures.push(v); } self.stat("oracle_failures"); }
    pub fn to_json(&self) -> Value {
        json!({
            "property": self.property, "evaluations": self.evaluations, "distinct_nontrivial": self.distinct.len(),
            "rule": self.rule, "samples": self.samples, "disagreements": self.disagreements,
            "oracle_failures": self.oracle_failures, "known_findings": self.known_findings,
            "stats": self.stats, "unmodelled": self.unmodelled, "model_compared": self.model_compared,
        })
    }
}

pub fn hex(b: &[u8]) -> String { b.iter().map(|x| format!("{:02x}", x)).collect() }
pub fn unhex(s: &str) -> Vec<u8> { (0..s.len() / 2).map(|i| u8::from_str_radix(&s[2 * i..2 * i + 2], 16).unwrap()).collect() }

/// strip memory addresses (`0x55c9…`) that some deserialisation errors print
pub fn canon_msg(s: &str) -> String {
    if s.contains("unprocessed call results") {
        // the message prints a HashMap with `{:?}`: entry order is arbitrary (see C20); compare as a multiset of characters
        let mut c: Vec<char> = s.chars().collect(); c.sort();
        return c.into_iter().collect();
    }
    let mut out = String::new();
    let b: Vec<char> = s.chars().collect();
    let mut i = 0;
    while i < b.len() {
        if b[i] == '0' && i + 1 < b.len() && b[i + 1] == 'x' {
            let mut j = i + 2;
            while j < b.len() && b[j].is_ascii_hexdigit() { j += 1; }
            if j > i + 2 { out.push_str("0xADDR"); i = j; continue; }
        }
        out.push(b[i]); i += 1;
    }
    out
}
