//! Tiny hand-rolled MessagePack writer (so that envelopes and payloads of any shape can be crafted,
//! independently of rmp).
pub fn str_(out: &mut Vec<u8>, s: &[u8]) {
    let n = s.len();
    if n < 32 { out.push(0xa0 + n as u8); } else if n < 256 { out.push(0xd9); out.push(n as u8); }
    else if n < 65536 { out.push(0xda); out.extend_from_slice(&(n as u16).to_be_bytes()); }
    else { out.push(0xdb); out.extend_from_slice(&(n as u32).to_be_bytes()); }
    out.extend_from_slice(s);
}
pub fn bin(out: &mut Vec<u8>, s: &[u8]) {
    let n = s.len();
    if n < 256 { out.push(0xc4); out.push(n as u8); }
    else if n < 65536 { out.push(0xc5); out.extend_from_slice(&(n as u16).to_be_bytes()); }
    else { out.push(0xc6); out.extend_from_slice(&(n as u32).to_be_bytes()); }
    out.extend_from_slice(s);
}
pub fn map_header(out: &mut Vec<u8>, n: usize) {
    if n < 16 { out.push(0x80 + n as u8); } else if n < 65536 { out.push(0xde); out.extend_from_slice(&(n as u16).to_be_bytes()); }
    else { out.push(0xdf); out.extend_from_slice(&(n as u32).to_be_bytes()); }
}
pub fn arr_header(out: &mut Vec<u8>, n: usize) {
    if n < 16 { out.push(0x90 + n as u8); } else if n < 65536 { out.push(0xdc); out.extend_from_slice(&(n as u16).to_be_bytes()); }
    else { out.push(0xdd); out.extend_from_slice(&(n as u32).to_be_bytes()); }
}
pub fn uint(out: &mut Vec<u8>, n: u64) {
    if n < 128 { out.push(n as u8); } else if n < 256 { out.push(0xcc); out.push(n as u8); }
    else if n < 65536 { out.push(0xcd); out.extend_from_slice(&(n as u16).to_be_bytes()); }
    else if n < (1 << 32) { out.push(0xce); out.extend_from_slice(&(n as u32).to_be_bytes()); }
    else { out.push(0xcf); out.extend_from_slice(&n.to_be_bytes()); }
}
