//! C13 — streams hold exactly the merged appends; stream folds visit each value once. Direct oracles: (a) what a local
//! canonicalisation shows is exactly the appends present in the peer's merged data (each once), (b) a visit call per fold
//! iteration reaches the host exactly once per value per peer over the whole history, (c) the stream size limit; over simulated
//! histories of stream templates; lock-step correspondence with the Lean executor model on (code, trace, requests).
use crate::facts::*;
use crate::gen_codes as codes;
use crate::host::*;
use crate::props::strm::*;
use crate::script::*;
use crate::sim::*;
use crate::util::*;
use crate::Ctx;
use air_interpreter_interface::CallResults;
use serde_json::{json, Value};
use std::collections::BTreeMap;

fn multiset(v: &[Value]) -> BTreeMap<String, usize> { let mut m = BTreeMap::new(); for x in v { *m.entry(x.to_string()).or_insert(0) += 1; } m }

/// (fold node id, last node id of the fold, stream, iterator, visit function, visiting peer id)
fn visit_folds(script: &Instr) -> Vec<(usize, usize, String, String, String, String)> {
    let nodes = nodes_of(script);
    let mut out = vec![];
    for (id, n) in nodes.iter().enumerate() {
        if let Instr::FoldStream { stream, iter, body, last } = n {
            let size = 1 + body.size() + last.as_ref().map(|l| l.size()).unwrap_or(0);
            body.visit(&mut |i| if let Instr::Call { peer: Val::Lit(p), svc: Val::Lit(s), func: Val::Lit(f), args, .. } = i { if s == "obs" && f.starts_with("visit") && args.len() == 1 && args[0] == Val::Scalar(iter.clone()) { out.push((id, id + size - 1, stream.clone(), iter.clone(), f.clone(), p.clone())); } });
        }
    }
    out
}

pub fn check_history(hc: &HistCtx, rep: &mut Report) -> Vec<Fail> {
    let mut fails = vec![];
    let net = hc.net;
    if !hc.located { return fails; }
    let known = |tainted: bool| if hc.recursive && tainted { Some(KEY_RECURSIVE_FOLD.to_string()) } else { None };
    // appends that happened on hosts: function -> number of invocations over all peers
    let mut invoked: BTreeMap<String, usize> = BTreeMap::new();
    for p in &net.peers { for inv in &p.invocations { *invoked.entry(inv.function_name.clone()).or_insert(0) += 1; } }
    for v in hc.views.iter().flatten() {
        let st = &net.log[v.k];
        let locs = v.out.locs.as_ref().unwrap();
        let t = &v.out.f.trace;
        // one entry per append: no instruction instance appears twice in the merged data, every recorded call append was executed once by a host
        let mut seen: BTreeMap<String, usize> = BTreeMap::new();
        for (j, l) in locs.iter().enumerate() {
            let l = match l { Some(l) if l.stream.is_some() && (l.kind == "ap" || l.kind == "call") && gen_of(&t[j]).is_some() => l, _ => continue };
            if let Some(j0) = seen.insert(l.instance(), j) { fails.push(Fail { why: format!("the append {} (value {:?}) is recorded twice in the merged data (states {j0} and {j})", l.instance(), l.value), step: Some(v.k), finding_key: known(v.tainted) }); }
            if l.kind == "call" { let n = invoked.get(l.func.as_ref().unwrap()).cloned().unwrap_or(0); if l.path.is_empty() && n != 1 { fails.push(Fail { why: format!("the data records a result of {} but hosts executed that call {n} time(s)", l.func.clone().unwrap()), step: Some(v.k), finding_key: None }); } }
        }
        // nothing lost by merging: every append recorded in the previous / current data is still recorded in the produced data.
        // States can only go missing when a whole fold iteration of the older data is not taken over (the trace handler drops the lore of
        // iterations the run did not meet: FoldFSM::meet_fold_end). Two input classes: the recorded recursive-fold defect (sparse replay),
        // and an iteration the local fold did not reach in this run (e.g. blocked behind an incomplete body of an earlier value of the same generation)
        for (which, b, al) in [("previous", &v.prev, &v.al_prev), ("current", &v.cur, &v.al_cur)] {
            if let (Some(b), Some(al)) = (b, al) {
                if !al.problems.is_empty() { rep.stat(if known(v.tainted).is_some() { "runs_dropping_a_fold_iteration(sparse replay)" } else { "runs_dropping_a_fold_iteration(not reached in this run)" }); }
                let (mut lost_appends, mut lost_results, mut lost_markers) = (vec![], 0, 0);
                for (i, s) in b.f.trace.iter().enumerate() {
                    let kept = match al.map[i] { Some(j) => gen_of(s).is_none() || gen_of(&t[j]).is_some(), None => false };
                    if kept { continue; }
                    match s { St::Stream(..) | St::Ap(_) => lost_appends.push(i), St::Scalar(_) | St::Unused(_) | St::Failed(_) | St::Canon(_) => lost_results += 1, St::Sent(..) | St::CanonSent(_) => lost_markers += 1, _ => {} }
                }
                rep.stat_n("dropped_request_markers", lost_markers); 
                if lost_results > 0 { rep.stat_n(if known(v.tainted).is_some() { "dropped_executed_results(sparse replay)" } else { "dropped_executed_results(iteration not reached)" }, lost_results); if known(v.tainted).is_none() && std::env::var("AQUA_C13_SHOW_DROPPED").is_ok() { eprintln!("DROPPED RESULT step {} {}", v.k, serde_json::to_string(&fail_json(net, "dropped", &Fail { why: "dropped executed result".into(), step: Some(v.k), finding_key: None })).unwrap()); } }
                if let Some(i) = lost_appends.first() {
                    let key = known(v.tainted).or(Some(KEY_UNREACHED_ITERATION.to_string()));
                    fails.push(Fail { why: format!("{} append(s) to a stream recorded in the {which} data (first: state {i}, {}) are no longer recorded in the produced data: {}", lost_appends.len(), short(&b.f.trace[*i]), al.problems.first().cloned().unwrap_or_default()), step: Some(v.k), finding_key: key });
                }
            }
        }
        // (a) local canonicalisation followed by an observation call on the same peer: requests issued in this run
        let me = &net.peer_ids[st.peer];
        for inv in net.peers[st.peer].invocations.iter().filter(|i| i.step == v.k && i.service_id == "obs" && (i.function_name.starts_with("seen") || i.function_name.starts_with("scope"))) {
            let cpos = match locs.iter().enumerate().position(|(j, l)| l.as_ref().map(|l| l.kind == "call" && l.func.as_deref() == Some(inv.function_name.as_str())).unwrap_or(false) && matches!(&t[j], St::Sent(_, Some(id)) if *id == inv.id as u64)) { Some(x) => x, None => continue };
            let cl = locs[cpos].as_ref().unwrap();
            let cargs = match nodes_of(hc.script)[cl.node] { Instr::Call { args, .. } => args.clone(), _ => continue };
            for (ai, a) in cargs.iter().enumerate() {
                let name = match a { Val::Canon(n) | Val::CanonMap(n) => n, _ => continue };
                let cj = match (0..cpos).rev().find(|j| locs[*j].as_ref().map(|l| l.kind == "canon" && l.canon_name.as_deref() == Some(name.as_str()) && cl.path.starts_with(&l.path)).unwrap_or(false)) { Some(j) => j, None => continue };
                let canon_l = locs[cj].as_ref().unwrap();
                if canon_l.peer.as_deref() != Some(me.as_str()) { continue; } // observation point = LOCAL canonicalisation
                // the run in which this peer first executed the canon
                let k0 = hc.views.iter().flatten().filter(|w| net.log[w.k].peer == st.peer).find(|w| w.out.locs.as_ref().map(|ls| ls.iter().enumerate().any(|(j, l)| l.as_ref().map(|l| l.kind == "canon" && l.instance() == canon_l.instance()).unwrap_or(false) && matches!(w.out.f.trace[j], St::Canon(_)))).unwrap_or(false));
                let w = match k0 { Some(w) => w, None => continue };
                let wl = w.out.locs.as_ref().unwrap();
                let wpos = wl.iter().position(|l| l.as_ref().map(|l| l.kind == "canon" && l.instance() == canon_l.instance()).unwrap_or(false)).unwrap();
                let mut expected: Vec<Value> = vec![];
                for (j, l) in wl.iter().enumerate().take(wpos) { if let Some(l) = l { if l.stream == canon_l.stream && gen_of(&w.out.f.trace[j]).is_some() { expected.push(l.value.clone().unwrap_or(Value::Null)); } } }
                if matches!(a, Val::CanonMap(_)) {
                    // a canon map is observed as {key: [values]}: per key exactly the appends under that key
                    let (obs, exp) = (inv.args.get(ai).cloned().unwrap_or(Value::Null), kv_object(&expected));
                    let norm = |o: &Value| -> BTreeMap<String, BTreeMap<String, usize>> { o.as_object().map(|m| m.iter().map(|(k, v)| (k.clone(), multiset(v.as_array().map(|a| &a[..]).unwrap_or(&[])))).collect()).unwrap_or_default() };
                    rep.stat("local_canon_map_observations");
                    if norm(&obs) != norm(&exp) { fails.push(Fail { why: format!("{} on {} observed the stream map {} as {obs} but the appends present in the peer's merged data at the canon are {exp}", inv.function_name, net.peers[st.peer].peer.name, canon_l.stream.clone().unwrap().0), step: Some(v.k), finding_key: known(w.tainted) }); }
                    continue;
                }
                let observed = inv.args.get(ai).and_then(|x| x.as_array().cloned()).unwrap_or_default();
                rep.stat("local_canon_observations"); rep.stat(&format!("observed_stream_size_{}", observed.len().min(8)));
                if multiset(&observed) != multiset(&expected) { fails.push(Fail { why: format!("{} on {} observed the stream {} as {} but the appends present in the peer's merged data at the canon are {}", inv.function_name, net.peers[st.peer].peer.name, canon_l.stream.clone().unwrap().0, Value::Array(observed.clone()), Value::Array(expected.clone())), step: Some(v.k), finding_key: known(w.tainted) }); }
                // scope observation: the new-scoped stream holds this iteration's appends only
                if inv.function_name.starts_with("scope") { if observed.first() != inv.args.get(0) || observed.len() != 2 { fails.push(Fail { why: format!("a new-scoped stream instance of iteration {} was observed as {}", inv.args[0], Value::Array(observed)), step: Some(v.k), finding_key: None }); } else { rep.stat("scoped_instances_observed"); } }
            }
        }
    }
    // (b) fold visits: exactly once per value per peer over the whole history
    for (fid, fend, stream, _iter, vfunc, vpeer) in visit_folds(hc.script) {
        let pi = match net.index_of(&vpeer) { Some(p) => p, None => continue };
        let mut counts: BTreeMap<String, usize> = BTreeMap::new();
        for inv in net.peers[pi].invocations.iter().filter(|i| i.function_name == vfunc) { *counts.entry(inv.args.get(0).cloned().unwrap_or(Value::Null).to_string()).or_insert(0) += 1; }
        rep.stat_n("fold_visits", counts.values().sum::<usize>() as u64);
        let peer_tainted = hc.views.iter().flatten().any(|v| net.log[v.k].peer == pi && v.tainted);
        // progress of the fold on this peer may wait for a call another peer never issues because ITS fold skipped a value: history-wide class
        let hist_tainted = hc.views.iter().flatten().any(|v| v.tainted);
        for (val, n) in &counts { if *n > 1 { fails.push(Fail { why: format!("the fold over {stream} passed the value {val} to {vfunc} on {} {n} times", net.peers[pi].peer.name), step: None, finding_key: known(peer_tainted) }); } }
        // at quiescence: every value the peer's stream holds (appended before or inside the fold) was visited
        if !net.quiescent() || net.peers[pi].stuck || !net.peers[pi].pending.is_empty() { rep.stat("visit_completeness_skipped_not_quiescent"); continue; }
        if net.log.iter().any(|s| s.peer == pi && !run_ok(s.outcome.ret_code)) { rep.stat("visit_completeness_skipped_failed_run"); if hc.recursive && peer_tainted { rep.stat("failed_runs_after_sparse_replay"); } continue; }
        let last = match hc.views.iter().flatten().filter(|v| net.log[v.k].peer == pi).last() { Some(v) => v, None => continue };
        let locs = last.out.locs.as_ref().unwrap();
        if !locs.iter().flatten().any(|l| l.kind == "fold" && l.node == fid) { rep.stat("visit_completeness_skipped_fold_not_reached"); continue; }
        rep.stat("visit_completeness_checked");
        let last_k = last.k;
        for (j, l) in locs.iter().enumerate() {
            let l = match l { Some(l) if gen_of(&last.out.f.trace[j]).is_some() && l.stream.as_ref().map(|s| s.0 == stream).unwrap_or(false) && l.node <= fend => l, _ => continue };
            let _ = fid;
            let val = l.value.clone().unwrap_or(Value::Null).to_string();
            rep.stat("values_expected_visited");
            if counts.get(&val).cloned().unwrap_or(0) == 0 {
                // the run in which the value first was in this peer's stream (its replay shows the fold passing it over)
                let first_k = hc.views.iter().flatten().filter(|w| net.log[w.k].peer == pi).find(|w| w.out.locs.as_ref().map(|ls| ls.iter().enumerate().any(|(x, m)| m.as_ref().map(|m| m.instance() == l.instance()).unwrap_or(false) && gen_of(&w.out.f.trace[x]).is_some())).unwrap_or(false)).map(|w| w.k).unwrap_or(last_k);
                fails.push(Fail { why: format!("the value {val} is in the stream {stream} of {} since step {first_k} (state {j} of its final data, generation {}) but the fold never passed it to {vfunc} there although the history is quiescent", net.peers[pi].peer.name, gen_of(&last.out.f.trace[j]).unwrap()), step: Some(first_k), finding_key: known(hist_tainted) });
            }
        }
    }
    fails
}

/// class of the second state-loss input found: the lore of a fold iteration that the current (or previous) data records but the local fold does
/// not reach in this run is dropped together with the appends it contains
pub const KEY_UNREACHED_ITERATION: &str = "unreached-fold-iteration-of-merged-data-dropped";

/// (c) the size limit: straight-line fills of n values; the add that makes the total 1024 fails, 1023 values are fine;
/// previous-data + current-data + new values count together; a recursive fold without a guard ends with the same code
fn size_limit(ctx: &mut Ctx, rep: &mut Report, corr: &mut Corr) {
    let want = codes::uncatchable("StreamSizeLimitExceeded");
    let peers = peers_named(2);
    let (a, b) = (peers[0].id.clone(), peers[1].id.clone());
    let fill = |n: usize| seq_balanced(&(0..n).map(|k| ap(lit(&format!("x{k}")), "$s")).collect::<Vec<_>>());
    let mut one = |ctx: &mut Ctx, rep: &mut Report, name: &str, script: Instr, evs: Vec<Ev>, expect: Vec<i64>, compare: bool| {
        let air = script.text();
        let (net, _) = run_scripted(&air, &peers, "size-limit", &evs);
        let codes_seen: Vec<i64> = net.log.iter().map(|s| s.outcome.ret_code).collect();
        rep.case(&format!("size|{name}"), true, || json!({"template": name, "codes": codes_seen}));
        rep.stat(&format!("size_limit_case_{name}"));
        if compare { corr.history(ctx, rep, &net, &["code", "trace", "requests"]); }
        if codes_seen != expect {
            rep.oracle_fail(json!({"why": format!("size limit template {name}: return codes {:?}, expected {:?} (StreamSizeLimitExceeded = {want}: 1023 values are fine, the add that makes the total 1024 fails)", codes_seen, expect),
                "template": name, "input": crate::props::hist::step_json(&net, net.log.last().unwrap()), "history": history_json(&net)}));
        }
        // uncatchable: the data handed back is the previous data
        for st in &net.log { if st.outcome.ret_code == want && st.outcome.data != st.prev { rep.oracle_fail(json!({"why": "StreamSizeLimitExceeded but the returned data is not the previous data", "template": name, "input": crate::props::hist::step_json(&net, st)})); } }
    };
    one(ctx, rep, "1023_aps", fill(1023), vec![], vec![0], true);
    one(ctx, rep, "1024_aps", fill(1024), vec![], vec![want], true);
    one(ctx, rep, "1022_aps_then_xor_guarded_1023rd_1024th", seq(fill(1022), seq(ap(lit("y"), "$s"), xor(ap(lit("z"), "$s"), Instr::Null))), vec![], vec![want], true);
    // 1023 values from the previous data + 1 new call result
    one(ctx, rep, "1023_prev_plus_call_result", seq(fill(1023), call(lit(&a), "svc", "echo_1", vec![lit("z")], stream("$s"))), vec![Ev::Answer(0)], vec![0, want], true);
    one(ctx, rep, "1022_prev_plus_call_result", seq(fill(1022), call(lit(&a), "svc", "echo_1", vec![lit("z")], stream("$s"))), vec![Ev::Answer(0)], vec![0, 0], true);
    // 1023 values arriving as current data on another peer + its own append
    one(ctx, rep, "1023_current_plus_ap", seq(fill(1023), seq(call(lit(&b), "svc", "echo_1", vec![lit("z")], Out::Scalar("v".into())), ap(sc("v"), "$s"))), vec![Ev::Deliver(1), Ev::Answer(1)], vec![0, 0, want], false);
    one(ctx, rep, "1022_current_plus_ap", seq(fill(1022), seq(call(lit(&b), "svc", "echo_1", vec![lit("z")], Out::Scalar("v".into())), ap(sc("v"), "$s"))), vec![Ev::Deliver(1), Ev::Answer(1)], vec![0, 0, 0], false);
    // unguarded recursion: every visited value appends one more
    one(ctx, rep, "unguarded_recursive_fold", seq(ap(lit("s0"), "$s"), fold_stream("$s", "i", seq(ap(sc("i"), "$s"), next("i")), None)), vec![], vec![want], true);
    one(ctx, rep, "unguarded_recursive_fold_par_next", seq(fill(3), fold_stream("$s", "i", par(ap(sc("i"), "$s"), next("i")), None)), vec![], vec![want], false);
    // a guarded recursion that stops far below the limit
    one(ctx, rep, "guarded_recursive_fold", seq(ap(lit("go"), "$s"), fold_stream("$s", "i", seq(xor(matchv(sc("i"), lit("stop"), Instr::Null), ap(lit("stop"), "$s")), next("i")), None)), vec![], vec![0], true);
    // other streams are counted separately: 1023 in $s and 1023 in $t
    one(ctx, rep, "two_streams_1023_each", seq(fill(1023), seq_balanced(&(0..1023).map(|k| ap(lit(&format!("y{k}")), "$t")).collect::<Vec<_>>())), vec![], vec![0], false);
}

/// the recorded defect, deterministic replay (see known_findings: recursive-fold-skips-value-below-generation-cursor)
pub fn known_scenario() -> (Instr, Vec<Peer>, Vec<Ev>) {
    let peers = peers_named(3);
    let (a, b, p) = (lit(&peers[0].id), lit(&peers[1].id), lit(&peers[2].id));
    let guard = xor(matchv(sc("i"), lit("a"), ap(lit("ra"), "$s")), xor(matchv(sc("i"), lit("b"), ap(lit("rb"), "$s")), Instr::Null));
    let body = seqs(vec![guard, call(p, "obs", "visit_1", vec![sc("i")], Out::None), next("i")]);
    let script = seq(seq(call(a, "svc", "echo_1", vec![lit("a")], stream("$s")), par(call(b, "svc", "echo_2", vec![lit("b")], stream("$s")), Instr::Null)), fold_stream("$s", "i", body, None));
    // a start; a answer (a, ra; data to b and c); b deliver; b answer (b is new: generations a0 ra1 b2 rb3, trace order a, b, ra, rb); c receives b's data first
    (script, peers, vec![Ev::Answer(0), Ev::Deliver(1), Ev::Answer(1), Ev::DeliverNth(2, 1), Ev::Answer(2), Ev::Deliver(2), Ev::Answer(2)])
}

pub fn run(ctx: &mut Ctx, rep: &mut Report) {
    crate::script::MAP_FOLD_RECURSION.store(true, std::sync::atomic::Ordering::Relaxed); // recursive folds over maps (template 8): C13 classifies what they hit
    rep.rule = "case = one run of a simulated honest history of a stream template (2-4 writers via call/ap in seq/par positions on 3-5 peers into a stream or a stream map; local canon + observation call; stream folds with a visit call per value, \
        next in seq/par position, last instruction, guarded recursive appends (ap and call) inside the fold; new-scoped streams per iteration; nested folds) under random schedules with duplicated deliveries and \
        late/batched results, drained to quiescence, every 3rd small template under all delivery orders; plus 11 size-limit templates (1022/1023/1024 values from new / previous / current data, recursion) and scripts of \
        the general generator (correspondence only); non-trivial = history with at least 2 runs and a stream value; distinct by hash of (script, schedule)".into();
    let mut corr = Corr::new();
    // the recorded defect first
    {
        let (script, peers, evs) = known_scenario();
        let (net, _) = run_scripted(&script.text(), &peers, "known-finding", &evs);
        let mut cache = Cache::new(true);
        let views = step_views(&script, &net, &mut cache);
        let hc = HistCtx { tpl: None, script: &script, net: &net, views: &views, recursive: true, located: views.iter().flatten().all(|v| v.out.locs.is_ok()) };
        let fails = check_history(&hc, rep);
        rep.case("known-scenario", true, || json!({"template": "known-finding replay", "air": net.air}));
        corr.history(ctx, rep, &net, &["code", "trace", "requests"]);
        if let Some(fl) = fails.iter().find(|f| f.why.contains("never passed")) { let mut j = fail_json(&net, "known-finding replay", fl); j["scenario"] = json!("known-finding replay"); rep.oracle_fail(j); }
        else { rep.stat("known_scenario_no_longer_fails"); }
    }
    size_limit(ctx, rep, &mut corr);
    // directed: a fold over an ap-filled stream whose body has a remote append, with a prelude that shifts the trace positions of
    // the same appends between the two peers' data (merging then has to map positions; a lost iteration sub-trace loses appends)
    {
        let peers = peers_named(3);
        let (a, b) = (lit(&peers[0].id), lit(&peers[1].id));
        let prelude = seq(par(call(b.clone(), "svc", "str_early", vec![], stream("$early")), Instr::Null),
                          par(fold_stream("$early", "je", par(call(b.clone(), "svc", "echo_ew", vec![sc("je")], stream("$ew")), next("je")), None), Instr::Null));
        let body = par(seqs(vec![call(b.clone(), "svc", "echo_work", vec![sc("i")], stream("$out")), canon(a.clone(), "$out", "#o"), call(a.clone(), "obs", "seen_f1", vec![sc("i"), Val::Canon("#o".into())], Out::None)]), next("i"));
        let script = seq(prelude, seq(seq(ap(lit("v1"), "$m"), ap(lit("v2"), "$m")), fold_stream("$m", "i", body, None)));
        for round in 0..(if ctx.thorough { 40u64 } else { 8 }) {
            let mut net = Net::new(&script.text(), &peers, &format!("c13-shifted-{round}"));
            let mut r2 = Rng::new(ctx.seed ^ 0xC13 ^ (round * 7919));
            run_random_det(&mut net, &mut r2, 60);
            drain(&mut net, &mut r2, 200);
            let mut cache = Cache::new(true);
            let views = step_views(&script, &net, &mut cache);
            let hc = HistCtx { tpl: None, script: &script, net: &net, views: &views, recursive: false, located: views.iter().flatten().all(|v| v.out.locs.is_ok()) };
            let fails = check_history(&hc, rep);
            rep.case(&format!("directed-shifted|{}", net.log.iter().map(|s| format!("{}:{}", s.peer, s.event)).collect::<Vec<_>>().join(",")), true, || json!({"template": "directed shifted positions", "air": net.air}));
            rep.stat("directed_shifted_histories");
            corr.history(ctx, rep, &net, &["code", "trace", "requests"]);
            if let Some(fl) = fails.first() { rep.oracle_fail(fail_json(&net, "directed shifted positions", fl)); break; }
        }
    }
    // directed: a recursive chain on ONE peer — visiting value n triggers a local call whose result (arriving in a later run) is
    // value n+1; the peer only ever replays its own dense previous data, so this is outside the known sparse-replay class
    {
        let peers = peers_named(3);
        let a = lit(&peers[0].id);
        let mut guard = Instr::Null;
        for (v, f) in [("r:link4", "link5"), ("r:link3", "link4"), ("r:link2", "link3"), ("r:link1", "link2"), ("v0", "link1")] {
            guard = xor(matchv(sc("i"), lit(v), call(a.clone(), "svc", f, vec![], stream("$s"))), guard);
        }
        // (no other call in the body: a second pending call would trigger one more run, in which the value missed by a broken
        //  cursor is replayed from the previous data and visited after all; the chain calls themselves are the evidence)
        let body = seqs(vec![guard, next("i")]);
        let script = seq(call(a.clone(), "svc", "echo_0", vec![lit("v0")], stream("$s")), fold_stream("$s", "i", body, None));
        for round in 0..(if ctx.thorough { 10u64 } else { 3 }) {
            let mut net = Net::new(&script.text(), &peers, &format!("c13-chain-{round}"));
            let mut r2 = Rng::new(ctx.seed ^ 0xC13C ^ (round * 104729));
            run_random_det(&mut net, &mut r2, 80);
            drain(&mut net, &mut r2, 300);
            let mut cache = Cache::new(true);
            let views = step_views(&script, &net, &mut cache);
            let hc = HistCtx { tpl: None, script: &script, net: &net, views: &views, recursive: true, located: views.iter().flatten().all(|v| v.out.locs.is_ok()) };
            let fails = check_history(&hc, rep);
            rep.case(&format!("directed-chain|{round}|{}", net.log.len()), true, || json!({"template": "directed recursive chain on one peer", "air": net.air, "runs": net.log.len()}));
            rep.stat("directed_chain_histories");
            corr.history(ctx, rep, &net, &["code", "trace", "requests"]);
            // every link must have been visited: six values v0, r:link1 .. r:link5
            let visited: std::collections::BTreeSet<String> = net.log.iter().flat_map(|st| crate::host::decode_requests(&st.outcome.call_requests).unwrap_or_default().into_values())
                .filter(|r| r.function_name.starts_with("link")).map(|r| r.function_name.clone()).collect();
            if visited.len() != 5 {
                rep.oracle_fail(json!({"why": format!("recursive chain on one peer: every value appended while the fold runs must be visited, and the visit of value n requests link n+1; of the 5 links only {} were requested: {:?} (a value was appended to $s but the fold never visited it)", visited.len(), visited),
                    "input": crate::props::hist::step_json(&net, net.log.last().unwrap()), "history": history_json(&net), "scenario": "c13 directed chain"}));
                break;
            }
            if let Some(fl) = fails.iter().find(|f| !f.why.is_empty()) { let j = fail_json(&net, "directed recursive chain", fl); if j.get("finding_key").is_none() { rep.oracle_fail(j); break; } }
        }
    }
    let setup = Setup { prop: "C13", fields: &["code", "trace", "requests"], families: vec![Family::FoldVisit, Family::RecursiveFold, Family::WritersCanon, Family::RecursiveFold, Family::NewScopes, Family::FoldVisit, Family::NestedFolds, Family::StreamMap, Family::ParCanons],
        histories: (160, 3000), generated: (60, 2000), seed_salt: 0xC13, time_guard: (45, 700) };
    let (mut rec, mut rec_tainted) = (0u64, 0u64);
    drive(ctx, rep, &setup, &mut |hc, rep| { if hc.recursive && hc.tpl.is_some() { rec += 1; if hc.views.iter().flatten().any(|v| v.tainted) { rec_tainted += 1; } } check_history(hc, rep) });
    rep.stat_n("recursive_fold_histories", rec); rep.stat_n("recursive_fold_histories_with_sparse_replay", rec_tainted);
    let _ = (CallResults::new(), Limits::unlimited());
}
