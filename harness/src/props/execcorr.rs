//! Lock-step correspondence of the execution stage: at every step of simulated honest histories the Lean
//! model (`Aqua.Exec.runExec`) is given the implementation's actual inputs (the real parser's AST, decoded
//! previous/current data, run parameters, call results) and its outcome is diffed with the real outcome.
use crate::facts::*;
use crate::host::*;
use crate::props::hist::*;
use crate::sim::*;
use crate::util::*;
use crate::Ctx;
use serde_json::{json, Value};
use std::collections::BTreeMap;

pub fn exec_request(net: &Net, st: &StepRecord, ast: &Value) -> Value {
    let dj = |b: &[u8]| -> Value { let j = data_json(b); if j.is_null() { Value::Null } else { j["data"].clone() } };
    json!({"op": "exec", "ast": ast, "prev": dj(&st.prev), "cur": dj(&st.cur),
           "params": {"init": net.peer_ids[net.init], "me": net.peer_ids[st.peer], "ts": net.timestamp, "ttl": net.ttl},
           "results": st.results.iter().map(|(k, v)| (k.clone(), json!({"ret_code": v.ret_code, "result": v.result}))).collect::<BTreeMap<_, _>>(),
           // serde's error text for results that are not JSON (float/text conversion stays on the Rust side)
           "parse_errs": st.results.values().filter_map(|v| serde_json::from_str::<Value>(&v.result).err().map(|e| (v.result.clone(), json!(e.to_string())))).collect::<BTreeMap<_, _>>()})
}

fn sorted(v: &Value) -> Vec<String> { let mut x: Vec<String> = v.as_array().map(|a| a.iter().map(|s| s.as_str().unwrap_or("").to_string()).collect()).unwrap_or_default(); x.sort(); x.dedup(); x }

/// compares the model's answer with the real outcome; returns the name of the first differing field
pub fn compare_exec(m: &Value, net: &Net, st: &StepRecord) -> Option<String> { compare_exec_projected(m, net, st, &["code", "msg", "trace", "lcid", "next", "requests", "stores"]) }

/// compares only the observables named in `fields` (the projection of a property)
pub fn compare_exec_projected(m: &Value, net: &Net, st: &StepRecord, fields: &[&str]) -> Option<String> {
    let o = &st.outcome;
    let on = |f: &str| fields.contains(&f);
    if (1..=9999).contains(&o.ret_code) { return None; } // preparation-stage failure: the exec op models the execution stage only
    if on("code") && m["code"].as_i64() != Some(o.ret_code) { return Some(format!("code: model {} vs implementation {}", m["code"], o.ret_code)); }
    let uncatchable = (20000..=29999).contains(&o.ret_code);
    if uncatchable { return None; }
    if m["code"].as_i64() != Some(o.ret_code) { return None; } // outcomes of different kinds: only the code projection can speak
    if on("msg") && o.ret_code != 30000 && m["msg"].as_str() != Some(o.error_message.as_str()) { return Some(format!("message: model {:?} vs implementation {:?}", m["msg"], o.error_message)); }
    let f = match facts(&o.data) { Some(f) => f, None => return Some("implementation data does not decode".into()) };
    let real_trace = &f.json["data"]["trace"];
    if on("trace") && &m["trace"] != real_trace {
        let (a, b) = (m["trace"].as_array().cloned().unwrap_or_default(), real_trace.as_array().cloned().unwrap_or_default());
        let i = a.iter().zip(b.iter()).position(|(x, y)| x != y).unwrap_or(a.len().min(b.len()));
        return Some(format!("trace differs at {i}: model {} vs implementation {} (lengths {} / {})", a.get(i).unwrap_or(&Value::Null), b.get(i).unwrap_or(&Value::Null), a.len(), b.len()));
    }
    if on("lcid") && m["lcid"].as_u64() != Some(f.lcid) { return Some(format!("last call request id: model {} vs implementation {}", m["lcid"], f.lcid)); }
    let mut next = o.next_peer_pks.clone(); next.sort(); next.dedup();
    if on("next") && sorted(&m["next"]) != next { return Some(format!("next peers: model {:?} vs implementation {:?}", sorted(&m["next"]), next)); }
    // requests
    let reqs = decode_requests(&o.call_requests).unwrap_or_default();
    let mreqs = m["requests"].as_object().cloned().unwrap_or_default();
    if !on("requests") { return stores_cmp(m, &f, on("stores")); }
    if reqs.len() != mreqs.len() { return Some(format!("number of call requests: model {} vs implementation {}", mreqs.len(), reqs.len())); }
    for (id, r) in &reqs {
        let mr = match mreqs.get(&id.to_string()) { Some(x) => x, None => return Some(format!("request id {id} missing in the model")) };
        let args = Value::Array(decode_args(r));
        let tets = decode_tetraplets(r);
        if mr["service_id"].as_str() != Some(r.service_id.as_str()) || mr["function_name"].as_str() != Some(r.function_name.as_str()) { return Some(format!("request {id}: service/function differ")); }
        if mr["args"] != args { return Some(format!("request {id}: arguments: model {} vs implementation {}", mr["args"], args)); }
        if mr["tetraplets"] != tets { return Some(format!("request {id}: tetraplets: model {} vs implementation {}", mr["tetraplets"], tets)); }
    }
    let _ = net;
    stores_cmp(m, &f, on("stores"))
}

fn stores_cmp(m: &Value, f: &Facts, on: bool) -> Option<String> {
    if !on { return None; }
    for (name, store) in [("values", "value_store"), ("tetraplets", "tetraplet_store"), ("service_results", "service_result_store"),
                          ("canon_elements", "canon_element_store"), ("canon_results", "canon_result_store")] {
        let mut real: Vec<String> = f.store(store).as_object().map(|o| o.keys().cloned().collect()).unwrap_or_default(); real.sort();
        if sorted(&m[name]) != real { return Some(format!("{store} keys differ: model {} vs implementation {}", sorted(&m[name]).len(), real.len())); }
    }
    None
}

pub fn run(ctx: &mut Ctx, rep: &mut Report) {
    rep.rule = "case = one run of a simulated honest history (generated scripts: scalars, streams, stream maps, canon streams / canon maps with lenses; 3-5 peers, random schedules); the model gets the real parser's AST and the decoded real inputs; \
        compared: return code, message, result trace, last request id, next peers (set), call requests (service, function, arguments, tetraplets), key sets of the CID stores; \
        non-trivial = run whose trace has at least 2 entries; distinct by hash of (script, inputs)".into();
    let mut rng = Rng::new(ctx.seed ^ 0xE8EC);
    let n_hist = if ctx.thorough { 3000 } else { 150 };
    for _ in 0..n_hist {
        let budget = 6 + rng.below(12);
        let streams = std::env::var("AQUA_EXECCORR_STREAMS").map(|v| v != "0").unwrap_or(true) && rng.chance(1, 2);
        let h = gen_history(&mut rng, streams, false, budget, 50);
        let ast = match air_parser::parse(&h.air) { Ok(a) => serde_json::to_value(&a).unwrap(), Err(e) => { rep.stat("script_does_not_parse"); if std::env::var("AQUA_EXECCORR_DEBUG").is_ok() { eprintln!("PARSE {}\n   {}", e.lines().nth(2).unwrap_or("").chars().take(200).collect::<String>(), h.air.chars().take(3000).collect::<String>()); } continue; } };
        note_history(rep, &h);
        let feats = h.script.map_features();
        for st in &h.net.log {
            if st.outcome.ret_code == PANIC_CODE { continue; }
            let req = exec_request(&h.net, st, &ast);
            let canon = format!("{}|{}|{}|{}", h.air, hex(&st.prev).len(), fnv(&hex(&st.cur)), st.results.len());
            let nontrivial = facts(&st.outcome.data).map(|f| f.trace.len() >= 2).unwrap_or(false);
            rep.case(&canon, nontrivial, || json!({"air": h.air, "peer": h.net.peers[st.peer].peer.name, "event": st.event, "code": st.outcome.ret_code}));
            let m = ctx.driver.ask(&req);
            if let Some(u) = m.get("unmodelled") { rep.unmodelled += 1; rep.stat(&format!("unmodelled:{}", u.as_str().unwrap_or("?").chars().take(40).collect::<String>())); continue; }
            rep.model_compared += 1;
            for ft in &feats { rep.stat(&format!("compared_runs_with_{ft}")); }
            if !feats.is_empty() { rep.stat("compared_runs_with_maps_or_canon_lenses"); }
            if m.get("panic").is_some() { rep.disagree(json!({"op": "exec", "why": "model panics, implementation does not", "model": m, "air": h.air, "step": step_json(&h.net, st)})); continue; }
            if let Some(why) = compare_exec(&m, &h.net, st) {
                rep.disagree(json!({"op": "exec", "why": why, "air": h.air, "step": step_json(&h.net, st), "model_code": m["code"], "model_msg": m["msg"], "model_detail": m["detail"]}));
            }
        }
    }
}
