//! C23 — the parser is total and accepts only well-scoped scripts.
//!
//! Three independent things run on every generated text:
//!  * totality: `air_parser::parse` under `catch_unwind` (a panic is a failure of the property);
//!  * the direct oracle, written from the property text: on every ACCEPTED script walk the real AST
//!    (token positions of the variables, enclosing folds), collect every variable use in EVERY operand
//!    position and every definition, and check "defined earlier in the text or an enclosing fold
//!    iterator", "every `next i` is inside a fold with iterator `i`", "no `Instruction::Error` node";
//!  * correspondence with the Lean model: `c23_parse` (text -> ok + syntax tree with spans | err(stage,
//!    kinds) | panic) and `c23_validate` (the real syntax tree with spans -> validator errors; the tree
//!    is obtained through the public `AIRParser`/`AIRLexer`/`VariableValidator`, so it exists also for
//!    scripts `parse` rejects for scoping reasons).
use crate::props::c23gen as gen;
use crate::util::*;
use crate::Ctx;
use air_lambda_ast::{LambdaAST, ValueAccessor};
use air_parser::ast::*;
use air_parser::{AIRLexer, AIRParser, AirPos, VariableValidator};
use serde_json::{json, Value};
use std::collections::BTreeMap;
use std::sync::Mutex;

// ------------------------------------------------------------------------------------------------
// panic capture (location of a caught panic of the real code)

static LAST_PANIC: Mutex<String> = Mutex::new(String::new());

fn install_hook() {
    std::panic::set_hook(Box::new(|info| {
        let loc = info.location().map(|l| format!("{}:{}", l.file(), l.line())).unwrap_or_default();
        let msg = if let Some(s) = info.payload().downcast_ref::<String>() { s.clone() } else if let Some(s) = info.payload().downcast_ref::<&str>() { s.to_string() } else { String::new() };
        *LAST_PANIC.lock().unwrap() = format!("{loc}: {msg}");
    }));
}

fn silence_stderr() {
    // `report_errors` prints every report to stderr as well
    unsafe {
        let path = std::ffi::CString::new("/dev/null").unwrap();
        let fd = libc::open(path.as_ptr(), libc::O_WRONLY);
        if fd >= 0 { libc::dup2(fd, 2); libc::close(fd); }
    }
}

// ------------------------------------------------------------------------------------------------
// real tokens -> spans of the instructions, in text order of their opening bracket

const KEYWORDS: &[&str] = &["Call", "Canon", "Ap", "Seq", "Par", "Fail", "Fold", "Xor", "Never", "New", "Next", "Null", "Match", "MisMatch"];

pub struct RealTokens { pub n: usize, pub instr_spans: Vec<(usize, usize)>, pub lex_error: bool }

pub fn real_tokens(text: &str) -> RealTokens {
    let mut toks: Vec<(usize, String, usize)> = vec![];
    let mut lex_error = false;
    for item in AIRLexer::new(text) {
        match item {
            Ok((l, t, r)) => {
                let v = serde_json::to_value(&t).unwrap_or(Value::Null);
                let name = match &v { Value::String(s) => s.clone(), Value::Object(o) => o.keys().next().cloned().unwrap_or_default(), _ => String::new() };
                toks.push((usize::from(l), name, usize::from(r)));
            }
            Err(_) => { lex_error = true; break; }
        }
    }
    // match round brackets; an instruction is "(" followed by a keyword token
    let mut spans: Vec<(usize, usize)> = vec![];
    let mut stack: Vec<Option<usize>> = vec![];
    for i in 0..toks.len() {
        match toks[i].1.as_str() {
            "OpenRoundBracket" => {
                let is_instr = i + 1 < toks.len() && KEYWORDS.contains(&toks[i + 1].1.as_str());
                if is_instr { spans.push((toks[i].0, usize::MAX)); stack.push(Some(spans.len() - 1)); } else { stack.push(None); }
            }
            "CloseRoundBracket" => { if let Some(Some(k)) = stack.pop() { spans[k].1 = toks[i].2; } }
            _ => {}
        }
    }
    RealTokens { n: toks.len(), instr_spans: spans, lex_error }
}

// ------------------------------------------------------------------------------------------------
// real AST -> the harness' JSON form with spans (same shape as lean/AquaDrv/C23Ops.lean)

fn lens_j(l: &LambdaAST<'_>) -> Value {
    match l {
        LambdaAST::Functor(_) => json!("length"),
        LambdaAST::ValuePath(p) => Value::Array(p.iter().map(|a| match a {
            ValueAccessor::ArrayAccess { idx } => json!({"idx": idx}),
            ValueAccessor::FieldAccessByName { field_name } => json!({"field": field_name}),
            ValueAccessor::FieldAccessByScalar { scalar_name } => json!({"scalar": scalar_name}),
            ValueAccessor::Error => json!({"error_accessor": true}),
        }).collect()),
    }
}
fn opt_lens_j(l: &Option<LambdaAST<'_>>) -> Value { l.as_ref().map(lens_j).unwrap_or(Value::Null) }
fn number_j(n: &Number) -> Value { match n { Number::Int(i) => json!({"t": "num", "n": i}), Number::Float(f) => json!({"t": "float", "bits": f.to_bits().to_string()}) } }

/// `vars` collects (name, position) of every variable token in text order
struct Conv<'a> { spans: &'a [(usize, usize)], next_span: usize, vars: Vec<(String, usize)>, span_mismatch: Option<String>, error_nodes: usize, nodes: Vec<Value> }

impl<'a> Conv<'a> {
    fn var(&mut self, name: &str, pos: AirPos) { self.vars.push((name.to_string(), usize::from(pos))); }
    fn peer(&mut self, v: &ResolvableToPeerIdVariable<'_>) -> Value {
        use ResolvableToPeerIdVariable::*;
        match v {
            InitPeerId => json!({"t": "init"}),
            Literal(s) => json!({"t": "lit", "s": s}),
            Scalar(s) => { self.var(s.name, s.position); json!({"t": "scalar", "n": s.name}) }
            ScalarWithLambda(s) => { self.var(s.name, s.position); json!({"t": "scalar_wl", "n": s.name, "lens": lens_j(&s.lambda)}) }
            CanonStreamWithLambda(s) => { self.var(s.name, s.position); json!({"t": "canon_wl", "n": s.name, "lens": lens_j(&s.lambda)}) }
            CanonStreamMapWithLambda(s) => { self.var(s.name, s.position); json!({"t": "cmap_wl", "n": s.name, "lens": lens_j(&s.lambda)}) }
        }
    }
    fn strv(&mut self, v: &ResolvableToStringVariable<'_>) -> Value {
        use ResolvableToStringVariable::*;
        match v {
            Literal(s) => json!({"t": "lit", "s": s}),
            Scalar(s) => { self.var(s.name, s.position); json!({"t": "scalar", "n": s.name}) }
            ScalarWithLambda(s) => { self.var(s.name, s.position); json!({"t": "scalar_wl", "n": s.name, "lens": lens_j(&s.lambda)}) }
            CanonStreamWithLambda(s) => { self.var(s.name, s.position); json!({"t": "canon_wl", "n": s.name, "lens": lens_j(&s.lambda)}) }
            CanonStreamMapWithLambda(s) => { self.var(s.name, s.position); json!({"t": "cmap_wl", "n": s.name, "lens": lens_j(&s.lambda)}) }
        }
    }
    fn value(&mut self, v: &ImmutableValue<'_>) -> Value {
        use ImmutableValue::*;
        match v {
            InitPeerId => json!({"t": "init"}),
            Error(e) => json!({"t": "err", "lens": opt_lens_j(&e.lens)}),
            LastError(l) => json!({"t": "le", "lens": opt_lens_j(l)}),
            Timestamp => json!({"t": "ts"}),
            TTL => json!({"t": "ttl"}),
            Literal(s) => json!({"t": "lit", "s": &**s}),
            Number(n) => number_j(n),
            Boolean(b) => json!({"t": "bool", "b": b}),
            EmptyArray => json!({"t": "empty"}),
            Variable(ImmutableVariable::Scalar(s)) => { self.var(s.name, s.position); json!({"t": "scalar", "n": s.name}) }
            Variable(ImmutableVariable::CanonStream(s)) => { self.var(s.name, s.position); json!({"t": "canon", "n": s.name}) }
            Variable(ImmutableVariable::CanonStreamMap(s)) => { self.var(s.name, s.position); json!({"t": "cmap", "n": s.name}) }
            VariableWithLambda(ImmutableVariableWithLambda::Scalar(s)) => { self.var(s.name, s.position); json!({"t": "scalar_wl", "n": s.name, "lens": lens_j(&s.lambda)}) }
            VariableWithLambda(ImmutableVariableWithLambda::CanonStream(s)) => { self.var(s.name, s.position); json!({"t": "canon_wl", "n": s.name, "lens": lens_j(&s.lambda)}) }
            VariableWithLambda(ImmutableVariableWithLambda::CanonStreamMap(s)) => { self.var(s.name, s.position); json!({"t": "cmap_wl", "n": s.name, "lens": lens_j(&s.lambda)}) }
        }
    }
    fn ap_arg(&mut self, v: &ApArgument<'_>) -> Value {
        use ApArgument::*;
        match v {
            InitPeerId => json!({"t": "init"}),
            Timestamp => json!({"t": "ts"}),
            TTL => json!({"t": "ttl"}),
            Error(e) => json!({"t": "err", "lens": opt_lens_j(&e.lens)}),
            LastError(l) => json!({"t": "le", "lens": opt_lens_j(l)}),
            Literal(s) => json!({"t": "lit", "s": &**s}),
            Number(n) => number_j(n),
            Boolean(b) => json!({"t": "bool", "b": b}),
            EmptyArray => json!({"t": "empty"}),
            Scalar(s) => { self.var(s.name, s.position); json!({"t": "scalar", "n": s.name}) }
            ScalarWithLambda(s) => { self.var(s.name, s.position); json!({"t": "scalar_wl", "n": s.name, "lens": lens_j(&s.lambda)}) }
            CanonStream(s) => { self.var(s.name, s.position); json!({"t": "canon", "n": s.name}) }
            CanonStreamMap(s) => { self.var(s.name, s.position); json!({"t": "cmap", "n": s.name}) }
            CanonStreamWithLambda(s) => { self.var(s.name, s.position); json!({"t": "canon_wl", "n": s.name, "lens": lens_j(&s.lambda)}) }
            CanonStreamMapWithLambda(s) => { self.var(s.name, s.position); json!({"t": "cmap_wl", "n": s.name, "lens": lens_j(&s.lambda)}) }
        }
    }
    fn take_span(&mut self, real: Option<Span>) -> Value {
        let sp = self.spans.get(self.next_span).cloned().unwrap_or((usize::MAX, usize::MAX));
        self.next_span += 1;
        if let Some(r) = real {
            if (usize::from(r.left), usize::from(r.right)) != sp && self.span_mismatch.is_none() {
                self.span_mismatch = Some(format!("token-derived span {:?} vs AST span {:?}", sp, (usize::from(r.left), usize::from(r.right))));
            }
        }
        json!([sp.0, sp.1])
    }
    /// appends the heads of the instructions in pre-order (= text order); children follow their parent
    fn instr(&mut self, i: &Instruction<'_>) {
        match i {
            Instruction::Error => { self.error_nodes += 1; self.nodes.push(json!({"k": "error"})); }
            Instruction::Call(c) => {
                let sp = self.take_span(None);
                let peer = self.peer(&c.triplet.peer_id); let svc = self.strv(&c.triplet.service_id); let func = self.strv(&c.triplet.function_name);
                let args: Vec<Value> = c.args.iter().map(|a| self.value(a)).collect();
                let out = match &c.output {
                    CallOutputValue::None => Value::Null,
                    CallOutputValue::Scalar(s) => { self.var(s.name, s.position); json!({"t": "scalar", "n": s.name}) }
                    CallOutputValue::Stream(s) => { self.var(s.name, s.position); json!({"t": "stream", "n": s.name, "p": usize::from(s.position)}) }
                };
                self.nodes.push(json!({"k": "call", "sp": sp, "peer": peer, "svc": svc, "func": func, "args": args, "out": out}));
            }
            Instruction::Ap(a) => {
                let sp = self.take_span(None);
                let arg = self.ap_arg(&a.argument);
                let out = match &a.result {
                    ApResult::Scalar(s) => { self.var(s.name, s.position); json!({"t": "scalar", "n": s.name}) }
                    ApResult::Stream(s) => { self.var(s.name, s.position); json!({"t": "stream", "n": s.name, "p": usize::from(s.position)}) }
                };
                self.nodes.push(json!({"k": "ap", "sp": sp, "arg": arg, "out": out}));
            }
            Instruction::ApMap(a) => {
                let sp = self.take_span(None);
                let key = match &a.key {
                    StreamMapKeyClause::Literal(s) => json!({"t": "lit", "s": &**s}),
                    StreamMapKeyClause::Int(n) => json!({"t": "num", "n": n}),
                    StreamMapKeyClause::Scalar(s) => { self.var(s.name, s.position); json!({"t": "scalar", "n": s.name}) }
                    StreamMapKeyClause::ScalarWithLambda(s) => { self.var(s.name, s.position); json!({"t": "scalar_wl", "n": s.name, "lens": lens_j(&s.lambda)}) }
                    StreamMapKeyClause::CanonStreamWithLambda(s) => { self.var(s.name, s.position); json!({"t": "canon_wl", "n": s.name, "lens": lens_j(&s.lambda)}) }
                };
                let val = self.ap_arg(&a.value);
                self.var(a.map.name, a.map.position);
                self.nodes.push(json!({"k": "ap_map", "sp": sp, "key": key, "val": val, "map": a.map.name, "p": usize::from(a.map.position)}));
            }
            Instruction::Canon(c) => {
                let sp = self.take_span(None); let peer = self.peer(&c.peer_id);
                self.var(c.stream.name, c.stream.position); self.var(c.canon_stream.name, c.canon_stream.position);
                self.nodes.push(json!({"k": "canon", "sp": sp, "peer": peer, "src": c.stream.name, "p": usize::from(c.stream.position), "dst": c.canon_stream.name}));
            }
            Instruction::CanonMap(c) => {
                let sp = self.take_span(None); let peer = self.peer(&c.peer_id);
                self.var(c.stream_map.name, c.stream_map.position); self.var(c.canon_stream_map.name, c.canon_stream_map.position);
                self.nodes.push(json!({"k": "canon_map", "sp": sp, "peer": peer, "src": c.stream_map.name, "p": usize::from(c.stream_map.position), "dst": c.canon_stream_map.name}));
            }
            Instruction::CanonStreamMapScalar(c) => {
                let sp = self.take_span(None); let peer = self.peer(&c.peer_id);
                self.var(c.stream_map.name, c.stream_map.position); self.var(c.scalar.name, c.scalar.position);
                self.nodes.push(json!({"k": "canon_map_scalar", "sp": sp, "peer": peer, "src": c.stream_map.name, "p": usize::from(c.stream_map.position), "dst": c.scalar.name}));
            }
            Instruction::Seq(s) => { let sp = self.take_span(None); self.nodes.push(json!({"k": "seq", "sp": sp})); self.instr(&s.0); self.instr(&s.1); }
            Instruction::Par(s) => { let sp = self.take_span(None); self.nodes.push(json!({"k": "par", "sp": sp})); self.instr(&s.0); self.instr(&s.1); }
            Instruction::Xor(s) => { let sp = self.take_span(None); self.nodes.push(json!({"k": "xor", "sp": sp})); self.instr(&s.0); self.instr(&s.1); }
            Instruction::Match(m) => { let sp = self.take_span(None); let a = self.value(&m.left_value); let b = self.value(&m.right_value); self.nodes.push(json!({"k": "match", "sp": sp, "a": a, "b": b})); self.instr(&m.instruction); }
            Instruction::MisMatch(m) => { let sp = self.take_span(None); let a = self.value(&m.left_value); let b = self.value(&m.right_value); self.nodes.push(json!({"k": "mismatch", "sp": sp, "a": a, "b": b})); self.instr(&m.instruction); }
            Instruction::Fail(f) => {
                let sp = self.take_span(None);
                let arg = match &**f {
                    Fail::Scalar(s) => { self.var(s.name, s.position); json!({"t": "scalar", "n": s.name}) }
                    Fail::ScalarWithLambda(s) => { self.var(s.name, s.position); json!({"t": "scalar_wl", "n": s.name, "lens": lens_j(&s.lambda)}) }
                    Fail::Literal { ret_code, error_message } => json!({"t": "lit", "code": ret_code, "msg": error_message}),
                    Fail::CanonStreamWithLambda(s) => { self.var(s.name, s.position); json!({"t": "canon_wl", "n": s.name, "lens": lens_j(&s.lambda)}) }
                    Fail::LastError => json!({"t": "le"}),
                    Fail::Error => json!({"t": "err"}),
                };
                self.nodes.push(json!({"k": "fail", "sp": sp, "arg": arg}));
            }
            Instruction::FoldScalar(f) => {
                let sp = self.take_span(Some(f.span));
                let v = match &f.iterable {
                    FoldScalarIterable::Scalar(s) => { self.var(s.name, s.position); json!({"t": "scalar", "n": s.name}) }
                    FoldScalarIterable::ScalarWithLambda(s) => { self.var(s.name, s.position); json!({"t": "scalar_wl", "n": s.name, "lens": lens_j(&s.lambda)}) }
                    FoldScalarIterable::CanonStream(s) => { self.var(s.name, s.position); json!({"t": "canon", "n": s.name}) }
                    FoldScalarIterable::CanonStreamMap(s) => { self.var(s.name, s.position); json!({"t": "cmap", "n": s.name}) }
                    FoldScalarIterable::CanonStreamMapWithLambda(s) => { self.var(s.name, s.position); json!({"t": "cmap_wl", "n": s.name, "lens": lens_j(&s.lambda)}) }
                    FoldScalarIterable::EmptyArray => json!({"t": "empty"}),
                };
                self.var(f.iterator.name, f.iterator.position);
                self.nodes.push(json!({"k": "fold", "sp": sp, "iterable": {"t": "value", "v": v}, "iterator": f.iterator.name, "has_last": f.last_instruction.is_some()}));
                self.instr(&f.instruction);
                if let Some(l) = &f.last_instruction { self.instr(l); }
            }
            Instruction::FoldStream(f) => {
                let sp = self.take_span(Some(f.span));
                self.var(f.iterable.name, f.iterable.position); self.var(f.iterator.name, f.iterator.position);
                self.nodes.push(json!({"k": "fold", "sp": sp, "iterable": {"t": "stream", "n": f.iterable.name, "p": usize::from(f.iterable.position)}, "iterator": f.iterator.name, "has_last": f.last_instruction.is_some()}));
                self.instr(&f.instruction);
                if let Some(l) = &f.last_instruction { self.instr(l); }
            }
            Instruction::FoldStreamMap(f) => {
                let sp = self.take_span(Some(f.span));
                self.var(f.iterable.name, f.iterable.position); self.var(f.iterator.name, f.iterator.position);
                self.nodes.push(json!({"k": "fold", "sp": sp, "iterable": {"t": "smap", "n": f.iterable.name, "p": usize::from(f.iterable.position)}, "iterator": f.iterator.name, "has_last": f.last_instruction.is_some()}));
                self.instr(&f.instruction);
                if let Some(l) = &f.last_instruction { self.instr(l); }
            }
            Instruction::Never(_) => { let sp = self.take_span(None); self.nodes.push(json!({"k": "never", "sp": sp})); }
            Instruction::Null(_) => { let sp = self.take_span(None); self.nodes.push(json!({"k": "null", "sp": sp})); }
            Instruction::Next(n) => { let sp = self.take_span(None); self.var(n.iterator.name, n.iterator.position); self.nodes.push(json!({"k": "next", "sp": sp, "iterator": n.iterator.name})); }
            Instruction::New(n) => {
                let sp = self.take_span(Some(n.span));
                let arg = match &n.argument {
                    NewArgument::Scalar(s) => { self.var(s.name, s.position); json!({"t": "scalar", "n": s.name}) }
                    NewArgument::Stream(s) => { self.var(s.name, s.position); json!({"t": "stream", "n": s.name}) }
                    NewArgument::StreamMap(s) => { self.var(s.name, s.position); json!({"t": "smap", "n": s.name}) }
                    NewArgument::CanonStream(s) => { self.var(s.name, s.position); json!({"t": "canon", "n": s.name}) }
                    NewArgument::CanonStreamMap(s) => { self.var(s.name, s.position); json!({"t": "cmap", "n": s.name}) }
                };
                self.nodes.push(json!({"k": "new", "sp": sp, "arg": arg}));
                self.instr(&n.instruction);
            }
        }
    }
}

// ------------------------------------------------------------------------------------------------
// direct oracle: scope check on the harness' JSON form of the REAL syntax tree

#[derive(Debug, Clone)]
pub struct ScopeFailure { pub why: String, pub site: String, pub name: String, pub finding_key: Option<&'static str> }

/// `pos`: byte position of the variable token the use belongs to (of the instruction for the lens of
/// `%last_error%` / `:error:`, which has no position in the AST)
struct Use { name: String, site: &'static str, pos: usize, instr_right: usize, enclosing: Vec<String>, visited: bool }
struct NextUse { name: String, instr_right: usize, enclosing: Vec<String> }
struct Scope<'a> { vars: &'a [(String, usize)], cursor: usize, defs: Vec<(String, usize)>, uses: Vec<Use>, nexts: Vec<NextUse>, folds: Vec<(String, usize, usize)>, error_nodes: usize }

fn lens_scalars(l: &Value) -> Vec<String> {
    l.as_array().map(|a| a.iter().filter_map(|x| x.get("scalar").and_then(|s| s.as_str()).map(|s| s.to_string())).collect()).unwrap_or_default()
}

impl<'a> Scope<'a> {
    /// token position of the next variable of the tree (the walk visits variables in text order, as `Conv` did)
    fn pos(&mut self, name: &str) -> usize {
        let (n, p) = &self.vars[self.cursor];
        assert_eq!(n, name, "harness: variable order of the scope walk differs from the conversion walk");
        self.cursor += 1;
        *p
    }
    /// every variable mentioned by an operand: the variable itself and the scalars its lens indexes with
    fn operand(&mut self, v: &Value, site: &'static str, visited: bool, sp: (usize, usize), enc: &[String]) {
        let t = v["t"].as_str().unwrap_or("");
        match t {
            "scalar" | "canon" | "cmap" | "scalar_wl" | "canon_wl" | "cmap_wl" => {
                let name = v["n"].as_str().unwrap().to_string();
                let pos = self.pos(&name);
                self.uses.push(Use { name, site, pos, instr_right: sp.1, enclosing: enc.to_vec(), visited });
                if t.ends_with("_wl") { for s in lens_scalars(&v["lens"]) { self.uses.push(Use { name: s, site, pos, instr_right: sp.1, enclosing: enc.to_vec(), visited }); } }
            }
            "le" | "err" => { for s in lens_scalars(&v["lens"]) { self.uses.push(Use { name: s, site: "error-lens-accessor", pos: sp.0, instr_right: sp.1, enclosing: enc.to_vec(), visited: false }); } }
            _ => {}
        }
    }
    fn def(&mut self, name: &str) { let p = self.pos(name); self.defs.push((name.to_string(), p)); }
    /// walks the instruction at `nodes[at]` (pre-order list), returns the index after its subtree
    fn walk(&mut self, nodes: &[Value], at: usize, enc: &mut Vec<String>) -> usize {
        let i = &nodes[at];
        let k = i["k"].as_str().unwrap_or("");
        if k == "error" { self.error_nodes += 1; return at + 1; }
        let sp = (i["sp"][0].as_u64().unwrap() as usize, i["sp"][1].as_u64().unwrap() as usize);
        match k {
            "call" => {
                self.operand(&i["peer"], "call-peer", true, sp, enc); self.operand(&i["svc"], "call-service", true, sp, enc); self.operand(&i["func"], "call-function", true, sp, enc);
                for a in i["args"].as_array().unwrap() { self.operand(a, "call-arg", true, sp, enc); }
                if let Some(n) = i["out"].get("n").and_then(|n| n.as_str()) { self.def(n); }
                at + 1
            }
            "ap" => { self.operand(&i["arg"], "ap-arg", true, sp, enc); self.def(i["out"]["n"].as_str().unwrap()); at + 1 }
            "ap_map" => { self.operand(&i["key"], "apmap-key", true, sp, enc); self.operand(&i["val"], "apmap-value", false, sp, enc); self.def(i["map"].as_str().unwrap()); at + 1 }
            "canon" | "canon_map" | "canon_map_scalar" => {
                self.operand(&i["peer"], "canon-peer", false, sp, enc);
                let src = i["src"].as_str().unwrap().to_string();
                let pos = self.pos(&src);
                self.uses.push(Use { name: src, site: "canon-source", pos, instr_right: sp.1, enclosing: enc.clone(), visited: false });
                self.def(i["dst"].as_str().unwrap());
                at + 1
            }
            "seq" | "par" | "xor" => { let n = self.walk(nodes, at + 1, enc); self.walk(nodes, n, enc) }
            "match" | "mismatch" => { self.operand(&i["a"], "match-operand", true, sp, enc); self.operand(&i["b"], "match-operand", true, sp, enc); self.walk(nodes, at + 1, enc) }
            "fail" => { self.operand(&i["arg"], "fail-operand", false, sp, enc); at + 1 }
            "fold" => {
                let it = &i["iterable"];
                match it["t"].as_str().unwrap() {
                    "value" => self.operand(&it["v"], "fold-iterable", true, sp, enc),
                    _ => { let n = it["n"].as_str().unwrap().to_string(); let pos = self.pos(&n); self.uses.push(Use { name: n, site: "fold-stream-iterable", pos, instr_right: sp.1, enclosing: enc.clone(), visited: true }); }
                }
                let iterator = i["iterator"].as_str().unwrap().to_string();
                let _ = self.pos(&iterator);
                self.folds.push((iterator.clone(), sp.0, sp.1));
                enc.push(iterator);
                let mut n = self.walk(nodes, at + 1, enc);
                if i["has_last"].as_bool().unwrap_or(false) { n = self.walk(nodes, n, enc); }
                enc.pop();
                n
            }
            "next" => { let n = i["iterator"].as_str().unwrap().to_string(); let _ = self.pos(&n); self.nexts.push(NextUse { name: n, instr_right: sp.1, enclosing: enc.clone() }); at + 1 }
            "new" => { self.def(i["arg"]["n"].as_str().unwrap()); self.walk(nodes, at + 1, enc) }
            _ => at + 1,
        }
    }
}

/// The property on one accepted script, from its text: every variable use (in EVERY operand position,
/// lens accessors included) has a definition — call output, ap result, ap-map map, canon result, `new`
/// variable — whose token is earlier in the text, or names the iterator of an enclosing fold; every `next i`
/// is inside a fold with iterator `i`; no error node.  `finding_key` classifies a violation that is one of the
/// known defects of the validator (stable keys); an unexplained violation has none.
pub fn scope_check(ast: &Value, vars: &[(String, usize)]) -> Vec<ScopeFailure> {
    let mut s = Scope { vars, cursor: 0, defs: vec![], uses: vec![], nexts: vec![], folds: vec![], error_nodes: 0 };
    let nodes: Vec<Value> = ast.as_array().cloned().unwrap_or_default();
    if !nodes.is_empty() { s.walk(&nodes, 0, &mut vec![]); }
    let mut out = vec![];
    if s.error_nodes > 0 { out.push(ScopeFailure { why: "accepted syntax tree contains an Instruction::Error node".into(), site: "error-node".into(), name: String::new(), finding_key: None }); }
    for u in &s.uses {
        let defined_earlier = s.defs.iter().any(|(n, p)| *n == u.name && *p < u.pos);
        let enclosing_iter = u.enclosing.contains(&u.name);
        if defined_earlier || enclosing_iter { continue; }
        let key: Option<&'static str> = match u.site {
            "fail-operand" => Some("validator-skips-fail-operand"),
            "canon-peer" => Some("validator-skips-canon-peer"),
            "apmap-value" => Some("validator-skips-apmap-value"),
            "error-lens-accessor" => Some("validator-skips-error-lens-accessor"),
            "canon-source" => Some("validator-skips-canon-source-stream"),
            _ => {
                // a visited position: only two known ways to slip through
                if s.folds.iter().any(|(n, left, _)| *n == u.name && *left < u.pos) { Some("validator-iterator-used-outside-fold") }
                else if s.uses.iter().any(|o| o.visited && o.name == u.name && o.instr_right < u.instr_right) { Some("validator-checks-first-unresolved-use-only") }
                else { None }
            }
        };
        out.push(ScopeFailure { why: format!("variable '{}' used at {} (byte {}) has no definition earlier in the text and is not an enclosing fold iterator", u.name, u.site, u.pos),
                                site: u.site.into(), name: u.name.clone(), finding_key: key });
    }
    for n in &s.nexts {
        if n.enclosing.contains(&n.name) { continue; }
        let key = if s.nexts.iter().any(|o| o.name == n.name && o.instr_right < n.instr_right) { Some("validator-checks-first-next-only") } else { None };
        out.push(ScopeFailure { why: format!("next {} is not inside a fold with that iterator", n.name), site: "next".into(), name: n.name.clone(), finding_key: key });
    }
    out
}

// ------------------------------------------------------------------------------------------------
// the real parser

pub enum Real { Ok { ast: Value, vars: Vec<(String, usize)>, span_mismatch: Option<String> }, Err(String), Panic(String) }

thread_local!(static RAW_PARSER: AIRParser = AIRParser::new());

pub fn real_parse(text: &str) -> Real {
    let toks = real_tokens_safe(text);
    let r = std::panic::catch_unwind(|| {
        match air_parser::parse(text) {
            Ok(i) => {
                let spans = toks.as_ref().map(|t| t.instr_spans.clone()).unwrap_or_default();
                let mut c = Conv { spans: &spans, next_span: 0, vars: vec![], span_mismatch: None, error_nodes: 0, nodes: vec![] };
                c.instr(&i);
                Ok((Value::Array(c.nodes), c.vars, c.span_mismatch))
            }
            Err(e) => Err(e),
        }
    });
    match r {
        Ok(Ok((ast, vars, span_mismatch))) => Real::Ok { ast, vars, span_mismatch },
        Ok(Err(e)) => Real::Err(e),
        Err(_) => Real::Panic(LAST_PANIC.lock().unwrap().clone()),
    }
}

fn real_tokens_safe(text: &str) -> Option<RealTokens> { std::panic::catch_unwind(|| real_tokens(text)).ok() }

/// the LALRPOP run without the final decision of `parse`: `Some(tree)` iff the text is a sentence of the
/// grammar (no lexer error, no syntax error, no recovery)
pub fn real_syntax_tree(text: &str) -> Option<Value> {
    let toks = real_tokens_safe(text)?;
    if toks.lex_error { return None; }
    std::panic::catch_unwind(|| {
        RAW_PARSER.with(|p| {
            let mut errors = Vec::new();
            let mut validator = VariableValidator::new();
            let r = p.parse(text, &mut errors, &mut validator, AIRLexer::new(text));
            match r {
                Ok(i) if errors.is_empty() => {
                    let mut c = Conv { spans: &toks.instr_spans, next_span: 0, vars: vec![], span_mismatch: None, error_nodes: 0, nodes: vec![] };
                    c.instr(&i);
                    if c.error_nodes > 0 || c.span_mismatch.is_some() { None } else { Some(Value::Array(c.nodes)) }
                }
                _ => None,
            }
        })
    }).ok().flatten()
}

// ------------------------------------------------------------------------------------------------
// error report text -> error kinds

const LEXER_MSGS: &[(&str, &str)] = &[
    ("this string literal has unclosed quote", "UnclosedQuote"),
    ("empty string aren't allowed in this position", "EmptyString"),
    ("only alphanumeric, '_', and '-' characters are allowed in this position", "IsNotAlphanumeric"),
    ("a tagged name should be non empty", "EmptyTaggedName"),
    ("a canon name should be non empty", "EmptyCanonName"),
    ("this variable or constant shouldn't have empty name", "EmptyVariableOrConst"),
    ("invalid character in lambda", "InvalidLambda"),
    ("a digit could contain only digits or one dot", "UnallowedCharInNumber"),
    ("this float is too big, a float could contain less than 12 digits", "TooBigFloat"),
    ("leading dot without any symbols before", "LeadingDot"),
    ("number too large to fit in target type", "ParseIntError:number too large to fit in target type"),
    ("number too small to fit in target type", "ParseIntError:number too small to fit in target type"),
    ("invalid digit found in string", "ParseIntError:invalid digit found in string"),
    ("invalid float literal", "ParseFloatError:invalid float literal"),
];

fn quoted_after<'a>(msg: &'a str, prefix: &str, suffix: &str) -> Vec<String> {
    let mut out = vec![];
    let mut rest = msg;
    while let Some(i) = rest.find(prefix) {
        let after = &rest[i + prefix.len()..];
        if let Some(j) = after.find(suffix) { out.push(after[..j].to_string()); rest = &after[j + suffix.len()..]; } else { break; }
    }
    out
}

/// validator errors named in a report, as sorted "Kind:name" strings
pub fn validator_kinds(msg: &str) -> Vec<String> {
    let mut v = vec![];
    for n in quoted_after(msg, "variable '", "' wasn't defined") { v.push(format!("UndefinedVariable:{n}")); }
    for n in quoted_after(msg, "iterable '", "' wasn't defined") { v.push(format!("UndefinedIterable:{n}")); }
    for n in quoted_after(msg, "new can't be applied to a '", "' because it's an iterator") { v.push(format!("IteratorRestrictionNotAllowed:{n}")); }
    for n in quoted_after(msg, "multiple iterable values found for iterator name '", "'") { v.push(format!("MultipleIterableValuesForOneIterator:{n}")); }
    for n in quoted_after(msg, "multiple next instructions for iterator '", "' found for one fold") { v.push(format!("MultipleNextInFold:{n}")); }
    for _ in 0..msg.matches("error code 0 with fail is unsupported").count() { v.push("UnsupportedLiteralErrCodes:".into()); }
    for _ in 0..msg.matches("fold can not have instructions after next").count() { v.push("FoldHasInstructionAfterNext:".into()); }
    v.sort();
    v
}

fn lexer_kind(msg: &str) -> Option<&'static str> { LEXER_MSGS.iter().find(|(m, _)| msg.contains(m)).map(|(_, k)| *k) }
fn is_syntax_report(msg: &str) -> bool { msg.contains("expected ") || msg.contains("unexpected token") || msg.contains("extra token") }

fn model_validator_kinds(errors: &Value) -> Vec<String> {
    let mut v: Vec<String> = errors.as_array().map(|a| a.iter().map(|e| format!("{}:{}", e["kind"].as_str().unwrap_or("?"), e["name"].as_str().unwrap_or(""))).collect()).unwrap_or_default();
    v.sort();
    v
}

/// normalise floats: the model keeps the source text of a float, the implementation the parsed `f64`
fn canon_floats(v: &mut Value) {
    match v {
        Value::Object(o) => {
            if o.get("t").and_then(|t| t.as_str()) == Some("float") {
                if let Some(raw) = o.get("raw").and_then(|r| r.as_str()) {
                    let bits = raw.parse::<f64>().map(|f| f.to_bits().to_string()).unwrap_or_else(|_| format!("unparsable:{raw}"));
                    o.remove("raw"); o.insert("bits".into(), json!(bits));
                }
            }
            for (_, x) in o.iter_mut() { canon_floats(x); }
        }
        Value::Array(a) => for x in a.iter_mut() { canon_floats(x); },
        _ => {}
    }
}

// ------------------------------------------------------------------------------------------------

fn check_char_classes(ctx: &mut Ctx, rep: &mut Report) {
    // Rust's classes on: every code point below 0x3100, the borders of the true ranges, the borders of the model's tables
    let mut points: Vec<u32> = (0..0x3100u32).collect();
    let mut prev = (false, false, false);
    for c in 0..=0x10FFFFu32 {
        if let Some(ch) = char::from_u32(c) {
            let cur = (ch.is_whitespace(), ch.is_alphanumeric(), ch.is_numeric());
            if cur != prev { points.push(c.saturating_sub(1)); points.push(c); }
            prev = cur;
        }
    }
    points.retain(|c| char::from_u32(*c).is_some());
    points.sort(); points.dedup();
    let m = ctx.driver.ask(&json!({"op": "c23_char_class", "points": points}));
    let pts: Vec<u64> = m["points"].as_array().map(|a| a.iter().map(|x| x.as_u64().unwrap_or(0)).collect()).unwrap_or_default();
    let get = |k: &str| -> Vec<u8> { m[k].as_str().unwrap_or("").bytes().collect() };
    let (ws, alnum, num, air, lens) = (get("ws"), get("alnum"), get("num"), get("air_alnum"), get("lens"));
    if pts.is_empty() || ws.len() != pts.len() { rep.disagree(json!({"op": "c23_char_class", "request": "points", "model": m.to_string().chars().take(300).collect::<String>(), "implementation": "n/a"})); return; }
    let lens_extra = ['$', '@', '[', ']', '(', ')', ':', '?', '.', '*', ',', '"', '\''];
    let mut bad = vec![];
    for (i, p) in pts.iter().enumerate() {
        let ch = match char::from_u32(*p as u32) { Some(c) => c, None => continue };
        let air_r = ch.is_alphanumeric() || ch == '_' || ch == '-';
        let want = [ch.is_whitespace(), ch.is_alphanumeric(), ch.is_numeric(), air_r, air_r || lens_extra.contains(&ch)];
        let got = [ws[i] == b'1', alnum[i] == b'1', num[i] == b'1', air[i] == b'1', lens[i] == b'1'];
        if want != got && bad.len() < 5 { bad.push(json!({"code_point": p, "rust": want, "model": got})); }
    }
    rep.stat_n("char_class_points_compared", pts.len() as u64);
    rep.model_compared += 1;
    rep.case("char-classes", true, || json!({"char_class_points": pts.len()}));
    if !bad.is_empty() { rep.disagree(json!({"op": "c23_char_class", "request": "whitespace/alphanumeric/numeric/air-alphanumeric/lens-allowed on the borders of all ranges", "model": bad, "implementation": "core::char methods of the pinned toolchain"})); }
}

/// a known defect is listed once per key (every hit is counted in the statistics); anything else always
fn report_failure(rep: &mut Report, f: Value) {
    if let Some(k) = f.get("finding_key").and_then(|k| k.as_str()) {
        if rep.oracle_failures.iter().any(|o| o.get("finding_key").and_then(|x| x.as_str()) == Some(k)) { return; }
    }
    rep.oracle_fail(f);
}

fn brief(s: &str) -> String { if s.len() > 600 { let mut e = 600; while !s.is_char_boundary(e) { e -= 1; } format!("{}… ({} bytes)", &s[..e], s.len()) } else { s.to_string() } }

pub fn check_text(ctx: &mut Ctx, rep: &mut Report, category: &str, text: &str, expect_valid: Option<bool>) {
    let real = real_parse(text);
    let toks = real_tokens_safe(text);
    let ntok = toks.as_ref().map(|t| t.n).unwrap_or(0);
    let class = match &real { Real::Ok { .. } => "ok", Real::Err(_) => "err", Real::Panic(_) => "panic" };
    rep.stat(&format!("{category}/{class}"));
    rep.stat(&format!("real_{class}"));
    rep.case(text, ntok >= 3, || json!({"category": category, "text": brief(text), "real": class}));
    if let (Some(want), Real::Err(e)) = (expect_valid, &real) { if want { rep.stat("generator_valid_but_rejected"); if std::env::var("C23_DEBUG").is_ok() { println!("GEN-REJECTED [{category}] {text:?}\n{}\n{e}", validator_kinds(e).join(" ") + " " + lexer_kind(e).unwrap_or("")); } } }
    if let (Some(false), Real::Ok { .. }) = (expect_valid, &real) { rep.stat("injected_error_but_accepted"); }

    // ---- totality
    if let Real::Panic(p) = &real {
        // no text may panic: always a violation (the lens-lexer panic on non-ASCII field names was repaired in 5981066)
        rep.stat("panic/UNEXPLAINED");
        report_failure(rep, json!({"why": format!("air_parser::parse panicked: {p}"), "input": {"text": text}, "category": category}));
    }
    // ---- direct oracle on accepted scripts
    if let Real::Ok { ast, span_mismatch, vars } = &real {
        if let Some(m) = span_mismatch { rep.oracle_fail(json!({"why": format!("span recorded in the AST differs from the brackets of the instruction: {m}"), "input": {"text": text}})); }
        let fails = scope_check(ast, vars);
        let mut seen: Vec<String> = vec![];
        for f in fails {
            let tag = format!("{}|{}", f.finding_key.unwrap_or("-"), f.site);
            rep.stat(&format!("scope_violation/{}", f.finding_key.unwrap_or("UNEXPLAINED")));
            if seen.contains(&tag) { continue; }
            seen.push(tag);
            let mut j = json!({"why": f.why, "site": f.site, "input": {"text": text}, "category": category});
            if let Some(k) = f.finding_key { j["finding_key"] = json!(k); }
            report_failure(rep, j);
        }
    }
    // ---- correspondence: whole parse
    let m = ctx.driver.ask(&json!({"op": "c23_parse", "text": text}));
    rep.model_compared += 1;
    let mres = m["result"].as_str().unwrap_or("?").to_string();
    rep.stat(&format!("model_{}{}", mres, m["stage"].as_str().map(|s| format!("_{s}")).unwrap_or_default()));
    let mut disagree = |rep: &mut Report, what: &str, real_s: Value| rep.disagree(json!({"op": "c23_parse", "what": what, "request": {"text": text}, "model": m, "implementation": real_s, "category": category}));
    match (&real, mres.as_str()) {
        (Real::Ok { ast, vars, .. }, "ok") => {
            let mut ma = m["ast"].clone(); canon_floats(&mut ma);
            if &ma != ast { disagree(rep, "syntax tree / spans differ", ast.clone()); }
            else {
                let mv: Vec<(String, usize)> = m["vars"].as_array().map(|a| a.iter().map(|x| (x[0].as_str().unwrap_or("").to_string(), x[1].as_u64().unwrap_or(0) as usize)).collect()).unwrap_or_default();
                let mut rv = vars.clone(); rv.sort_by_key(|x| x.1);
                if mv != rv { disagree(rep, "variable token positions differ", json!(rv)); }
            }
        }
        (Real::Err(e), "err") => {
            match m["stage"].as_str().unwrap_or("") {
                "lexer" => {
                    let mk = m["kind"].as_str().unwrap_or("");
                    let ok = if mk.starts_with("LambdaParserError") { !is_syntax_report(e) && validator_kinds(e).is_empty() } else { lexer_kind(e) == Some(mk) || (mk.starts_with("ParseIntError") && lexer_kind(e).map(|k| k.starts_with("ParseIntError")).unwrap_or(false)) };
                    if !ok { disagree(rep, "lexer error kind differs", json!(brief(e))); }
                }
                "syntax" => { /* recovery and its report are not modelled: any Err is accepted */ rep.stat("syntax_error_cases"); }
                "validator" => {
                    let mk = model_validator_kinds(&m["errors"]);
                    let rk = validator_kinds(e);
                    for k in &mk { rep.stat(&format!("validator_error/{}", k.split(':').next().unwrap())); }
                    if mk != rk || is_syntax_report(e) { disagree(rep, "validator errors differ", json!({"kinds": rk, "report": brief(e)})); }
                }
                _ => disagree(rep, "unknown model stage", json!(brief(e))),
            }
        }
        (Real::Panic(_), "panic") => {}
        (Real::Err(_), "err_or_panic") | (Real::Panic(_), "err_or_panic") => { rep.unmodelled += 1; }
        (r, _) => { let rs = match r { Real::Ok { .. } => json!("ok"), Real::Err(e) => json!({"err": brief(e)}), Real::Panic(p) => json!({"panic": p}) }; disagree(rep, "outcome class differs", rs); }
    }
    // ---- correspondence: validator on the real syntax tree (also for scripts rejected by the validator)
    if !matches!(real, Real::Panic(_)) {
        if let Some(tree) = real_syntax_tree(text) {
            let mv = ctx.driver.ask(&json!({"op": "c23_validate", "ast": tree}));
            rep.model_compared += 1;
            rep.stat("validate_op_cases");
            let mk = model_validator_kinds(&mv["errors"]);
            let (rk, real_ok) = match &real { Real::Ok { .. } => (vec![], true), Real::Err(e) => (validator_kinds(e), false), Real::Panic(_) => (vec![], false) };
            if mv.get("errors").is_none() || mk != rk || (real_ok != mk.is_empty()) {
                rep.disagree(json!({"op": "c23_validate", "request": {"text": text, "ast": tree}, "model": mv, "implementation": {"accepted": real_ok, "kinds": rk}, "category": category}));
            }
        }
    }
}

pub fn run(ctx: &mut Ctx, rep: &mut Report) {
    rep.rule = "case = one text given to air_parser::parse (catch_unwind) and to the parser model; categories: valid generated scripts (two generators: executor-oriented and full-grammar), scoping errors injected at every variable position / iterator misuse / next misuse / kind confusion, token-level mutations, character-level mutations, non-ASCII in every token class, hand-written boundary texts, theorem witnesses; non-trivial = the real lexer yields at least 3 tokens; distinct by hash of the text".to_string();
    install_hook();
    silence_stderr();
    check_char_classes(ctx, rep);
    if let Some(path) = ctx.replay.clone() {
        // replay: the text of a violation file (direct oracle) or of a broken-correspondence file
        if let Ok(v) = std::fs::read_to_string(&path).map_err(|_| ()).and_then(|s| serde_json::from_str::<Value>(&s).map_err(|_| ())) {
            let mut texts: Vec<String> = vec![];
            if let Some(t) = v["failure"]["input"]["text"].as_str() { texts.push(t.to_string()); }
            if let Some(t) = v["input"]["text"].as_str() { texts.push(t.to_string()); }
            if let Some(a) = v["no_longer_checks"].as_array() {
                for b in a { if let Some(d) = b["detail"].as_str() { if let Ok(j) = serde_json::from_str::<Value>(d) { if let Some(t) = j["request"]["text"].as_str() { texts.push(t.to_string()); } } } }
            }
            for t in texts { check_text(ctx, rep, "replay", &t, None); }
        }
    }
    let mut rng = Rng::new(ctx.seed ^ 0xC23);
    let mut cases: BTreeMap<&'static str, u64> = BTreeMap::new();
    let budget_s: f64 = if ctx.thorough { 600.0 } else { 40.0 };
    let t0 = std::time::Instant::now();
    // fixed texts first (always all of them)
    for w in gen::witnesses() { check_text(ctx, rep, "witness", w, None); }
    for (cat, text) in gen::fixed_texts() { check_text(ctx, rep, cat, &text, None); *cases.entry(cat).or_insert(0) += 1; }
    let mut round = 0u64;
    while t0.elapsed().as_secs_f64() < budget_s {
        round += 1;
        let mut r = rng.fork();
        for (cat, text, expect) in gen::round(&mut r, ctx.thorough, round) {
            check_text(ctx, rep, cat, &text, expect);
            *cases.entry(cat).or_insert(0) += 1;
            if rep.disagreements.len() >= 20 { break; }
        }
        if rep.disagreements.len() >= 20 { break; }
        if !ctx.thorough && round >= 1000 { break; }
    }
    rep.stat_n("rounds", round);
}
