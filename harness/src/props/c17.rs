//! C17 — security tetraplets describe where each argument came from.
//!
//! Direct oracle: an independent *provenance walker* written from the property text.  It walks the script
//! (harness `script::Instr`) with its own tiny reference semantics — values of the deterministic service
//! oracle (`sim::service`), lens application, scalar folds, xor, ap, streams / canon streams / canon maps —
//! and keeps, for every name, the (peer, service, function) of the call that produced the value and the
//! lens applied so far.  For every call it predicts the executing peer, the argument values and, per
//! argument, the tetraplets the property promises.  The prediction is compared with what the REAL
//! interpreter hands to the hosts (`CallRequestParams.tetraplets`) in simulated multi-peer histories with
//! random schedules (values travel between peers and arrive via merged data).
//!
//! Correspondence: every run of every history is also shipped to the Lean driver (`exec` op); the model's
//! requests (arguments + tetraplets) are diffed with the real ones.
use crate::host::*;
use crate::props::execcorr::{compare_exec_projected, exec_request};
use crate::props::hist::{gen_history, peers_for, step_json};
use crate::script::{FailArg, Instr, NewVar, Out, Val};
use crate::sim::*;
use crate::util::*;
use crate::Ctx;
use serde_json::{json, Value};
use std::collections::HashMap;

// ------------------------------------------------------------------------------------------------
// provenance

#[derive(Clone, Debug, PartialEq, Eq)]
pub struct Prov { pub peer: String, pub svc: String, pub func: String, pub lens: String }

impl Prov {
    fn new(peer: &str, svc: &str, func: &str, lens: &str) -> Prov { Prov { peer: peer.into(), svc: svc.into(), func: func.into(), lens: lens.into() } }
    /// "the init peer with empty service and function"
    fn literal(init: &str) -> Prov { Prov::new(init, "", "", "") }
    /// "the exact lens applied": the lens text of the script appended to what was applied before
    fn with_lens(&self, l: &str) -> Prov { Prov { lens: format!("{}{}", self.lens, l), ..self.clone() } }
    /// the k-th element of an iterated array, the way the interpreter writes it (`.$.[k]` appended, also after a lens)
    fn elem(&self, k: usize) -> Prov { self.with_lens(&format!(".$.[{k}]")) }
    fn json(&self) -> Value { json!({"peer_pk": self.peer, "service_id": self.svc, "function_name": self.func, "lens": self.lens}) }
    fn from_json(v: &Value) -> Prov {
        Prov::new(v["peer_pk"].as_str().unwrap_or("?"), v["service_id"].as_str().unwrap_or("?"), v["function_name"].as_str().unwrap_or("?"), v["lens"].as_str().unwrap_or("?"))
    }
}

#[derive(Clone, Debug)]
struct Bound { val: Option<Value>, prov: Prov,
    /// bound by `ap` from `:error:` / `%last_error%` (the unchanged code keeps only the peer of such a value)
    err_copy: bool,
    /// bound by `ap` from a functor (`x.length`): the property is silent; the code erases the producer, and for a literal `x` also the lens
    functor_copy: bool }

/// what the property promises for one argument
#[derive(Clone, Debug)]
struct ArgExp {
    /// acceptable tetraplet lists (more than one where the property's wording leaves room)
    accept: Vec<Vec<Prov>>,
    /// a known deviating answer of the unchanged code and its finding key
    known: Option<(Vec<Prov>, &'static str)>,
    class: &'static str,
    text: String,
}

#[derive(Clone, Debug)]
struct Expected { peer: String, svc: String, func: String, args: Vec<Option<Value>>, exps: Vec<ArgExp>, matched: bool }

#[derive(Clone, Copy, Debug, PartialEq)]
enum Flow { Done, Raised, Blocked }

struct Frame { items: Vec<Bound>, k: usize, body: Instr, last: Option<Instr> }

struct Walker {
    init: String, peer_ids: Vec<String>, timestamp: u64, ttl: u32,
    scopes: Vec<HashMap<String, Option<Bound>>>,
    frames: HashMap<String, Frame>,
    streams: HashMap<String, Vec<Bound>>,
    canons: HashMap<String, (Vec<Bound>, String)>,
    maps: HashMap<String, Vec<(Value, Bound)>>,
    canon_maps: HashMap<String, (Vec<(Value, Bound)>, String)>,
    /// producer of `:error:` (`None` inside: no producer recorded → literal); outer `None`: no error
    error: Option<Option<Prov>>,
    last_error: Option<Option<Prov>>,
    last_error_can_set: bool,
    /// `:error:` cannot be set (it was set and no xor has re-enabled it since; `par` swallows errors without re-enabling it)
    error_frozen: bool,
    expected: Vec<Expected>,
    blocked: usize,
    steps: usize,
}

const FUNCTOR_LENS: &str = ".length";

fn lens_tokens(lens: &str) -> Option<Vec<String>> {
    let body = lens.strip_prefix(".$.")?;
    Some(body.split('.').map(|s| s.to_string()).collect())
}

impl Walker {
    fn new(init: &str, peer_ids: &[String], timestamp: u64, ttl: u32) -> Walker {
        Walker { init: init.into(), peer_ids: peer_ids.to_vec(), timestamp, ttl, scopes: vec![HashMap::new()], frames: HashMap::new(), streams: HashMap::new(),
                 canons: HashMap::new(), maps: HashMap::new(), canon_maps: HashMap::new(), error: None, last_error: None, last_error_can_set: true, error_frozen: false,
                 expected: vec![], blocked: 0, steps: 0 }
    }
    fn lit(&self) -> Prov { Prov::literal(&self.init) }
    fn lookup(&self, n: &str) -> Option<Bound> {
        for s in self.scopes.iter().rev() { if let Some(b) = s.get(n) { return b.clone(); } }
        None
    }
    fn bind(&mut self, n: &str, b: Bound) { self.scopes.last_mut().unwrap().insert(n.to_string(), Some(b)); }

    /// apply a path lens to a JSON value (reference semantics of `.$.a.[0].[name]`)
    fn apply(&self, v: &Value, lens: &str) -> Option<Value> {
        let mut cur = v.clone();
        for t in lens_tokens(lens)? {
            if let Some(inner) = t.strip_prefix('[').and_then(|x| x.strip_suffix(']')) {
                if let Ok(i) = inner.parse::<usize>() { cur = cur.as_array()?.get(i)?.clone(); }
                else {
                    let acc = self.lookup(inner)?.val?;
                    match acc { Value::Number(n) => { cur = cur.as_array()?.get(n.as_u64()? as usize)?.clone(); }
                                Value::String(s) => { cur = cur.as_object()?.get(&s)?.clone(); }
                                _ => return None }
                }
            } else { cur = cur.as_object()?.get(&t)?.clone(); }
        }
        Some(cur)
    }

    fn err_exp(&self, which: &Option<Option<Prov>>, lens: &Option<String>, text: String) -> ArgExp {
        let base = match which { Some(Some(p)) => p.clone(), _ => self.lit() };
        match lens {
            None => ArgExp { accept: vec![vec![base]], known: None, class: "error", text },
            Some(l) if l == FUNCTOR_LENS => ArgExp { accept: vec![vec![base.clone()], vec![Prov::new("", "", "", FUNCTOR_LENS)]], known: None, class: "functor", text },
            // property text: producer of the error value + the exact lens; the unchanged code leaves the lens out
            Some(l) => ArgExp { accept: vec![vec![base.with_lens(l)]], known: Some((vec![base], "error-lens-not-in-tetraplet")), class: "error_lens", text },
        }
    }

    /// value and expectation of one argument; `Err(Blocked)` = a name is not bound yet, `Err(Raised)` = a lens fails
    fn resolve(&self, a: &Val) -> Result<(Option<Value>, ArgExp), Flow> {
        let text = a.text();
        let one = |v: Option<Value>, p: Prov, class: &'static str| Ok((v, ArgExp { accept: vec![vec![p]], known: None, class, text: text.clone() }));
        match a {
            Val::Lit(s) => one(Some(json!(s)), self.lit(), "literal"),
            Val::Num(n) => one(Some(json!(n)), self.lit(), "literal"),
            Val::Bool(b) => one(Some(json!(b)), self.lit(), "literal"),
            Val::EmptyArr => one(Some(json!([])), self.lit(), "literal"),
            Val::InitPeer => one(Some(json!(self.init)), self.lit(), "builtin"),
            Val::Timestamp => one(Some(json!(self.timestamp)), self.lit(), "builtin"),
            Val::Ttl => one(Some(json!(self.ttl)), self.lit(), "builtin"),
            Val::Scalar(n) => {
                let b = self.lookup(n).ok_or(Flow::Blocked)?;
                let class = if self.frames.contains_key(n) { "iterator" } else { "scalar" };
                if b.err_copy && !(b.prov.svc.is_empty() && b.prov.func.is_empty()) {
                    // `(ap :error: e)`: the property says `e` denotes what `:error:` denotes; the unchanged code keeps the peer only
                    return Ok((b.val.clone(), ArgExp { accept: vec![vec![b.prov.clone()]], known: Some((vec![Prov::new(&b.prov.peer, "", "", "")], "ap-error-drops-service-function")), class: "scalar_error_copy", text }));
                }
                if b.functor_copy { return Ok((b.val.clone(), ArgExp { accept: vec![vec![b.prov.clone()], vec![Prov::new("", "", "", "")]], known: None, class: "functor", text })); }
                one(b.val.clone(), b.prov, class)
            }
            Val::ScalarLens(n, l) => {
                let b = self.lookup(n).ok_or(Flow::Blocked)?;
                if l == FUNCTOR_LENS {
                    let len = b.val.as_ref().and_then(|v| v.as_array().map(|a| a.len())).ok_or(Flow::Raised)?;
                    // the property is silent about functors; documented behaviour of the code: everything about the producer is erased
                    return one(Some(json!(len)), Prov::new("", "", "", FUNCTOR_LENS), "functor");
                }
                let v = match &b.val { Some(v) => Some(self.apply(v, l).ok_or(Flow::Raised)?), None => None };
                let class = if l.contains('[') && lens_tokens(l).map(|t| t.iter().any(|x| x.starts_with('[') && x[1..x.len() - 1].parse::<usize>().is_err())).unwrap_or(false) { "lens_scalar_accessor" }
                            else if self.frames.contains_key(n) { "iterator_lens" } else { "lens" };
                one(v, b.prov.with_lens(l), class)
            }
            Val::Canon(n) => {
                let (els, _) = self.canons.get(n).ok_or(Flow::Blocked)?;
                let v: Option<Vec<Value>> = els.iter().map(|e| e.val.clone()).collect();
                Ok((v.map(Value::Array), ArgExp { accept: vec![els.iter().map(|e| e.prov.clone()).collect()], known: None, class: "canon", text }))
            }
            Val::CanonLens(n, l) => {
                let (els, peer) = self.canons.get(n).ok_or(Flow::Blocked)?;
                if l == FUNCTOR_LENS {
                    // not covered by the property; the code's answer is recorded in the statistics only
                    return Ok((Some(json!(els.len())), ArgExp { accept: vec![], known: None, class: "functor_canon", text }));
                }
                let toks = lens_tokens(l).ok_or(Flow::Raised)?;
                let idx: usize = toks[0].strip_prefix('[').and_then(|x| x.strip_suffix(']')).and_then(|x| x.parse().ok()).ok_or(Flow::Raised)?;
                let e = els.get(idx).ok_or(Flow::Raised)?;
                let _ = peer;
                if toks.len() == 1 {
                    return Ok((e.val.clone(), ArgExp { accept: vec![vec![e.prov.clone()], vec![e.prov.with_lens(l)]], known: None, class: "canon_elem", text }));
                }
                let rest = toks[1..].join(".");
                let v = match &e.val { Some(v) => Some(self.apply(v, &format!(".$.{rest}")).ok_or(Flow::Raised)?), None => None };
                // the element's producer, with a lens that says which part of the element is handed over
                let accept = vec![vec![e.prov.with_lens(l)], vec![e.prov.with_lens(&format!(".$.{rest}"))], vec![e.prov.with_lens(&format!(".{rest}"))]];
                Ok((v, ArgExp { accept, known: Some((vec![e.prov.clone()], "canon-stream-lens-dropped")), class: "canon_elem_lens", text }))
            }
            Val::CanonMap(n) => {
                let (pairs, _) = self.canon_maps.get(n).ok_or(Flow::Blocked)?;
                Ok((None, ArgExp { accept: vec![pairs.iter().map(|(_, b)| b.prov.clone()).collect()], known: None, class: "canon_map", text }))
            }
            Val::CanonMapLens(n, l) => {
                let (pairs, peer) = self.canon_maps.get(n).ok_or(Flow::Blocked)?;
                let toks = lens_tokens(l).ok_or(Flow::Raised)?;
                let key = toks[0].clone();
                let under: Vec<&Bound> = pairs.iter().filter(|(k, _)| match k { Value::String(s) => *s == key, Value::Number(x) => x.to_string() == key || format!("[{}]", x) == key, _ => false }).map(|(_, b)| b).collect();
                if toks.len() == 1 {
                    // an array assembled by the canonicalising peer: either every element's producer, or that peer with the lens
                    let per_elem: Vec<Prov> = under.iter().map(|b| b.prov.clone()).collect();
                    return Ok((None, ArgExp { accept: vec![per_elem, vec![Prov::new(peer, "", "", l)]], known: None, class: "canon_map_key", text }));
                }
                let idx: usize = toks[1].strip_prefix('[').and_then(|x| x.strip_suffix(']')).and_then(|x| x.parse().ok()).ok_or(Flow::Raised)?;
                let e = under.get(idx).ok_or(Flow::Raised)?;
                if toks.len() == 2 { return Ok((e.val.clone(), ArgExp { accept: vec![vec![e.prov.clone()], vec![e.prov.with_lens(l)]], known: None, class: "canon_map_elem", text })); }
                let rest = toks[2..].join(".");
                let v = match &e.val { Some(v) => Some(self.apply(v, &format!(".$.{rest}")).ok_or(Flow::Raised)?), None => None };
                let accept = vec![vec![e.prov.with_lens(l)], vec![e.prov.with_lens(&format!(".$.{rest}"))], vec![e.prov.with_lens(&format!(".{rest}"))]];
                Ok((v, ArgExp { accept, known: None, class: "canon_map_elem_lens", text }))
            }
            Val::Error(l) => { Ok((None, self.err_exp(&self.error, l, text))) }
            Val::LastError(l) => { Ok((None, self.err_exp(&self.last_error, l, text))) }
        }
    }

    fn str_of(&self, v: &Val) -> Result<String, Flow> {
        let (val, _) = self.resolve(v)?;
        match val { Some(Value::String(s)) => Ok(s), _ => Err(Flow::Raised) }
    }

    fn raise(&mut self, prov: Option<Prov>, affects_last: bool) -> Flow {
        // `:error:` is set once and then frozen until an xor re-enables it
        if !self.error_frozen { self.error = Some(prov.clone()); self.error_frozen = true; }
        if affects_last && self.last_error_can_set { self.last_error = Some(prov); self.last_error_can_set = false; }
        Flow::Raised
    }

    fn single(exp: &ArgExp) -> Prov { exp.accept[0][0].clone() }

    fn walk(&mut self, i: &Instr) -> Flow {
        self.steps += 1;
        if self.steps > 5000 { return Flow::Blocked; }
        match i {
            Instr::Null => Flow::Done,
            Instr::Never => Flow::Blocked,
            Instr::Seq(l, r) => { match self.walk(l) { Flow::Done => self.walk(r), f => f } }
            Instr::Par(l, r) => {
                let a = self.walk(l); let b = self.walk(r);
                // a par with a surviving branch re-enables %last_error% (but not `:error:`)
                if a != Flow::Raised || b != Flow::Raised { self.last_error_can_set = true; }
                if a == Flow::Raised && b == Flow::Raised { Flow::Raised } else if a == Flow::Blocked || b == Flow::Blocked { Flow::Blocked } else { Flow::Done }
            }
            Instr::Xor(l, r) => {
                match self.walk(l) {
                    Flow::Raised => {
                        self.last_error_can_set = true; self.error_frozen = false;
                        let f = self.walk(r);
                        if !self.error_frozen { self.error = None; }
                        if f == Flow::Done { self.error_frozen = false; }
                        f
                    }
                    f => f,
                }
            }
            Instr::Match(a, b, body) | Instr::Mismatch(a, b, body) => {
                let want_eq = matches!(i, Instr::Match(..));
                let (va, vb) = match (self.resolve(a), self.resolve(b)) { (Ok(x), Ok(y)) => (x.0, y.0), (Err(f), _) | (_, Err(f)) => { return if f == Flow::Raised { self.raise(None, true) } else { f } } };
                let (va, vb) = match (va, vb) { (Some(x), Some(y)) => (x, y), _ => return Flow::Blocked };
                if (va == vb) == want_eq { self.walk(body) } else { self.raise(None, false) }
            }
            Instr::Call { peer, svc, func, args, out } => {
                let p = match self.str_of(peer) { Ok(s) => s, Err(Flow::Blocked) => { self.blocked += 1; return Flow::Blocked; } Err(_) => return self.raise(None, true) };
                let (s, f) = match (self.str_of(svc), self.str_of(func)) { (Ok(s), Ok(f)) => (s, f), _ => return self.raise(None, true) };
                let me = Prov::new(&p, &s, &f, "");
                let mut vals = vec![]; let mut exps = vec![];
                for a in args {
                    match self.resolve(a) {
                        Ok((v, e)) => { vals.push(v); exps.push(e); }
                        Err(Flow::Blocked) => { self.blocked += 1; return Flow::Blocked; }
                        // an argument that fails to resolve fails the call; the error is attributed to the call's own triplet
                        Err(_) => return self.raise(Some(me), true),
                    }
                }
                self.expected.push(Expected { peer: p.clone(), svc: s.clone(), func: f.clone(), args: vals.clone(), exps, matched: false });
                let known: Option<Vec<Value>> = vals.iter().cloned().collect();
                let res = match known { Some(a) => Some(service(&self.peer_ids, &p, &s, &f, &a)), None => None };
                match res {
                    Some(r) if r.ret_code != 0 => self.raise(Some(me), true),
                    Some(r) => {
                        let v: Option<Value> = serde_json::from_str(&r.result).ok();
                        if v.is_none() { return self.raise(Some(me), true); }
                        match out { Out::Scalar(n) => self.bind(n, Bound { val: v, prov: me, err_copy: false, functor_copy: false }), Out::Stream(n) => self.streams.entry(n.clone()).or_default().push(Bound { val: v, prov: me, err_copy: false, functor_copy: false }), Out::None => {} }
                        Flow::Done
                    }
                    // arguments whose value the walker does not model (error objects, maps): the result is unknown too
                    None => { match out { Out::Scalar(n) => self.bind(n, Bound { val: None, prov: me, err_copy: false, functor_copy: false }), Out::Stream(n) => self.streams.entry(n.clone()).or_default().push(Bound { val: None, prov: me, err_copy: false, functor_copy: false }), Out::None => {} } Flow::Done }
                }
            }
            Instr::Ap { arg, out } => {
                if let Val::Canon(n) = arg {
                    // the whole canon stream bound to a name: an array assembled by the canonicalising peer
                    let (els, peer) = match self.canons.get(n) { Some(x) => x.clone(), None => return Flow::Blocked };
                    let v: Option<Vec<Value>> = els.iter().map(|e| e.val.clone()).collect();
                    let b = Bound { val: v.map(Value::Array), prov: Prov::new(&peer, "", "", ""), err_copy: false, functor_copy: false };
                    match out { Out::Scalar(x) => self.bind(x, b), Out::Stream(x) => self.streams.entry(x.clone()).or_default().push(b), Out::None => {} }
                    return Flow::Done;
                }
                match self.resolve(arg) {
                    Ok((v, e)) => {
                        let err_copy = e.class == "error" || e.class == "error_lens";
                        let functor_copy = e.class == "functor";
                        let prov = if e.accept.is_empty() || e.accept[0].len() != 1 { return Flow::Blocked } else { Self::single(&e) };
                        match out { Out::Scalar(n) => self.bind(n, Bound { val: v, prov, err_copy, functor_copy }), Out::Stream(n) => self.streams.entry(n.clone()).or_default().push(Bound { val: v, prov, err_copy, functor_copy }), Out::None => {} }
                        Flow::Done
                    }
                    Err(Flow::Blocked) => { self.blocked += 1; Flow::Blocked }
                    Err(_) => self.raise(None, true),
                }
            }
            Instr::ApMap { key, val, map } => {
                let k = match self.resolve(key) { Ok((Some(k), _)) => k, _ => return Flow::Blocked };
                match self.resolve(val) {
                    Ok((v, e)) => { if e.accept.is_empty() || e.accept[0].len() != 1 { return Flow::Blocked; } let prov = Self::single(&e); let err_copy = e.class == "error" || e.class == "error_lens"; let functor_copy = e.class == "functor"; self.maps.entry(map.clone()).or_default().push((k, Bound { val: v, prov, err_copy, functor_copy })); Flow::Done }
                    Err(Flow::Blocked) => Flow::Blocked,
                    Err(_) => self.raise(None, true),
                }
            }
            Instr::Canon { peer, stream, canon } => {
                let p = match self.str_of(peer) { Ok(s) => s, Err(f) => return f };
                let els = self.streams.get(stream).cloned().unwrap_or_default();
                self.canons.insert(canon.clone(), (els, p));
                Flow::Done
            }
            Instr::CanonMap { peer, map, canon } => {
                let p = match self.str_of(peer) { Ok(s) => s, Err(f) => return f };
                let pairs = self.maps.get(map).cloned().unwrap_or_default();
                self.canon_maps.insert(canon.clone(), (pairs, p));
                Flow::Done
            }
            Instr::FoldScalar { iterable, iter, body, last } => {
                let items: Vec<Bound> = match iterable {
                    Val::Canon(n) => match self.canons.get(n) { Some((els, _)) => els.clone(), None => return Flow::Blocked },
                    Val::EmptyArr => vec![],
                    _ => {
                        let (v, e) = match self.resolve(iterable) { Ok(x) => x, Err(Flow::Blocked) => { self.blocked += 1; return Flow::Blocked; } Err(_) => return self.raise(None, true) };
                        let base = Self::single(&e);
                        match v { Some(Value::Array(a)) => a.iter().enumerate().map(|(k, x)| Bound { val: Some(x.clone()), prov: base.elem(k), err_copy: false, functor_copy: false }).collect(),
                                  Some(_) => return self.raise(None, true), None => return Flow::Blocked }
                    }
                };
                if items.is_empty() { return Flow::Done; }
                self.scopes.push(HashMap::new());
                let first = items[0].clone();
                self.frames.insert(iter.clone(), Frame { items, k: 0, body: (**body).clone(), last: last.as_ref().map(|l| (**l).clone()) });
                self.bind(iter, first);
                let f = self.walk(body);
                self.frames.remove(iter);
                self.scopes.pop();
                f
            }
            Instr::Next(name) => {
                let (next, body, last) = match self.frames.get(name) { Some(fr) => (if fr.k + 1 < fr.items.len() { Some(fr.items[fr.k + 1].clone()) } else { None }, fr.body.clone(), fr.last.clone()), None => return Flow::Blocked };
                match next {
                    Some(b) => {
                        self.frames.get_mut(name).unwrap().k += 1;
                        self.scopes.push(HashMap::new());
                        self.bind(name, b);
                        let f = self.walk(&body);
                        self.scopes.pop();
                        self.frames.get_mut(name).unwrap().k -= 1;
                        f
                    }
                    None => match last { Some(l) => self.walk(&l), None => Flow::Done },
                }
            }
            Instr::New(v, body) => {
                match v {
                    NewVar::Scalar(n) => { self.scopes.push(HashMap::new()); self.scopes.last_mut().unwrap().insert(n.clone(), None); let f = self.walk(body); self.scopes.pop(); f }
                    _ => self.walk(body),
                }
            }
            Instr::Fail(FailArg::Lit(..)) => { let l = self.lit(); if !self.error_frozen { self.error = Some(Some(l.clone())); self.error_frozen = true; } self.last_error = Some(Some(l)); self.last_error_can_set = false; Flow::Raised }
            Instr::Fail(_) => Flow::Blocked,
            Instr::CanonMapScalar { .. } | Instr::FoldStream { .. } | Instr::FoldMap { .. } => Flow::Blocked,
        }
    }
}

// ------------------------------------------------------------------------------------------------
// scenario generator: straight-line blocks generated while a walker tracks the concrete values, so that
// lenses are picked by walking into the actual JSON values

struct G<'a> { rng: &'a mut Rng, peers: Vec<String>, w: Walker, counter: usize, names: Vec<String>, thorough: bool }

fn lit(s: &str) -> Val { Val::Lit(s.to_string()) }
fn seq_all(mut v: Vec<Instr>) -> Instr {
    let mut acc = match v.pop() { Some(i) => i, None => return Instr::Null };
    while let Some(i) = v.pop() { acc = Instr::Seq(Box::new(i), Box::new(acc)); }
    acc
}

impl<'a> G<'a> {
    fn fresh(&mut self, p: &str) -> String { self.counter += 1; format!("{p}{}", self.counter) }
    fn peer(&mut self) -> String { self.rng.pick(&self.peers).clone() }

    fn target(&mut self) -> Val {
        // literal peer id, %init_peer_id%, or a variable that holds a peer id
        let mut opts: Vec<Val> = vec![];
        for n in &self.names {
            if let Some(b) = self.w.lookup(n) {
                match &b.val {
                    Some(Value::String(s)) if self.peers.contains(s) => opts.push(Val::Scalar(n.clone())),
                    Some(Value::Object(o)) => { if o.get("peer").and_then(|p| p.as_str()).map(|p| self.peers.iter().any(|q| q == p)).unwrap_or(false) { opts.push(Val::ScalarLens(n.clone(), ".$.peer".into())); } }
                    _ => {}
                }
            }
        }
        let r = self.rng.below(10);
        if r < 6 || opts.is_empty() { if r == 5 { Val::InitPeer } else { lit(&self.peer()) } } else { opts[self.rng.below(opts.len())].clone() }
    }

    /// a random valid path lens into `v` (None when `v` has no children)
    fn random_lens(&mut self, v: &Value) -> Option<String> {
        let mut toks: Vec<String> = vec![];
        let mut cur = v.clone();
        loop {
            let next: Option<(String, Value)> = match &cur {
                Value::Array(a) if !a.is_empty() => {
                    let i = self.rng.below(a.len());
                    // scalar-supplied accessor when some scalar holds this index
                    let mut tok = format!("[{i}]");
                    if self.rng.chance(1, 2) { for n in &self.names { if let Some(Bound { val: Some(Value::Number(x)), .. }) = self.w.lookup(n) { if x.as_u64() == Some(i as u64) && !self.w.frames.contains_key(n) { tok = format!("[{n}]"); break; } } } }
                    Some((tok, a[i].clone()))
                }
                Value::Object(o) if !o.is_empty() => {
                    let keys: Vec<&String> = o.keys().collect();
                    let k = keys[self.rng.below(keys.len())].clone();
                    let mut tok = k.clone();
                    if self.rng.chance(1, 3) { for n in &self.names { if let Some(Bound { val: Some(Value::String(x)), .. }) = self.w.lookup(n) { if x == k && !self.w.frames.contains_key(n) { tok = format!("[{n}]"); break; } } } }
                    Some((tok, o[&k].clone()))
                }
                _ => None,
            };
            match next { Some((t, v2)) => { toks.push(t); cur = v2; if self.rng.chance(2, 5) { break; } } None => break }
        }
        if toks.is_empty() { None } else { Some(format!(".$.{}", toks.join("."))) }
    }

    fn arg(&mut self) -> Val {
        let r = self.rng.below(14);
        if r < 9 && !self.names.is_empty() {
            let n = self.rng.pick(&self.names).clone();
            if let Some(b) = self.w.lookup(&n) {
                if let Some(v) = &b.val {
                    let v = v.clone();
                    if self.rng.chance(1, 2) { if let Some(l) = self.random_lens(&v) {
                        // a lens on a fold iterator must fit every element
                        let fits_all = match self.w.frames.get(&n) { Some(fr) => fr.items.iter().all(|e| e.val.as_ref().map(|x| self.w.apply(x, &l).is_some()).unwrap_or(false)), None => true };
                        if fits_all { return Val::ScalarLens(n, l); } } }
                    if v.is_array() && self.rng.chance(1, 8) { return Val::ScalarLens(n, FUNCTOR_LENS.into()); }
                }
                return Val::Scalar(n);
            }
        }
        match r % 7 { 0 => lit(&format!("lit{}", self.rng.below(3))), 1 => Val::Num(self.rng.range(-2, 5)), 2 => Val::Bool(self.rng.chance(1, 2)), 3 => Val::EmptyArr, 4 => Val::InitPeer,
                      5 => if self.rng.chance(1, 2) { Val::Ttl } else { Val::Timestamp }, _ => lit("x") }
    }

    fn args(&mut self, min: usize, max: usize) -> Vec<Val> {
        let n = min + self.rng.below(max - min + 1);
        let mut v: Vec<Val> = (0..n).map(|_| self.arg()).collect();
        // the same variable twice in one argument list
        if v.len() >= 2 && self.rng.chance(1, 3) { let d = v[0].clone(); let i = 1 + self.rng.below(v.len() - 1); v[i] = d; }
        v
    }

    /// emit one instruction and let the walker see it
    fn emit(&mut self, i: Instr, defines: Option<String>) -> Instr { self.w.walk(&i); if let Some(n) = defines { if self.w.lookup(&n).is_some() { self.names.push(n); } } i }

    fn producer(&mut self) -> Instr {
        let kind = *self.rng.pick(&["obj", "obj", "arr", "peers", "peer", "str", "num", "obj"]);
        let peer = self.target();
        let a = self.args(0, 2);
        let n = self.fresh("v");
        let f = self.fresh(&format!("{kind}_"));
        self.emit(Instr::Call { peer, svc: lit("svc"), func: lit(&f), args: a, out: Out::Scalar(n.clone()) }, Some(n))
    }

    fn consumer(&mut self) -> Instr {
        let peer = self.target();
        let a = self.args(1, 4);
        let f = self.fresh("echo_");
        if self.rng.chance(1, 2) { let n = self.fresh("v"); self.emit(Instr::Call { peer, svc: lit("svc"), func: lit(&f), args: a, out: Out::Scalar(n.clone()) }, Some(n)) }
        else { self.emit(Instr::Call { peer, svc: lit("svc"), func: lit(&f), args: a, out: Out::None }, None) }
    }

    fn ap(&mut self) -> Instr {
        let a = self.arg();
        let n = self.fresh("v");
        self.emit(Instr::Ap { arg: a, out: Out::Scalar(n.clone()) }, Some(n))
    }

    /// candidates to iterate over: (iterable expression, length)
    fn iterables(&mut self) -> Vec<(Val, usize)> {
        let mut out = vec![];
        for n in self.names.clone() {
            if let Some(Bound { val: Some(v), .. }) = self.w.lookup(&n) {
                // (a fold iterator is a source too: `(fold xs g (fold g.$.members m …))` builds the inner elements' tetraplets in
                //  `create_scalar_wl_iterable`'s iterator branch; the whole iterator as an iterable is left out)
                if self.w.frames.contains_key(&n) && !matches!(&v, Value::Object(_)) { continue; }
                match &v {
                    Value::Array(a) if !a.is_empty() => out.push((Val::Scalar(n.clone()), a.len())),
                    Value::Object(o) => { for (k, x) in o { if let Value::Array(a) = x { if !a.is_empty() { out.push((Val::ScalarLens(n.clone(), format!(".$.{k}")), a.len())); } }
                                                            if let Value::Object(o2) = x { for (k2, x2) in o2 { if let Value::Array(a) = x2 { if !a.is_empty() { out.push((Val::ScalarLens(n.clone(), format!(".$.{k}.{k2}")), a.len())); } } } } } }
                    _ => {}
                }
            }
        }
        out
    }

    fn fold(&mut self, depth: usize) -> Instr {
        let its = self.iterables();
        if its.is_empty() { return self.producer(); }
        let (iterable, _) = its[self.rng.below(its.len())].clone();
        let it = self.fresh("i");
        // body: calls that take the iterator (and other things); generated against the first element, run for all
        let saved_names = self.names.clone();
        let mut body: Vec<Instr> = vec![];
        // open the fold in the generator's walker by walking a probe fold whose body is empty: instead, bind the iterator by hand
        let items = { let mut probe = Walker::new(&self.w.init, &self.w.peer_ids, self.w.timestamp, self.w.ttl); probe.scopes = self.w.scopes.clone(); probe.frames = HashMap::new();
                      match probe.resolve(&iterable) { Ok((Some(Value::Array(a)), e)) => { let base = Walker::single(&e); a.iter().enumerate().map(|(k, x)| Bound { val: Some(x.clone()), prov: base.elem(k), err_copy: false, functor_copy: false }).collect::<Vec<_>>() } _ => vec![] } };
        if items.is_empty() { return self.producer(); }
        self.w.scopes.push(HashMap::new());
        self.w.frames.insert(it.clone(), Frame { items: items.clone(), k: 0, body: Instr::Null, last: None });
        self.w.bind(&it, items[0].clone());
        self.names.push(it.clone());
        let n_stmts = 1 + self.rng.below(2);
        for _ in 0..n_stmts {
            let peer = if self.rng.chance(1, 3) && items.iter().all(|b| matches!(&b.val, Some(Value::String(s)) if self.peers.contains(s))) { Val::Scalar(it.clone()) } else { self.target() };
            let mut a = self.args(0, 2);
            let pos = self.rng.below(a.len() + 1);
            a.insert(pos, Val::Scalar(it.clone()));
            let f = self.fresh("echo_");
            let out = if self.rng.chance(1, 3) { let n = self.fresh("v"); Out::Scalar(n) } else { Out::None };
            let defines = if let Out::Scalar(n) = &out { Some(n.clone()) } else { None };
            let c = Instr::Call { peer, svc: lit("svc"), func: lit(&f), args: a, out };
            body.push(self.emit(c, defines));
        }
        if depth == 0 && self.rng.chance(1, 3) { body.push(self.fold(depth + 1)); }
        // close the generator's scope
        self.w.frames.remove(&it);
        self.w.scopes.pop();
        self.names = saved_names;
        let x = seq_all(body);
        let next = Instr::Next(it.clone());
        let b = match self.rng.below(4) { 0 => Instr::Par(Box::new(x), Box::new(next)), 1 => Instr::Seq(Box::new(next), Box::new(x)), _ => Instr::Seq(Box::new(x), Box::new(next)) };
        Instr::FoldScalar { iterable, iter: it, body: Box::new(b), last: None }
    }

    fn xor_block(&mut self) -> Instr {
        let p = self.peer();
        let f = self.fresh("fail_");
        let a = self.args(0, 1);
        let failing = self.emit(Instr::Call { peer: lit(&p), svc: lit("svc"), func: lit(&f), args: a, out: Out::None }, None);
        // the handler runs where the call failed
        self.w.last_error_can_set = true; self.w.error_frozen = false;
        let mut eargs: Vec<Val> = vec![];
        let menu = [Val::Error(None), Val::LastError(None), Val::Error(Some(".$.message".into())), Val::LastError(Some(".$.error_code".into())), Val::Error(Some(".$.error_code".into())), Val::LastError(Some(".$.message".into()))];
        for _ in 0..(1 + self.rng.below(3)) { eargs.push(self.rng.pick(&menu).clone()); }
        if self.rng.chance(1, 2) { let x = self.arg(); eargs.push(x); }
        let q = self.target();
        let h = self.fresh("echo_");
        let handler = self.emit(Instr::Call { peer: q, svc: lit("svc"), func: lit(&h), args: eargs, out: Out::None }, None);
        let mut hs = vec![handler];
        if self.rng.chance(1, 2) {
            // bind the error value with ap and hand it on
            let n = self.fresh("v");
            let src = if self.rng.chance(1, 2) { Val::Error(None) } else { Val::LastError(None) };
            hs.push(self.emit(Instr::Ap { arg: src, out: Out::Scalar(n.clone()) }, None));
            let q2 = self.target();
            let h2 = self.fresh("echo_");
            hs.push(self.emit(Instr::Call { peer: q2, svc: lit("svc"), func: lit(&h2), args: vec![Val::Scalar(n)], out: Out::None }, None));
        }
        self.w.error = None; self.w.error_frozen = false;
        let x = Instr::Xor(Box::new(failing), Box::new(seq_all(hs)));
        if self.rng.chance(1, 2) {
            let q3 = self.target(); let h3 = self.fresh("echo_");
            let after = self.emit(Instr::Call { peer: q3, svc: lit("svc"), func: lit(&h3), args: vec![Val::LastError(None), Val::LastError(Some(".$.message".into()))], out: Out::None }, None);
            Instr::Seq(Box::new(x), Box::new(after))
        } else { x }
    }

    fn canon_block(&mut self) -> Instr {
        let s = self.fresh("$s"); let c = self.fresh("#cs");
        let mut v = vec![];
        let n = 2 + self.rng.below(3);
        for _ in 0..n {
            if self.rng.chance(1, 3) { let p = self.target(); let f = self.fresh("obj_"); v.push(self.emit(Instr::Call { peer: p, svc: lit("svc"), func: lit(&f), args: vec![], out: Out::Stream(s.clone()) }, None)); }
            else { let a = self.arg(); let a = if matches!(a, Val::ScalarLens(_, ref l) if l == FUNCTOR_LENS) { lit("x") } else { a }; v.push(self.emit(Instr::Ap { arg: a, out: Out::Stream(s.clone()) }, None)); }
        }
        let q = lit(&self.peer());
        v.push(self.emit(Instr::Canon { peer: q, stream: s.clone(), canon: c.clone() }, None));
        // users: whole stream, elements, element lenses, length, fold
        let els = self.w.canons.get(&c).map(|x| x.0.clone()).unwrap_or_default();
        let mut a = vec![Val::Canon(c.clone())];
        // (lenses into canon streams are not executed by the Lean model yet: half of the blocks do without them)
        let with_lens = self.rng.chance(1, 2);
        for _ in 0..(if with_lens { 1 + self.rng.below(3) } else { 0 }) {
            let i = self.rng.below(els.len().max(1));
            let mut l = format!(".$.[{i}]");
            if let Some(Bound { val: Some(x), .. }) = els.get(i) { let x = x.clone(); if self.rng.chance(1, 2) { if let Some(sub) = self.random_lens(&x) { l = format!("{l}.{}", &sub[3..]); } } }
            a.push(Val::CanonLens(c.clone(), l));
        }
        if with_lens && self.rng.chance(1, 3) { a.push(Val::CanonLens(c.clone(), FUNCTOR_LENS.into())); }
        if !with_lens && self.rng.chance(1, 2) { let x = self.arg(); a.push(x); }
        let p = self.target(); let f = self.fresh("echo_");
        v.push(self.emit(Instr::Call { peer: p, svc: lit("svc"), func: lit(&f), args: a, out: Out::None }, None));
        if self.rng.chance(1, 2) {
            let it = self.fresh("i"); let p = lit(&self.peer()); let f = self.fresh("echo_");
            let mut fa = vec![Val::Scalar(it.clone()), lit("e")];
            // a lens on the iterator that every element supports
            if let Some(Bound { val: Some(x0), .. }) = els.first() { let x0 = x0.clone(); if let Some(l) = self.random_lens(&x0) {
                if !l.contains("[v") && !l.contains("[i") && els.iter().all(|e| e.val.as_ref().map(|x| self.w.apply(x, &l).is_some()).unwrap_or(false)) { fa.push(Val::ScalarLens(it.clone(), l)); } } }
            let body = Instr::Seq(Box::new(Instr::Call { peer: p, svc: lit("svc"), func: lit(&f), args: fa, out: Out::None }), Box::new(Instr::Next(it.clone())));
            v.push(self.emit(Instr::FoldScalar { iterable: Val::Canon(c.clone()), iter: it, body: Box::new(body), last: None }, None));
        }
        if self.rng.chance(1, 2) {
            // the whole canon stream echoed into a scalar: an array of the element values that later folds can iterate
            let p = self.target(); let f = self.fresh("echo_"); let y = self.fresh("v");
            v.push(self.emit(Instr::Call { peer: p, svc: lit("svc"), func: lit(&f), args: vec![Val::Canon(c.clone())], out: Out::Scalar(y.clone()) }, Some(y)));
        }
        seq_all(v)
    }

    fn map_block(&mut self) -> Instr {
        let m = self.fresh("%m"); let c = self.fresh("#%cm");
        let mut v = vec![];
        let keys = ["k1", "k2", "k1"];
        let n = 2 + self.rng.below(2);
        for j in 0..n {
            let a = self.arg(); let a = if matches!(a, Val::ScalarLens(_, ref l) if l == FUNCTOR_LENS) { lit("x") } else { a };
            v.push(self.emit(Instr::ApMap { key: lit(keys[j % 3]), val: a, map: m.clone() }, None));
        }
        let q = lit(&self.peer());
        v.push(self.emit(Instr::CanonMap { peer: q, map: m.clone(), canon: c.clone() }, None));
        let mut a = vec![Val::CanonMap(c.clone()), Val::CanonMapLens(c.clone(), ".$.k1".into()), Val::CanonMapLens(c.clone(), ".$.k1.[0]".into())];
        if n >= 2 { a.push(Val::CanonMapLens(c.clone(), ".$.k2.[0]".into())); }
        // a lens into an element of the map
        let pairs = self.w.canon_maps.get(&c).map(|x| x.0.clone()).unwrap_or_default();
        for key in ["k1", "k2"] {
            if let Some((_, Bound { val: Some(x), .. })) = pairs.iter().find(|(k, _)| k == &json!(key)) { let x = x.clone(); if let Some(sub) = self.random_lens(&x) { a.push(Val::CanonMapLens(c.clone(), format!(".$.{key}.[0].{}", &sub[3..]))); } }
        }
        self.rng.shuffle(&mut a);
        let p = self.target(); let f = self.fresh("echo_");
        v.push(self.emit(Instr::Call { peer: p, svc: lit("svc"), func: lit(&f), args: a, out: Out::None }, None));
        seq_all(v)
    }

    fn scenario(&mut self, streams: bool) -> Instr {
        let mut v = vec![self.producer()];
        let n = if self.thorough { 5 + self.rng.below(8) } else { 3 + self.rng.below(6) };
        for _ in 0..n {
            let r = self.rng.below(100);
            let i = if r < 22 { self.producer() } else if r < 50 { self.consumer() } else if r < 62 { self.ap() } else if r < 78 { self.fold(0) } else if r < 88 { self.xor_block() }
                    else if streams && r < 95 { self.canon_block() } else if streams { self.map_block() } else { self.consumer() };
            v.push(i);
        }
        // independent producers in parallel, then a consumer of both
        if self.rng.chance(1, 3) {
            let a = self.producer(); let b = self.producer();
            let c = self.consumer();
            v.push(Instr::Seq(Box::new(Instr::Par(Box::new(a), Box::new(b))), Box::new(c)));
        }
        seq_all(v)
    }
}

// ------------------------------------------------------------------------------------------------
// fixed scenarios (every run): one per requirement of the property's quantifier

fn fixed_scenarios(ids: &[String]) -> Vec<(&'static str, String)> {
    let (a, b, c) = (&ids[0], &ids[1], &ids[2]);
    vec![
        ("local", format!(r#"(seq (call "{a}" ("svc" "obj_1") [] x) (call "{a}" ("svc" "echo_2") [x x.$.arr x.$.nested.a.[1] "lit" 7 true [] %init_peer_id% %timestamp% %ttl% x]))"#)),
        ("travel", format!(r#"(seq (call "{a}" ("svc" "obj_1") [] x) (seq (call "{b}" ("svc" "echo_2") [x.$.peers x] y) (seq (call "{c}" ("svc" "echo_3") [x y y.$.[0] x.$.s]) (call "{a}" ("svc" "echo_4") [y x.$.arr.[2]]))))"#)),
        ("ap", format!(r#"(seq (call "{a}" ("svc" "obj_1") [] x) (seq (ap "lit" l) (seq (ap x s) (seq (ap x.$.arr.[1] e) (seq (ap %init_peer_id% ip) (seq (ap 5 five) (call "{b}" ("svc" "echo_2") [l s e ip five s.$.n e])))))))"#)),
        ("fold", format!(r#"(seq (call "{a}" ("svc" "peers_1") [] ps) (fold ps i (seq (call "{b}" ("svc" "echo_2") [i "t" i]) (next i))))"#)),
        ("fold_lens_nested", format!(r#"(seq (call "{a}" ("svc" "obj_1") [] x) (fold x.$.peers i (seq (fold x.$.nested.a j (seq (call "{c}" ("svc" "echo_2") [i j x.$.idx]) (next j))) (next i))))"#)),
        ("fold_par_peer", format!(r#"(seq (call "{a}" ("svc" "peers_1") ["k"] ps) (fold ps i (par (call i ("svc" "echo_2") [i ps]) (next i))))"#)),
        ("scalar_accessor", format!(r#"(seq (call "{a}" ("svc" "obj_1") [] x) (seq (ap x.$.idx k) (seq (ap "arr" f) (call "{b}" ("svc" "echo_2") [x.$.arr.[k] x.$.[f] x.$.[f].[k] x.$.arr.[0]]))))"#)),
        ("functor", format!(r#"(seq (call "{a}" ("svc" "obj_1") [] x) (seq (ap x.$.arr r) (call "{b}" ("svc" "echo_2") [r.length r])))"#)),
        ("error", format!(r#"(xor (call "{a}" ("svc" "fail_1") ["q"] u) (seq (call "{b}" ("svc" "echo_2") [:error: %last_error% "z"]) (call "{c}" ("svc" "echo_3") [%last_error%])))"#)),
        ("error_lens", format!(r#"(xor (call "{a}" ("svc" "fail_1") [] u) (call "{b}" ("svc" "echo_2") [:error:.$.message %last_error%.$.error_code]))"#)),
        ("error_ap", format!(r#"(xor (call "{a}" ("svc" "fail_1") [] u) (seq (ap :error: e) (call "{b}" ("svc" "echo_2") [e])))"#)),
        ("error_literal", format!(r#"(xor (fail 7 "stop") (call "{b}" ("svc" "echo_2") [:error: %last_error%]))"#)),
        ("canon", format!(r#"(seq (call "{a}" ("svc" "obj_1") [] x) (seq (ap x $s) (seq (call "{b}" ("svc" "str_2") [] $s) (seq (ap x.$.arr $s) (seq (ap "lit" $s) (seq (canon "{c}" $s #cs) (seq (call "{a}" ("svc" "echo_3") [#cs #cs.$.[0] #cs.$.[1] #cs.$.[2] #cs.$.[3]]) (fold #cs i (seq (call "{b}" ("svc" "echo_4") [i]) (next i))))))))))"#)),
        ("canon_whole", format!(r#"(seq (call "{a}" ("svc" "obj_1") [] x) (seq (ap x $s) (seq (call "{b}" ("svc" "str_2") [] $s) (seq (ap x.$.arr $s) (seq (ap "lit" $s) (seq (canon "{c}" $s #cs) (seq (call "{a}" ("svc" "echo_3") [#cs x #cs]) (seq (fold #cs i (seq (call "{b}" ("svc" "echo_4") [i "e"]) (next i))) (seq (ap #cs whole) (call "{b}" ("svc" "echo_5") [whole]))))))))))"#)),
        ("canon_lens", format!(r#"(seq (call "{a}" ("svc" "obj_1") [] x) (seq (ap x $s) (seq (canon "{b}" $s #cs) (call "{c}" ("svc" "echo_2") [#cs.$.[0].arr #cs.$.[0]]))))"#)),
        ("canon_map", format!(r#"(seq (call "{a}" ("svc" "obj_1") [] x) (seq (ap ("k1" x) %m) (seq (ap ("k2" "lit") %m) (seq (ap ("k1" x.$.s) %m) (seq (ap ("k3" x.$.nested) %m) (seq (canon "{b}" %m #%cm) (call "{c}" ("svc" "echo_2") [#%cm #%cm.$.k1 #%cm.$.k1.[0] #%cm.$.k2.[0] #%cm.$.k1.[1] #%cm.$.k3.[0].a #%cm.$.k1.[0].arr.[1]])))))))"#)),
        ("nested_fold_iterator_lens", format!(r#"(seq (call "{a}" ("svc" "obj_1") [] x) (seq (ap x $s) (seq (call "{b}" ("svc" "obj_2") [] $s) (seq (canon "{b}" $s #cs) (seq (call "{c}" ("svc" "echo_3") [#cs] y) (fold y g (seq (fold g.$.arr m (seq (call "{a}" ("svc" "echo_4") [m g.$.s]) (next m))) (seq (fold g.$.nested.a n (seq (call "{b}" ("svc" "echo_5") [n]) (next n))) (next g)))))))))"#)),
        ("iterator_lens", format!(r#"(seq (call "{a}" ("svc" "obj_1") [] x) (seq (ap x $s) (seq (call "{b}" ("svc" "obj_2") [] $s) (seq (canon "{b}" $s #cs) (seq (call "{c}" ("svc" "echo_3") [#cs] y) (seq (fold y i (seq (call "{a}" ("svc" "echo_4") [i.$.arr i.$.nested.a.[0] i i.$.arr.[1]]) (next i))) (fold #cs j (seq (call "{b}" ("svc" "echo_5") [j.$.s j j.$.peers.[0]]) (next j)))))))))"#)),
        ("twice", format!(r#"(seq (call "{a}" ("svc" "obj_1") [] x) (call "{b}" ("svc" "echo_2") [x x x.$.n x.$.n x]))"#)),
    ]
}

// ------------------------------------------------------------------------------------------------

fn tets_of(v: &Value) -> Vec<Vec<Prov>> { v.as_array().map(|a| a.iter().map(|l| l.as_array().map(|x| x.iter().map(Prov::from_json).collect()).unwrap_or_default()).collect()).unwrap_or_default() }

/// parse AIR text into the harness AST through the real parser's JSON (only for fixed scenarios we keep the text)
fn check_history(net: &Net, expected: &mut Vec<Expected>, air: &str, label: &str, rep: &mut Report) {
    let peer_name = |id: &str| net.index_of(id).map(|i| net.peers[i].peer.name.clone()).unwrap_or_else(|| id.to_string());
    for (pi, p) in net.peers.iter().enumerate() {
        for inv in &p.invocations {
            let me = &net.peer_ids[pi];
            // the prediction for this invocation: same function, same known argument values, not matched yet
            // (several iterations of a fold can issue the same call with the same values: prefer the prediction that fits)
            let actual_t = tets_of(&inv.tetraplets);
            let fits = |e: &Expected| !e.matched && e.func == inv.function_name && e.svc == inv.service_id && e.args.len() == inv.args.len()
                && e.args.iter().zip(inv.args.iter()).all(|(x, y)| x.as_ref().map(|x| x == y).unwrap_or(true));
            let exact = |e: &Expected| &e.peer == me && actual_t.len() == e.exps.len() && actual_t.iter().zip(e.exps.iter()).all(|(a, x)| x.accept.is_empty() || x.accept.iter().any(|l| l == a));
            let idx = expected.iter().position(|e| fits(e) && exact(e)).or_else(|| expected.iter().position(|e| fits(e) && &e.peer == me)).or_else(|| expected.iter().position(|e| fits(e)));
            let cand = idx.map(|i| &mut expected[i]);
            let e = match cand {
                Some(e) => e,
                None => {
                    rep.oracle_fail(json!({"why": format!("the interpreter issued call {} on peer {} with arguments {} that the reference walk of the script does not predict", inv.function_name, p.peer.name, Value::Array(inv.args.clone())),
                        "input": {"air": air, "scenario": label, "particle": net.particle, "peers": net.peers.iter().map(|p| p.peer.name.clone()).collect::<Vec<_>>()}}));
                    continue;
                }
            };
            e.matched = true;
            let canonical = format!("{air}|{}|{}", inv.function_name, serde_json::to_string(&inv.args).unwrap_or_default());
            let nontrivial = e.exps.iter().any(|x| x.class != "literal" && x.class != "builtin");
            rep.case(&canonical, nontrivial, || json!({"air": air, "function": inv.function_name, "peer": p.peer.name, "tetraplets": inv.tetraplets}));
            if &e.peer != me {
                rep.oracle_fail(json!({"why": format!("call {} executed on {} but addressed to {}", inv.function_name, p.peer.name, peer_name(&e.peer)), "input": {"air": air, "scenario": label}}));
            }
            let actual = tets_of(&inv.tetraplets);
            if actual.len() != inv.args.len() || actual.len() != e.exps.len() {
                rep.oracle_fail(json!({"why": format!("call {}: {} arguments but {} tetraplet lists", inv.function_name, inv.args.len(), actual.len()), "input": {"air": air, "scenario": label}}));
                continue;
            }
            for (k, (act, exp)) in actual.iter().zip(e.exps.iter()).enumerate() {
                rep.stat(&format!("arg_{}", exp.class));
                if exp.accept.is_empty() {
                    // outside the property's wording: record what the code does
                    rep.stat(&format!("uncovered_{}:{}", exp.class, act.iter().map(|t| format!("({},{},{},{})", if t.peer == *me { "CURRENT" } else if t.peer.is_empty() { "" } else { "OTHER" }, t.svc, t.func, t.lens)).collect::<Vec<_>>().join("")));
                    continue;
                }
                if exp.accept.iter().any(|a| a == act) { if act.iter().any(|t| t.peer != *me && !t.svc.is_empty()) { rep.stat("arg_produced_on_another_peer"); } continue; }
                let render = |ts: &Vec<Prov>| Value::Array(ts.iter().map(|t| { let mut j = t.json(); j["peer_pk"] = json!(peer_name(&t.peer)); j }).collect());
                let mut f = json!({"why": format!("argument {k} (`{}`) of call {} on peer {}: tetraplets {} but the property promises {}", exp.text, inv.function_name, p.peer.name, render(act),
                                                   Value::Array(exp.accept.iter().map(|a| render(a)).collect())),
                    "class": exp.class,
                    "input": {"air": air, "scenario": label, "particle": net.particle, "init_peer": net.peers[net.init].peer.name, "peers": net.peers.iter().map(|p| p.peer.name.clone()).collect::<Vec<_>>(),
                              "replay": "run the script on the listed peers (keys = sha256(\"aqua-verif-peer:\"+name)), service oracle = harness sim::service; inspect CallRequestParams.tetraplets of the named call"}});
                if let Some((k_act, key)) = &exp.known { if k_act == act { f["finding_key"] = json!(key); } }
                rep.stat(&format!("fail:{}:{}", exp.class, f.get("finding_key").and_then(|k| k.as_str()).unwrap_or("UNEXPLAINED")));
                // a known deviation is reported a few times, not once per occurrence
                let key = f.get("finding_key").and_then(|k| k.as_str()).map(|k| format!("reported:{k}"));
                match key { Some(k) => { if rep.stats.get(&k).cloned().unwrap_or(0) < 2 { rep.stat(&k); rep.oracle_fail(f); } else { rep.stat("known_finding_occurrences_not_listed"); } } None => rep.oracle_fail(f) }
            }
        }
    }
    let unmatched = expected.iter().filter(|e| !e.matched).count();
    rep.stat_n("predicted_calls_not_executed_in_history", unmatched as u64);
}

fn correspond(ctx: &mut Ctx, rep: &mut Report, net: &Net, air: &str) {
    let ast = match air_parser::parse(air) { Ok(a) => serde_json::to_value(&a).unwrap(), Err(_) => { rep.stat("script_does_not_parse"); return; } };
    for st in &net.log {
        if st.outcome.ret_code == PANIC_CODE { continue; }
        let req = exec_request(net, st, &ast);
        let m = ctx.driver.ask(&req);
        if let Some(u) = m.get("unmodelled") { rep.unmodelled += 1; rep.stat(&format!("unmodelled:{}", u.as_str().unwrap_or("?").chars().take(40).collect::<String>())); continue; }
        rep.model_compared += 1;
        if m.get("panic").is_some() { rep.disagree(json!({"op": "exec", "why": "model panics, implementation does not", "model": m, "air": air, "step": step_json(net, st)})); continue; }
        let n_req = decode_requests(&st.outcome.call_requests).map(|r| r.len()).unwrap_or(0);
        rep.stat_n("requests_compared_with_model", n_req as u64);
        if let Some(why) = compare_exec_projected(&m, net, st, &["code", "requests"]) {
            rep.disagree(json!({"op": "exec", "why": why, "air": air, "step": step_json(net, st), "model_code": m["code"], "model_msg": m["msg"]}));
        }
    }
}

fn run_one(ctx: &mut Ctx, rep: &mut Report, label: &str, script: Option<&Instr>, air: &str, n_peers: usize, sched_seed: u64, schedules: usize) {
    let peers = peers_for(n_peers);
    let ids: Vec<String> = peers.iter().map(|p| p.id.clone()).collect();
    for s in 0..schedules {
        let mut net = Net::new(air, &peers, &format!("c17-{label}-{sched_seed:x}-{s}"));
        let mut r = Rng::new(sched_seed.wrapping_add(s as u64));
        net.run_random(&mut r, 80);
        for st in &net.log { if st.outcome.ret_code == PANIC_CODE { rep.oracle_fail(json!({"why": format!("interpreter panicked: {}", st.outcome.error_message), "input": step_json(&net, st)})); } }
        if !net.quiescent() { rep.stat("histories_cut_at_step_budget"); }
        rep.stat_n("runs", net.log.len() as u64);
        if let Some(script) = script {
            let mut w = Walker::new(&ids[0], &ids, net.timestamp, net.ttl);
            let flow = w.walk(script);
            rep.stat(&format!("walk_{:?}", flow));
            let mut expected = w.expected;
            check_history(&net, &mut expected, air, label, rep);
        }
        correspond(ctx, rep, &net, air);
    }
}

/// AIR text → harness AST, through the real parser's JSON AST (so that fixed scenarios can be written as text)
fn instr_of_ast(v: &Value) -> Option<Instr> {
    fn val(v: &Value) -> Option<Val> {
        if let Some(s) = v.as_str() { return match s { "InitPeerId" => Some(Val::InitPeer), "Timestamp" => Some(Val::Timestamp), "TTL" => Some(Val::Ttl), "EmptyArray" => Some(Val::EmptyArr), _ => None }; }
        let o = v.as_object()?; let (k, x) = o.iter().next()?;
        let lens_text = |l: &Value| -> Option<String> {
            if l.is_null() { return None; }
            if let Some(f) = l.get("Functor") { let _ = f; return Some(".length".into()); }
            let accs = l.get("ValuePath")?.as_array()?;
            let toks: Vec<String> = accs.iter().map(|a| { let (ak, av) = a.as_object().unwrap().iter().next().unwrap();
                match ak.as_str() { "ArrayAccess" => format!("[{}]", av["idx"]), "FieldAccessByName" => av["field_name"].as_str().unwrap_or("").to_string(), _ => format!("[{}]", av["scalar_name"].as_str().unwrap_or("")) } }).collect();
            Some(format!(".$.{}", toks.join(".")))
        };
        match k.as_str() {
            "Literal" => Some(Val::Lit(x.as_str()?.to_string())),
            "Number" => x.get("Int").and_then(|n| n.as_i64()).map(Val::Num),
            "Boolean" => x.as_bool().map(Val::Bool),
            "LastError" => Some(Val::LastError(lens_text(x))),
            "Error" => Some(Val::Error(lens_text(&x["lens"]))),
            "Variable" | "Scalar" | "CanonStream" | "CanonStreamMap" | "VariableWithLambda" | "ScalarWithLambda" | "CanonStreamWithLambda" | "CanonStreamMapWithLambda" => {
                let (inner_k, inner) = if k == "Variable" || k == "VariableWithLambda" { let (a, b) = x.as_object()?.iter().next()?; (a.clone(), b.clone()) } else { (k.clone(), x.clone()) };
                let name = inner["name"].as_str()?.to_string();
                let l = inner.get("lambda").and_then(|l| lens_text(l));
                Some(match (inner_k.as_str(), l) {
                    ("Scalar", None) => Val::Scalar(name), ("Scalar", Some(l)) | ("ScalarWithLambda", Some(l)) => Val::ScalarLens(name, l),
                    ("CanonStream", None) => Val::Canon(name), ("CanonStream", Some(l)) | ("CanonStreamWithLambda", Some(l)) => Val::CanonLens(name, l),
                    ("CanonStreamMap", None) => Val::CanonMap(name), ("CanonStreamMap", Some(l)) | ("CanonStreamMapWithLambda", Some(l)) => Val::CanonMapLens(name, l),
                    _ => return None })
            }
            _ => None,
        }
    }
    let o = v.as_object()?; let (k, x) = o.iter().next()?;
    let sub = |y: &Value| instr_of_ast(y).map(Box::new);
    match k.as_str() {
        "Call" => {
            let t = &x["triplet"];
            let out = match &x["output"] { Value::String(_) => Out::None, o => { let (ok, ov) = o.as_object()?.iter().next()?; if ok == "Scalar" { Out::Scalar(ov["name"].as_str()?.into()) } else { Out::Stream(ov["name"].as_str()?.into()) } } };
            let args: Option<Vec<Val>> = x["args"].as_array()?.iter().map(val).collect();
            Some(Instr::Call { peer: val(&t["peer_id"])?, svc: val(&t["service_id"])?, func: val(&t["function_name"])?, args: args?, out })
        }
        "Seq" => Some(Instr::Seq(sub(&x[0])?, sub(&x[1])?)),
        "Par" => Some(Instr::Par(sub(&x[0])?, sub(&x[1])?)),
        "Xor" => Some(Instr::Xor(sub(&x[0])?, sub(&x[1])?)),
        "Ap" => { let (rk, rv) = x["result"].as_object()?.iter().next()?; let name: String = rv["name"].as_str()?.into();
                  Some(Instr::Ap { arg: val(&x["argument"])?, out: if rk == "Scalar" { Out::Scalar(name) } else { Out::Stream(name) } }) }
        "ApMap" => { let key = match &x["key"] { kv => { let (kk, kx) = kv.as_object()?.iter().next()?; match kk.as_str() { "Literal" => Val::Lit(kx.as_str()?.into()), "Int" => Val::Num(kx.as_i64()?), _ => return None } } };
                     Some(Instr::ApMap { key, val: val(&x["value"])?, map: x["map"]["name"].as_str()?.into() }) }
        "Canon" => Some(Instr::Canon { peer: val(&x["peer_id"])?, stream: x["stream"]["name"].as_str()?.into(), canon: x["canon_stream"]["name"].as_str()?.into() }),
        "CanonMap" => Some(Instr::CanonMap { peer: val(&x["peer_id"])?, map: x["stream_map"]["name"].as_str()?.into(), canon: x["canon_stream_map"]["name"].as_str()?.into() }),
        "FoldScalar" => { let it = &x["iterable"]; let (ik, iv) = it.as_object()?.iter().next()?;
                          let iterable = val(&json!({ik.as_str(): iv}))?;
                          Some(Instr::FoldScalar { iterable, iter: x["iterator"]["name"].as_str()?.into(), body: sub(&x["instruction"])?, last: None }) }
        "Next" => Some(Instr::Next(x["iterator"]["name"].as_str()?.into())),
        "Fail" => { let (fk, fv) = x.as_object()?.iter().next()?; if fk == "Literal" { Some(Instr::Fail(FailArg::Lit(fv["ret_code"].as_i64()?, fv["error_message"].as_str()?.into()))) } else { None } }
        "Null" => Some(Instr::Null),
        _ => None,
    }
}


/// Values arriving via merged data are bound with the tetraplet of the CURRENT instruction and this must agree
/// with the tetraplet recorded with the value (`verify_call`): a peer that runs a script whose producing call
/// names another service / function / peer / argument list than the one recorded must refuse the data.
fn script_swap(ctx: &mut Ctx, rep: &mut Report) {
    let peers = peers_for(3);
    let ids: Vec<String> = peers.iter().map(|p| p.id.clone()).collect();
    let (a, b) = (&ids[0], &ids[1]);
    let s1 = format!(r#"(seq (call "{a}" ("svc" "obj_1") ["k"] x) (call "{b}" ("svc" "echo_2") [x x.$.s]))"#);
    let variants = [
        ("function", format!(r#"(seq (call "{a}" ("svc" "obj_9") ["k"] x) (call "{b}" ("svc" "echo_2") [x x.$.s]))"#)),
        ("service", format!(r#"(seq (call "{a}" ("other" "obj_1") ["k"] x) (call "{b}" ("svc" "echo_2") [x x.$.s]))"#)),
        ("peer", format!(r#"(seq (call "{}" ("svc" "obj_1") ["k"] x) (call "{b}" ("svc" "echo_2") [x x.$.s]))"#, ids[2])),
        ("arguments", format!(r#"(seq (call "{a}" ("svc" "obj_1") ["other"] x) (call "{b}" ("svc" "echo_2") [x x.$.s]))"#)),
    ];
    let mut net = Net::new(&s1, &peers, "c17-swap");
    let mut r = Rng::new(ctx.seed ^ 0x5A17);
    net.run_random(&mut r, 40);
    let d = net.peers[0].prev.clone();
    let mismatch = crate::gen_codes::uncatchable("InstructionParametersMismatch");
    for (what, s2) in variants.iter() {
        let mut net2 = Net::new(s2, &peers, "c17-swap");
        net2.run_peer(1, &d, air_interpreter_interface::CallResults::new(), format!("swap:{what}"));
        let st = net2.log.last().unwrap().clone();
        let reqs = decode_requests(&st.outcome.call_requests).unwrap_or_default();
        rep.case(&format!("swap|{what}"), true, || json!({"scenario": "script swap", "changed": what, "code": st.outcome.ret_code}));
        rep.stat(&format!("swap_{what}_code_{}", st.outcome.ret_code));
        if st.outcome.ret_code != mismatch || !reqs.is_empty() {
            rep.oracle_fail(json!({"why": format!("data holding a value produced by (a, svc, obj_1, args [\"k\"]) was accepted by a script whose producing call differs in its {what}: return code {} ({} call requests) instead of InstructionParametersMismatch ({mismatch}); requests: {}",
                    st.outcome.ret_code, reqs.len(), Value::Array(reqs.values().map(|r| decode_tetraplets(r)).collect())),
                "input": {"air_producer": s1, "air_consumer": s2, "step": step_json(&net2, &st)}}));
        }
        correspond(ctx, rep, &net2, s2);
    }
}

pub fn run(ctx: &mut Ctx, rep: &mut Report) {
    rep.rule = "case = one call request handed to a host in a simulated multi-peer history (3-5 peers, random schedule with duplicates) of a generated script; scripts are straight-line blocks \
        (producer calls, echo consumers with 1-5 arguments, ap from literal/scalar/lens, scalar folds incl. nested and par, xor with a failing service and handlers that use :error:/%last_error%, canon streams, canon maps), \
        lenses are random valid paths into the actual result values (index / field / scalar-supplied accessors), call targets are literals, %init_peer_id% or peer-valued variables; \
        oracle = independent provenance walker over the script (property text) predicting executing peer, argument values and per-argument tetraplets, compared with CallRequestParams.tetraplets of the real interpreter; \
        every run of every history is also executed by the Lean model (`exec` op) and requests (service, function, arguments, tetraplets) are diffed; \
        non-trivial = the request has an argument that is not a literal or built-in; distinct by hash of (script, function, argument values)".into();
    let mut rng = Rng::new(ctx.seed ^ 0xC17);
    let thorough = ctx.thorough;
    // 1. fixed scenarios
    let ids3: Vec<String> = peers_for(3).iter().map(|p| p.id.clone()).collect();
    for (label, air) in fixed_scenarios(&ids3) {
        let script = air_parser::parse(&air).ok().and_then(|a| instr_of_ast(&serde_json::to_value(&a).unwrap()));
        match &script { Some(s) => { rep.stat("fixed_scenarios"); run_one(ctx, rep, &format!("fixed:{label}"), Some(s), &air, 3, rng.next(), if thorough { 12 } else { 4 }); }
                        None => { rep.disagree(json!({"op": "c17-scenario", "why": format!("fixed scenario {label} does not parse / convert"), "air": air})); } }
    }
    script_swap(ctx, rep);
    // 2. generated scenarios
    let n = if thorough { 9000 } else { 500 };
    for k in 0..n {
        let n_peers = 3 + rng.below(3);
        let peers = peers_for(n_peers);
        let ids: Vec<String> = peers.iter().map(|p| p.id.clone()).collect();
        let streams = k % 3 == 2;
        let script = {
            let mut r2 = rng.fork();
            let w = Walker::new(&ids[0], &ids, 1_700_000_000_000, 120_000);
            let mut g = G { rng: &mut r2, peers: ids.clone(), w, counter: 0, names: vec![], thorough };
            g.scenario(streams)
        };
        let air = script.text();
        for kind in script.kinds() { rep.stat(&format!("instr_{kind}")); }
        run_one(ctx, rep, if streams { "generated+streams" } else { "generated" }, Some(&script), &air, n_peers, rng.next(), if thorough { 2 } else { 1 });
    }
    // 3. generic random scripts of the history generator: model correspondence on requests only
    let n = if thorough { 2500 } else { 120 };
    for _ in 0..n {
        let budget = 6 + rng.below(10);
        let h = gen_history(&mut rng, false, false, budget, 50);
        rep.stat("generic_histories");
        for st in &h.net.log { if let Some(r) = decode_requests(&st.outcome.call_requests) { for (_, p) in r { rep.case(&format!("{}|{}|{}", h.air, p.function_name, hex(&p.arguments)), false, || Value::Null); } } }
        correspond(ctx, rep, &h.net, &h.air);
    }
}
