//! C08 — order/grouping independence: the data produced along a simulated history are merged at an observer in
//! different orders and groupings; the merged knowledge (result content ids as multisets; whole traces modulo
//! senders for stream-free scripts) must not depend on the order.
use crate::facts::*;
use crate::host::*;
use crate::props::hist::*;
use crate::util::*;
use crate::Ctx;
use air_interpreter_interface::CallResults;
use serde_json::json;

fn merge_in_order(air: &str, net: &crate::sim::Net, observer: &Peer, datas: &[Vec<u8>], order: &[usize]) -> Result<Vec<u8>, String> {
    let mut prev: Vec<u8> = vec![];
    for &i in order {
        let o = crate::host::run(&RunArgs { air, prev: &prev, cur: &datas[i], init_peer_id: &net.peer_ids[net.init], peer: observer, particle_id: &net.particle,
                               timestamp: net.timestamp, ttl: net.ttl, results: &CallResults::new(), limits: Limits::unlimited() });
        if (1..=9999).contains(&o.ret_code) || (20000..=29999).contains(&o.ret_code) { return Err(format!("code {} ({}): {}", o.ret_code, crate::gen_codes::name_of(o.ret_code), o.error_message.chars().take(160).collect::<String>())); }
        prev = o.data;
    }
    Ok(prev)
}

fn senderless(t: &[St]) -> Vec<St> { t.iter().map(|s| match s { St::Sent(_, _) => St::Sent(String::new(), None), St::CanonSent(_) => St::CanonSent(String::new()), x => x.clone() }).collect() }

fn permutations(n: usize) -> Vec<Vec<usize>> {
    fn go(cur: &mut Vec<usize>, used: &mut Vec<bool>, n: usize, out: &mut Vec<Vec<usize>>) {
        if cur.len() == n { out.push(cur.clone()); return; }
        for i in 0..n { if !used[i] { used[i] = true; cur.push(i); go(cur, used, n, out); cur.pop(); used[i] = false; } }
    }
    let mut out = vec![]; go(&mut vec![], &mut vec![false; n], n, &mut out); out
}

/// all permutations of up to 4 data of one history merged at a fresh observer: same results (and same trace modulo senders without streams)
fn check_orders(rep: &mut Report, rng: &mut Rng, observer: &Peer, air: &str, net: &crate::sim::Net, uses_streams: bool) {
    let mut datas: Vec<Vec<u8>> = vec![];
    for st in &net.log { if st.outcome.ret_code == 0 && !st.outcome.data.is_empty() && !datas.contains(&st.outcome.data) { datas.push(st.outcome.data.clone()); } }
    if datas.len() < 2 { return; }
    // pick up to 4 data (the last ones carry most knowledge)
    let k = datas.len().min(2 + rng.below(3));
    let mut chosen: Vec<Vec<u8>> = vec![];
    while chosen.len() < k { let d = datas[rng.below(datas.len())].clone(); if !chosen.contains(&d) { chosen.push(d); } }
    let perms = permutations(k);
    let mut reference: Option<(Vec<usize>, Facts)> = None;
    for order in &perms {
        rep.case(&format!("{}|{:?}|{:?}", air, chosen.iter().map(|d| fnv(&hex(d))).collect::<Vec<_>>(), order), true,
                 || json!({"air": air, "data_lens": chosen.iter().map(|d| d.len()).collect::<Vec<_>>(), "order": order}));
        match merge_in_order(air, net, observer, &chosen, order) {
            Err(e) => { rep.oracle_fail(json!({"why": format!("merging honest data of one particle in order {order:?} fails: {e}"), "air": air, "order": order, "data_hex": chosen.iter().map(|d| hex(d)).collect::<Vec<_>>(),
                "finding_key": if e.contains("is incompatible with expected") && e.contains("`Call(RequestSentBy(") { Some("stale-request-state-consumed-by-another-instruction") } else { None } })); break; }
            Ok(d) => {
                let f = match facts(&d) { Some(f) => f, None => { rep.oracle_fail(json!({"why": "merged data does not decode", "air": air})); break; } };
                if let Some((o0, f0)) = &reference {
                    if f0.result_cids() != f.result_cids() {
                        rep.oracle_fail(json!({"why": format!("orders {o0:?} and {order:?} yield different sets of results"), "air": air, "data_hex": chosen.iter().map(|d| hex(d)).collect::<Vec<_>>()})); break;
                    }
                    if !uses_streams && senderless(&f0.trace) != senderless(&f.trace) {
                        rep.oracle_fail(json!({"why": format!("stream-free script: orders {o0:?} and {order:?} yield different traces (beyond senders)"), "air": air, "data_hex": chosen.iter().map(|d| hex(d)).collect::<Vec<_>>()})); break;
                    }
                } else { reference = Some((order.clone(), f)); }
            }
        }
    }
}

/// hand-written scripts for the merge paths the random generator reaches rarely: streams filled by `ap` (whose states exist in every
/// peer's data) folded with remote calls in the body, so that different data know different results INSIDE the same iterations
pub fn directed_scripts(ids: &[String]) -> Vec<String> {
    let (a, b, c, d) = (&ids[0], &ids[1], &ids[2], &ids[3]);
    vec![
        format!(r#"(seq (seq (ap "{b}" $w) (ap "{c}" $w)) (fold $w p (par (call p ("svc" "str_1") [p]) (next p))))"#),
        format!(r#"(seq (seq (ap "{b}" $w) (seq (ap "{c}" $w) (ap "{d}" $w))) (fold $w p (par (seq (call p ("svc" "str_1") [p] x) (call "{a}" ("svc" "echo_2") [x])) (next p))))"#),
        format!(r#"(seq (seq (ap "{b}" $w) (ap "{c}" $w)) (seq (fold $w p (par (call p ("svc" "str_1") [p] $r) (next p))) (seq (canon "{a}" $r #r) (call "{d}" ("svc" "echo_2") [#r]))))"#),
        format!(r#"(seq (seq (call "{a}" ("svc" "str_1") [] $w) (ap "{c}" $w)) (fold $w p (par (seq (call "{b}" ("svc" "echo_2") [p]) (call "{c}" ("svc" "echo_3") [p])) (next p))))"#),
        format!(r#"(seq (seq (call "{a}" ("svc" "peer_1") [] $w) (call "{d}" ("svc" "peer_2") [] $w)) (fold $w p (par (seq (call p ("svc" "str_3") [p] x) (call "{b}" ("svc" "echo_4") [x])) (next p))))"#),
        format!(r#"(seq (par (call "{b}" ("svc" "str_1") [] $w) (call "{c}" ("svc" "str_2") [] $w)) (fold $w v (par (seq (call "{d}" ("svc" "echo_3") [v] y) (call "{a}" ("svc" "echo_4") [y])) (next v))))"#),
        format!(r#"(seq (seq (ap 1 $n) (ap 2 $n)) (fold $n i (par (xor (call "{b}" ("svc" "fail_1") [i]) (call "{c}" ("svc" "str_2") [i])) (seq (call "{d}" ("svc" "str_3") [i]) (next i)))))"#),
    ]
}

pub fn run(ctx: &mut Ctx, rep: &mut Report) {
    rep.rule = "case = (history, set of up to 4 data produced in it, merge order at a fresh observer); all permutations of the set are merged; \
        compared: multiset of result content ids, and the whole trace modulo senders when the script has no streams; non-trivial = at least 2 distinct data; distinct by hash of (script, data set, order)".into();
    let mut rng = Rng::new(ctx.seed ^ 0xC08);
    let n_hist = if ctx.thorough { 1500 } else { 60 };
    let observer = Peer::new("observer");
    for hi in 0..n_hist {
        let streams = hi % 2 == 1;
        let budget = 6 + rng.below(10);
        let h = gen_history(&mut rng, streams, false, budget, 50);
        note_history(rep, &h);
        check_orders(rep, &mut rng, &observer, &h.air, &h.net, h.script.uses_streams());
    }
    // directed scripts, several random schedules each
    let peers = peers_for(4);
    let ids: Vec<String> = peers.iter().map(|p| p.id.clone()).collect();
    for (si, air) in directed_scripts(&ids).iter().enumerate() {
        if air_parser::parse(air).is_err() { rep.oracle_fail(json!({"why": "harness: directed C08 script does not parse", "air": air})); continue; }
        for round in 0..(if ctx.thorough { 40 } else { 6 }) {
            let mut net = crate::sim::Net::new(air, &peers, &format!("c08-directed-{si}-{round}"));
            let mut r2 = rng.fork();
            net.run_random(&mut r2, 60);
            rep.stat("directed_histories");
            for _ in 0..3 { check_orders(rep, &mut rng, &observer, air, &net, true); }
        }
    }
}
