//! C08 — order/grouping independence: the data produced along a simulated history are merged at an observer in
//! different orders and groupings; the merged knowledge (result content ids as multisets; whole traces modulo
//! senders for stream-free scripts) must not depend on the order.
use crate::facts::*;
use crate::host::*;
use crate::props::hist::*;
use crate::util::*;
use crate::Ctx;
use air_interpreter_interface::CallResults;
use serde_json::json;

fn merge_in_order(h: &Hist, observer: &Peer, datas: &[Vec<u8>], order: &[usize]) -> Result<Vec<u8>, String> {
    let mut prev: Vec<u8> = vec![];
    for &i in order {
        let o = crate::host::run(&RunArgs { air: &h.air, prev: &prev, cur: &datas[i], init_peer_id: &h.net.peer_ids[h.net.init], peer: observer, particle_id: &h.net.particle,
                               timestamp: h.net.timestamp, ttl: h.net.ttl, results: &CallResults::new(), limits: Limits::unlimited() });
        if (1..=9999).contains(&o.ret_code) || (20000..=29999).contains(&o.ret_code) { return Err(format!("code {} ({}): {}", o.ret_code, crate::gen_codes::name_of(o.ret_code), o.error_message.chars().take(160).collect::<String>())); }
        prev = o.data;
    }
    Ok(prev)
}

fn senderless(t: &[St]) -> Vec<St> { t.iter().map(|s| match s { St::Sent(_, _) => St::Sent(String::new(), None), St::CanonSent(_) => St::CanonSent(String::new()), x => x.clone() }).collect() }

fn permutations(n: usize) -> Vec<Vec<usize>> {
    fn go(cur: &mut Vec<usize>, used: &mut Vec<bool>, n: usize, out: &mut Vec<Vec<usize>>) {
        if cur.len() == n { out.push(cur.clone()); return; }
        for i in 0..n { if !used[i] { used[i] = true; cur.push(i); go(cur, used, n, out); cur.pop(); used[i] = false; } }
    }
    let mut out = vec![]; go(&mut vec![], &mut vec![false; n], n, &mut out); out
}

pub fn run(ctx: &mut Ctx, rep: &mut Report) {
    rep.rule = "case = (history, set of up to 4 data produced in it, merge order at a fresh observer); all permutations of the set are merged; \
        compared: multiset of result content ids, and the whole trace modulo senders when the script has no streams; non-trivial = at least 2 distinct data; distinct by hash of (script, data set, order)".into();
    let mut rng = Rng::new(ctx.seed ^ 0xC08);
    let n_hist = if ctx.thorough { 1500 } else { 60 };
    let observer = Peer::new("observer");
    for hi in 0..n_hist {
        let streams = hi % 2 == 1;
        let budget = 6 + rng.below(10);
        let h = gen_history(&mut rng, streams, false, budget, 50);
        note_history(rep, &h);
        let mut datas: Vec<Vec<u8>> = vec![];
        for st in &h.net.log { if st.outcome.ret_code == 0 && !st.outcome.data.is_empty() && !datas.contains(&st.outcome.data) { datas.push(st.outcome.data.clone()); } }
        if datas.len() < 2 { continue; }
        // pick up to 4 data (the last ones carry most knowledge)
        let k = datas.len().min(2 + rng.below(3));
        let mut chosen: Vec<Vec<u8>> = vec![];
        while chosen.len() < k { let d = datas[rng.below(datas.len())].clone(); if !chosen.contains(&d) { chosen.push(d); } }
        let perms = permutations(k);
        let mut reference: Option<(Vec<usize>, Facts)> = None;
        for order in &perms {
            rep.case(&format!("{}|{:?}|{:?}", h.air, chosen.iter().map(|d| fnv(&hex(d))).collect::<Vec<_>>(), order), true,
                     || json!({"air": h.air, "data_lens": chosen.iter().map(|d| d.len()).collect::<Vec<_>>(), "order": order}));
            match merge_in_order(&h, &observer, &chosen, order) {
                Err(e) => { rep.oracle_fail(json!({"why": format!("merging honest data of one particle in order {order:?} fails: {e}"), "air": h.air, "order": order, "data_hex": chosen.iter().map(|d| hex(d)).collect::<Vec<_>>(),
                    "finding_key": if e.contains("is incompatible with expected") && e.contains("`Call(RequestSentBy(") { Some("stale-request-state-consumed-by-another-instruction") } else { None } })); break; }
                Ok(d) => {
                    let f = match facts(&d) { Some(f) => f, None => { rep.oracle_fail(json!({"why": "merged data does not decode", "air": h.air})); break; } };
                    if let Some((o0, f0)) = &reference {
                        if f0.result_cids() != f.result_cids() {
                            rep.oracle_fail(json!({"why": format!("orders {o0:?} and {order:?} yield different sets of results"), "air": h.air, "data_hex": chosen.iter().map(|d| hex(d)).collect::<Vec<_>>()})); break;
                        }
                        if !h.script.uses_streams() && senderless(&f0.trace) != senderless(&f.trace) {
                            rep.oracle_fail(json!({"why": format!("stream-free script: orders {o0:?} and {order:?} yield different traces (beyond senders)"), "air": h.air, "data_hex": chosen.iter().map(|d| hex(d)).collect::<Vec<_>>()})); break;
                        }
                    } else { reference = Some((order.clone(), f)); }
                }
            }
        }
    }
}
