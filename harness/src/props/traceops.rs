//! Component-level correspondence for the trace handler: the real `air_trace_handler::TraceHandler` and the
//! Lean replica (`Aqua.Trace.Handler`) are driven by the same operation sequences over the same pairs
//! of (previous, current) traces; answers, first error/panic and the result trace are compared.
use crate::host::*;
use crate::props::hist::gen_history;
use crate::util::*;
use crate::Ctx;
use air_interpreter_data::*;
use air_trace_handler::merger::*;
use air_trace_handler::*;
use serde_json::{json, Value};
use std::rc::Rc;

fn keeper_name(e: &KeeperError) -> &'static str {
    match e {
        KeeperError::SetSubtraceLenAndPosFailed { .. } => "keeper.set_pos_and_len",
        KeeperError::SetSubtraceLenFailed { .. } => "keeper.set_len",
        KeeperError::NoElementAtPosition { .. } => "keeper.no_element",
        KeeperError::NoStreamState { .. } => "keeper.no_stream_state",
    }
}

fn err_name(e: &TraceHandlerError) -> String {
    match e {
        TraceHandlerError::KeeperError(k) => keeper_name(k).into(),
        TraceHandlerError::MergeError(m) => match m {
            MergeError::IncompatibleExecutedStates(..) | MergeError::DifferentExecutedStateExpected(..) => "merge.incompatible_states".into(),
            MergeError::KeeperError(k) => keeper_name(k).into(),
            MergeError::IncorrectApResult(_) => "merge.ap".into(),
            MergeError::IncorrectCallResult(CallResultError::ValuesNotEqual { .. }) => "merge.call.not_equal".into(),
            MergeError::IncorrectCallResult(CallResultError::IncompatibleCallResults { .. }) => "merge.call.incompatible".into(),
            MergeError::IncorrectCanonResult(_) => "merge.canon".into(),
            MergeError::IncorrectFoldResult(FoldResultError::SubtraceLenOverflow { .. }) => "merge.fold.overflow".into(),
            MergeError::IncorrectFoldResult(FoldResultError::SeveralRecordsWithSamePos(..)) => "merge.fold.same_pos".into(),
            MergeError::IncorrectFoldResult(FoldResultError::FoldIncorrectSubtracesCount(_)) => "merge.fold.count".into(),
        },
        TraceHandlerError::StateFSMError(s) => match s {
            StateFSMError::ParQueueIsEmpty => "fsm.par_queue_empty".into(),
            StateFSMError::FoldFSMNotFound(_) => "fsm.fold_not_found".into(),
            StateFSMError::ParLenOverflow(_) => "fsm.par_len_overflow".into(),
            StateFSMError::ParPosOverflow(..) => "fsm.par_pos_overflow".into(),
            StateFSMError::ParLenUnderflow(..) => "fsm.par_len_underflow".into(),
            StateFSMError::FoldPosOverflow(..) => "fsm.fold_pos_overflow".into(),
            StateFSMError::FoldLenUnderflow(..) => "fsm.fold_len_underflow".into(),
            StateFSMError::KeeperError(k) => keeper_name(k).into(),
        },
    }
}

fn sj<T: serde::Serialize>(v: &T) -> Value { serde_json::to_value(v).unwrap() }

/// the driver of the real handler: applies one op, returns its canonical answer and whether to go on
struct Real { h: TraceHandler, pushed: usize }

impl Real {
    fn apply(&mut self, op: &Value) -> (Value, bool) {
        let name = op[0].as_str().unwrap_or("");
        let fold_id = op[1].as_u64().unwrap_or(0) as u32;
        macro_rules! fin { ($r:expr) => { match $r { Ok(_) => (json!("ok"), true), Err(e) => (json!({"err": err_name(&e)}), false) } } }
        match name {
            "call_start" => match self.h.meet_call_start() {
                Ok(MergerCallResult::NotMet) => (json!("not_met"), true),
                Ok(MergerCallResult::Met(m)) => (json!({"met": sj(&m.result), "pos": usize::from(m.trace_pos), "source": match m.source { ValueSource::PreviousData => "prev", ValueSource::CurrentData => "cur" }}), true),
                Err(e) => (json!({"err": err_name(&e)}), false),
            },
            "call_end" => { let c: CallResult = serde_json::from_value(op[1].clone()).unwrap(); self.h.meet_call_end(c); self.pushed += 1; (json!("ok"), true) }
            "ap_start" => match self.h.meet_ap_start() {
                Ok(MergerApResult::NotMet) => (json!("not_met"), true),
                Ok(MergerApResult::Met(m)) => (json!({"gen": sj(&m.generation), "source": match m.value_source { ValueSource::PreviousData => "prev", ValueSource::CurrentData => "cur" }}), true),
                Err(e) => (json!({"err": err_name(&e)}), false),
            },
            "ap_end" => { let gens: Vec<u32> = serde_json::from_value(op[1].clone()).unwrap_or_default();
                          let ap: ApResult = serde_json::from_value(json!({"gens": gens})).unwrap(); self.h.meet_ap_end(ap); self.pushed += 1; (json!("ok"), true) }
            "canon_start" => match self.h.meet_canon_start() {
                Ok(MergerCanonResult::Empty) => (json!("empty"), true),
                Ok(MergerCanonResult::CanonResult(c)) => (json!({"canon": sj(&c)}), true),
                Err(e) => (json!({"err": err_name(&e)}), false),
            },
            "canon_end" => { let c: CanonResult = serde_json::from_value(op[1].clone()).unwrap(); self.h.meet_canon_end(c); self.pushed += 1; (json!("ok"), true) }
            "par_start" => { let r = self.h.meet_par_start(); if r.is_ok() { self.pushed += 1; } fin!(r) }
            "par_end" => fin!(self.h.meet_par_subgraph_end(if op[1] == "left" { SubgraphType::Left } else { SubgraphType::Right })),
            "fold_start" => { let r = self.h.meet_fold_start(fold_id); if r.is_ok() { self.pushed += 1; } fin!(r) }
            "iter_start" => fin!(self.h.meet_iteration_start(fold_id, (op[2].as_u64().unwrap_or(0) as u32).into())),
            "iter_end" => fin!(self.h.meet_iteration_end(fold_id)),
            "back_iter" => fin!(self.h.meet_back_iterator(fold_id)),
            "gen_end" => fin!(self.h.meet_generation_end(fold_id)),
            "fold_end" => fin!(self.h.meet_fold_end(fold_id)),
            "update_generation" => match self.h.update_generation((op[1].as_u64().unwrap_or(0) as u32).into(), (op[2].as_u64().unwrap_or(0) as usize).into()) {
                Ok(()) => (json!("ok"), true),
                Err(GenerationCompactificationError::TracePosPointsToNowhere(_)) => (json!({"err": "compact.nowhere"}), true),
                Err(GenerationCompactificationError::TracePosPointsToInvalidState { .. }) => (json!({"err": "compact.invalid_state"}), true),
            },
            "subgraph_sizes" => { let (a, b) = self.h.subgraph_sizes(); (json!([a, b]), true) }
            "trace_pos" => (json!(self.h.trace_pos().map(usize::from).unwrap_or(usize::MAX)), true),
            _ => (json!({"bad_op": true}), false),
        }
    }
}

fn me() -> Rc<String> { Rc::new("12D3KooWME".to_string()) }

/// Walks a guide trace as an executor would, deciding `*_end` states from the real handler's answers.
struct Walker<'a> { guide: &'a [ExecutedState], real: Real, ops: Vec<Value>, answers: Vec<Value>, stopped: bool, map: Vec<Option<usize>>, rng: Rng, next_fold_id: u32 }

impl<'a> Walker<'a> {
    fn op(&mut self, op: Value) -> Value {
        if self.stopped { return Value::Null; }
        // a panic of the real handler ends the sequence
        let r = std::panic::catch_unwind(std::panic::AssertUnwindSafe(|| self.real.apply(&op)));
        self.ops.push(op);
        match r {
            Ok((a, go)) => { self.answers.push(a.clone()); if !go { self.stopped = true; } a }
            Err(_) => { self.answers.push(json!({"panic": true})); self.stopped = true; json!({"panic": true}) }
        }
    }
    fn walk(&mut self, from: usize, to: usize, depth: usize) {
        let mut p = from;
        while p < to && p < self.guide.len() && !self.stopped && depth < 40 {
            match self.guide[p].clone() {
                ExecutedState::Call(c) => {
                    let a = self.op(json!(["call_start"]));
                    let state: Value = if let Some(m) = a.get("met") {
                        // keep, or complete a pending request
                        if m.get("sent_by").is_some() && self.rng.chance(1, 3) { sj(&c) } else { m.clone() }
                    } else { sj(&c) };
                    if !self.stopped { self.map[p] = Some(self.real.pushed); self.op(json!(["call_end", state])); }
                    p += 1;
                }
                ExecutedState::Ap(ap) => {
                    let a = self.op(json!(["ap_start"]));
                    let gens: Value = if let Some(g) = a.get("gen") { json!([g]) } else { sj(&ap)["gens"].clone() };
                    if !self.stopped { self.map[p] = Some(self.real.pushed); self.op(json!(["ap_end", gens])); }
                    p += 1;
                }
                ExecutedState::Canon(c) => {
                    let a = self.op(json!(["canon_start"]));
                    let st = if let Some(m) = a.get("canon") { m.clone() } else { sj(&c) };
                    if !self.stopped { self.op(json!(["canon_end", st])); }
                    p += 1;
                }
                ExecutedState::Par(par) => {
                    let (l, r) = (par.left_size as usize, par.right_size as usize);
                    self.op(json!(["par_start"]));
                    if self.rng.chance(1, 10) { self.op(json!(["subgraph_sizes"])); }
                    self.walk(p + 1, (p + 1 + l).min(to), depth + 1);
                    self.op(json!(["par_end", "left"]));
                    self.walk(p + 1 + l, (p + 1 + l + r).min(to), depth + 1);
                    self.op(json!(["par_end", "right"]));
                    p = p + 1 + l.saturating_add(r);
                }
                ExecutedState::Fold(f) => {
                    let id = self.next_fold_id; self.next_fold_id += 1;
                    self.op(json!(["fold_start", id]));
                    // batches: consecutive lore entries with contiguous before parts
                    let lore = &f.lore;
                    let d = |l: &FoldSubTraceLore, i: usize| -> (usize, usize) { l.subtraces_desc.get(i).map(|d| (usize::from(d.begin_pos), d.subtrace_len as usize)).unwrap_or((0, 0)) };
                    let mut i = 0;
                    let mut total = 0usize;
                    while i < lore.len() && !self.stopped {
                        let mut k = i;
                        while k + 1 < lore.len() && d(&lore[k + 1], 0).0 == d(&lore[k], 0).0 + d(&lore[k], 0).1 { k += 1; }
                        for j in i..=k {
                            let vp = usize::from(lore[j].value_pos);
                            let pos = self.map.get(vp).cloned().flatten().unwrap_or(vp);
                            self.op(json!(["iter_start", id, pos]));
                            let (b, bl) = d(&lore[j], 0);
                            self.walk(b, (b.saturating_add(bl)).min(self.guide.len()), depth + 1);
                            if self.rng.chance(4, 5) { self.op(json!(["iter_end", id])); }
                            total = total.saturating_add(bl);
                        }
                        for j in (i..=k).rev() {
                            self.op(json!(["back_iter", id]));
                            let (a, al) = d(&lore[j], 1);
                            self.walk(a, (a.saturating_add(al)).min(self.guide.len()), depth + 1);
                            total = total.saturating_add(al);
                        }
                        self.op(json!(["gen_end", id]));
                        i = k + 1;
                    }
                    self.op(json!(["fold_end", id]));
                    p = p + 1 + total;
                }
            }
        }
    }
}

fn mutate_trace(t: &mut Vec<ExecutedState>, rng: &mut Rng) -> String {
    if t.is_empty() { t.push(ExecutedState::par(rng.below(3), rng.below(3))); return "push-par".into(); }
    let i = rng.below(t.len());
    let big = [0u32, 1, 2, 7, u32::MAX, u32::MAX - 1, 0x8000_0000, 0xCAFEBABE];
    match rng.below(9) {
        0 => { let l = *rng.pick(&big); let r = *rng.pick(&big); t[i] = serde_json::from_value(json!({"par": [l, r]})).unwrap(); format!("state {i} := par({l},{r})") }
        1 => { t.remove(i); format!("dropped {i}") }
        2 => { let j = rng.below(t.len()); t.swap(i, j); format!("swapped {i},{j}") }
        3 => { let s = t[i].clone(); t.insert(i, s); format!("duplicated {i}") }
        4 => { // fold lore edits
            let folds: Vec<usize> = t.iter().enumerate().filter(|(_, s)| matches!(s, ExecutedState::Fold(_))).map(|(i, _)| i).collect();
            if folds.is_empty() { t[i] = serde_json::from_value(json!({"fold": {"lore": [{"pos": *rng.pick(&big), "desc": [{"pos": *rng.pick(&big), "len": *rng.pick(&big)}, {"pos": *rng.pick(&big), "len": *rng.pick(&big)}]}]}})).unwrap(); return format!("state {i} := hostile fold"); }
            let fi = folds[rng.below(folds.len())];
            let mut v = sj(&t[fi]);
            let lore = v["fold"]["lore"].as_array_mut().unwrap();
            if lore.is_empty() { lore.push(json!({"pos": 0, "desc": [{"pos": 0, "len": 0}, {"pos": 0, "len": 0}]})); }
            let li = rng.below(lore.len());
            match rng.below(5) {
                0 => { lore[li]["pos"] = json!(*rng.pick(&big)); }
                1 => { let di = rng.below(2); lore[li]["desc"][di]["len"] = json!(*rng.pick(&big)); }
                2 => { let di = rng.below(2); lore[li]["desc"][di]["pos"] = json!(*rng.pick(&big)); }
                3 => { lore[li]["desc"].as_array_mut().unwrap().pop(); }
                _ => { let e = lore[li].clone(); lore.push(e); }
            }
            t[fi] = serde_json::from_value(v).unwrap();
            format!("fold {fi} lore entry {li} edited")
        }
        5 => { t[i] = serde_json::from_value(json!({"ap": {"gens": if rng.chance(1, 2) { json!([]) } else { json!([*rng.pick(&big), 1]) }}})).unwrap(); format!("state {i} := odd ap") }
        6 => { t[i] = ExecutedState::Call(CallResult::sent_peer_id(me())); format!("state {i} := sent") }
        7 => { t[i] = serde_json::from_value(json!({"canon": {"sent_by": "p"}})).unwrap(); format!("state {i} := canon sent") }
        _ => { t[i] = serde_json::from_value(json!({"call": {"executed": {"stream": {"cid": "bagaaihra", "generation": *rng.pick(&big)}}}})).unwrap(); format!("state {i} := stream value") }
    }
}

pub fn run(ctx: &mut Ctx, rep: &mut Report) {
    rep.rule = "case = (previous trace, current trace, operation sequence); traces come from simulated honest histories (pairs of one particle), \
        optionally mutated (par sizes, fold lore positions/lengths near 2^32, generation lists, state kinds, drops, swaps); operation sequences follow an \
        executor-like walk of one of the traces (decisions taken from the real handler's answers) or are random; non-trivial = at least 3 operations; \
        distinct by hash of (traces, ops)".into();
    let mut rng = Rng::new(ctx.seed ^ 0x7ace);
    let n_hist = if ctx.thorough { 1500 } else { 60 };
    for hi in 0..n_hist {
        let h = gen_history(&mut rng, hi % 3 != 0, false, 10, 40);
        // pairs (prev, cur) of this history
        let datas: Vec<Vec<u8>> = h.net.log.iter().map(|s| s.outcome.data.clone()).filter(|d| !d.is_empty()).collect();
        if datas.is_empty() { continue; }
        for _ in 0..(if ctx.thorough { 6 } else { 4 }) {
            let a = rng.pick(&datas).clone(); let b = rng.pick(&datas).clone();
            let (Some((_, da)), Some((_, db))) = (decode_data(&a), decode_data(&b)) else { continue; };
            let mut prev: Vec<ExecutedState> = da.trace.iter().cloned().collect();
            let mut cur: Vec<ExecutedState> = db.trace.iter().cloned().collect();
            let mut mutation = String::new();
            if rng.chance(1, 2) { let k = 1 + rng.below(2); for _ in 0..k { let w = if rng.chance(1, 2) { &mut prev } else { &mut cur }; mutation = format!("{mutation};{}", mutate_trace(w, &mut rng)); } }
            if rng.chance(1, 10) { prev.clear(); }
            let guide = if rng.chance(1, 2) { prev.clone() } else { cur.clone() };
            let handler = TraceHandler::from_trace(prev.clone().into(), cur.clone().into());
            let mut w = Walker { guide: &guide, real: Real { h: handler, pushed: 0 }, ops: vec![], answers: vec![], stopped: false, map: vec![None; guide.len() + 1], rng: rng.fork(), next_fold_id: 1 };
            if rng.chance(1, 8) {
                // random op soup
                let names = ["call_start", "ap_start", "canon_start", "par_start", "par_end", "fold_start", "iter_start", "iter_end", "back_iter", "gen_end", "fold_end", "update_generation", "subgraph_sizes", "trace_pos"];
                for _ in 0..(3 + w.rng.below(12)) {
                    let n = *w.rng.pick(&names);
                    let op = match n { "par_end" => json!([n, if w.rng.chance(1, 2) { "left" } else { "right" }]), "iter_start" => json!([n, w.rng.below(3), w.rng.below(6)]),
                        "update_generation" => json!([n, w.rng.below(6), w.rng.below(4)]), "fold_start" | "iter_end" | "back_iter" | "gen_end" | "fold_end" => json!([n, w.rng.below(3)]), _ => json!([n]) };
                    w.op(op);
                    if n == "call_start" && !w.stopped { w.op(json!(["call_end", {"sent_by": {"PeerId": "p"}}])); }
                    if n == "ap_start" && !w.stopped { w.op(json!(["ap_end", [0]])); }
                }
            } else {
                let n = guide.len();
                w.walk(0, n, 0);
            }
            let real_trace = sj(&w.real.h.as_result_trace());
            let ops = w.ops.clone(); let answers = w.answers.clone();
            let req = json!({"op": "trace_ops", "prev": sj(&prev), "cur": sj(&cur), "ops": ops});
            let canon = serde_json::to_string(&req).unwrap();
            let nontrivial = ops.len() >= 3;
            rep.case(&canon, nontrivial, || json!({"prev_len": prev.len(), "cur_len": cur.len(), "mutation": mutation, "ops": ops.iter().take(12).collect::<Vec<_>>(), "answers": answers.iter().take(12).collect::<Vec<_>>()}));
            for a in &answers { if let Some(e) = a.get("err") { rep.stat(&format!("err_{}", e.as_str().unwrap_or(""))); } if a.get("panic").is_some() { rep.stat("real_handler_panics"); } }
            rep.stat_n("ops", ops.len() as u64);
            let m = ctx.driver.ask(&req);
            if m.get("unmodelled").is_some() { rep.unmodelled += 1; continue; }
            rep.model_compared += 1;
            // compare answers (a panic is compared as "panic" regardless of the site text) and the result trace
            let norm = |v: &Value| -> Value { if v.get("panic").is_some() { json!({"panic": true}) } else { v.clone() } };
            let ma: Vec<Value> = m["answers"].as_array().cloned().unwrap_or_default().iter().map(norm).collect();
            let ra: Vec<Value> = answers.iter().map(norm).collect();
            // after an error or panic the run is abandoned (trace errors are uncatchable): the partial result trace is not observable
            let panicked = ra.last().map(|a| a.get("panic").is_some() || a.get("err").map(|e| !e.as_str().unwrap_or("").starts_with("compact")).unwrap_or(false)).unwrap_or(false);
            if ma != ra || (!panicked && m["result_trace"] != real_trace) {
                let first = ma.iter().zip(ra.iter()).position(|(x, y)| x != y);
                rep.disagree(json!({"op": "trace_ops", "first_diverging_op": first, "op_at": first.map(|i| ops[i].clone()), "model": first.map(|i| ma[i].clone()), "implementation": first.map(|i| ra[i].clone()),
                    "model_len": ma.len(), "impl_len": ra.len(), "trace_equal": m["result_trace"] == real_trace, "mutation": mutation, "request": req}));
            }
        }
    }
}
