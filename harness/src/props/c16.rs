//! C16 — distributed execution agrees with the sequential meaning of the script.
//!
//! Direct oracle: for generated scripts of the stream-free fragment (every fallible instruction under an
//! xor left branch with no par in between) the service invocation log of every peer — (peer, service,
//! function, argument values) — over honest multi-peer histories (all interleavings for small histories,
//! random schedules with duplicates and late/batched results otherwise) must be a sub-multiset of the
//! calls of the SEQUENTIAL reading, which is computed by the Lean reference evaluator `Aqua.Ref.eval`
//! (driver op `ref`; the deterministic service oracle stays here and is handed over as a growing table).
//! Correspondence: every run of every history is replayed in lock-step on the Lean executor model
//! (`exec` op; projection: return code + call requests).
use crate::props::hist::{peers_for, step_json};
use crate::script::*;
use crate::sim::*;
use crate::util::*;
use crate::Ctx;
use air_interpreter_interface::CallResults;
use serde_json::{json, Value};
use std::collections::BTreeMap;

// ------------------------------------------------------------------------------------------------
// the fragment: syntactic side condition, enforced on whatever the generator produced

fn strip_val(v: &Val) -> Val { match v { Val::Error(_) | Val::LastError(_) => Val::Lit("err".into()), x => x.clone() } }

fn val_reads_var(v: &Val) -> bool { matches!(v, Val::Scalar(_) | Val::ScalarLens(..)) }

/// instructions that can raise a catchable error by themselves
fn fallible(i: &Instr) -> bool {
    match i {
        Instr::Call { .. } | Instr::Fail(_) | Instr::Match(..) | Instr::Mismatch(..) => true,
        Instr::Ap { arg, .. } => val_reads_var(arg),
        Instr::FoldScalar { iterable, .. } => val_reads_var(iterable),
        _ => false,
    }
}

/// rewrite into the fragment: error operands (`:error:`, `%last_error%`) become literals; every fallible
/// instruction that is not under an xor left branch (with no par in between) gets its own `(xor i (null))`
pub fn into_fragment(i: &Instr, guarded: bool) -> Instr {
    let wrap = |x: Instr, was_guarded: bool| if was_guarded { x } else { Instr::Xor(Box::new(x), Box::new(Instr::Null)) };
    let inner_guard = guarded || fallible(i);
    match i {
        Instr::Call { peer, svc, func, args, out } =>
            wrap(Instr::Call { peer: strip_val(peer), svc: strip_val(svc), func: strip_val(func), args: args.iter().map(strip_val).collect(), out: out.clone() }, guarded),
        Instr::Seq(l, r) => Instr::Seq(Box::new(into_fragment(l, guarded)), Box::new(into_fragment(r, guarded))),
        Instr::Par(l, r) => Instr::Par(Box::new(into_fragment(l, false)), Box::new(into_fragment(r, false))),
        Instr::Xor(l, r) => Instr::Xor(Box::new(into_fragment(l, true)), Box::new(into_fragment(r, guarded))),
        Instr::Match(a, b, body) => wrap(Instr::Match(strip_val(a), strip_val(b), Box::new(into_fragment(body, true))), guarded),
        Instr::Mismatch(a, b, body) => wrap(Instr::Mismatch(strip_val(a), strip_val(b), Box::new(into_fragment(body, true))), guarded),
        Instr::Ap { arg, out } => wrap(Instr::Ap { arg: strip_val(arg), out: out.clone() }, guarded || !fallible(i)),
        Instr::FoldScalar { iterable, iter, body, last } =>
            wrap(Instr::FoldScalar { iterable: strip_val(iterable), iter: iter.clone(), body: Box::new(into_fragment(body, inner_guard)),
                                     last: last.as_ref().map(|l| Box::new(into_fragment(l, inner_guard))) }, guarded || !fallible(i)),
        Instr::New(v, body) => Instr::New(v.clone(), Box::new(into_fragment(body, guarded))),
        Instr::Fail(f) => wrap(Instr::Fail(f.clone()), guarded),
        other => other.clone(),
    }
}

/// independent check of the side condition (on the final script)
pub fn check_fragment(i: &Instr, guarded: bool) -> Result<(), String> {
    let bad_val = |v: &Val| !matches!(v, Val::Lit(_) | Val::Num(_) | Val::Bool(_) | Val::EmptyArr | Val::InitPeer | Val::Timestamp | Val::Ttl | Val::Scalar(_) | Val::ScalarLens(..));
    if fallible(i) && !guarded { return Err(format!("fallible instruction not guarded by an xor: {}", i.text().chars().take(80).collect::<String>())); }
    match i {
        Instr::Call { peer, svc, func, args, out } => {
            if bad_val(peer) || bad_val(svc) || bad_val(func) || args.iter().any(bad_val) { return Err("operand outside the fragment".into()); }
            if matches!(out, Out::Stream(_)) { return Err("stream output".into()); }
            Ok(())
        }
        Instr::Seq(l, r) => { check_fragment(l, guarded)?; check_fragment(r, guarded) }
        Instr::Par(l, r) => { check_fragment(l, false)?; check_fragment(r, false) }
        Instr::Xor(l, r) => { check_fragment(l, true)?; check_fragment(r, guarded) }
        Instr::Match(a, b, body) | Instr::Mismatch(a, b, body) => { if bad_val(a) || bad_val(b) { return Err("operand outside the fragment".into()); } check_fragment(body, guarded) }
        Instr::Ap { arg, out } => { if bad_val(arg) { return Err("operand outside the fragment".into()); } if matches!(out, Out::Scalar(_)) { Ok(()) } else { Err("ap into a stream".into()) } }
        Instr::FoldScalar { iterable, body, last, .. } => {
            if !matches!(iterable, Val::Scalar(_) | Val::ScalarLens(..) | Val::EmptyArr) { return Err("fold iterable outside the fragment".into()); }
            check_fragment(body, guarded)?; if let Some(l) = last { check_fragment(l, guarded)?; } Ok(())
        }
        Instr::New(NewVar::Scalar(_), body) => check_fragment(body, guarded),
        Instr::Next(_) | Instr::Fail(_) | Instr::Null | Instr::Never => Ok(()),
        _ => Err(format!("instruction outside the fragment: {}", i.text().chars().take(60).collect::<String>())),
    }
}

// ------------------------------------------------------------------------------------------------
// hand-written shapes in which control flow depends on service results

fn lit(s: &str) -> Val { Val::Lit(s.to_string()) }
fn sc(s: &str) -> Val { Val::Scalar(s.to_string()) }
fn lens(s: &str, l: &str) -> Val { Val::ScalarLens(s.to_string(), l.to_string()) }
fn seq(a: Instr, b: Instr) -> Instr { Instr::Seq(Box::new(a), Box::new(b)) }
fn par(a: Instr, b: Instr) -> Instr { Instr::Par(Box::new(a), Box::new(b)) }
fn xor(a: Instr, b: Instr) -> Instr { Instr::Xor(Box::new(a), Box::new(b)) }
fn call(peer: Val, func: &str, args: Vec<Val>, out: Option<&str>) -> Instr {
    Instr::Call { peer, svc: lit("svc"), func: lit(func), args, out: match out { Some(n) => Out::Scalar(n.into()), None => Out::None } }
}
fn seqs(mut v: Vec<Instr>) -> Instr { let mut acc = v.pop().unwrap(); while let Some(x) = v.pop() { acc = seq(x, acc); } acc }

pub fn c16_template(rng: &mut Rng, peers: &[String], k: usize) -> Instr {
    let n = peers.len();
    let p = |rng: &mut Rng| lit(&peers[rng.below(n)]);
    let tag = rng.below(1000);
    let f = |kind: &str, i: usize| format!("{kind}_{}", tag * 10 + i);
    match k % 12 {
        0 => // result used as the peer of the next call, then as a match operand
            seqs(vec![call(p(rng), &f("peer", 1), vec![], Some("w")), call(sc("w"), &f("obj", 2), vec![sc("w")], Some("o")),
                      xor(Instr::Match(lens("o", ".$.idx"), Val::Num(0), Box::new(call(lens("o", ".$.peer"), &f("str", 3), vec![lens("o", ".$.n")], None))),
                          call(p(rng), &f("str", 4), vec![lens("o", ".$.s")], None))]),
        1 => // fold over a result, call on each element, tail after next
            seqs(vec![call(p(rng), &f("peers", 1), vec![], Some("ps")),
                      Instr::FoldScalar { iterable: sc("ps"), iter: "q".into(), last: None,
                          body: Box::new(seq(call(sc("q"), &f("num", 2), vec![sc("q")], Some("m")), seq(Instr::Next("q".into()), call(p(rng), &f("echo", 3), vec![sc("m"), sc("q")], None)))) },
                      call(p(rng), &f("str", 4), vec![], None)]),
        2 => // par fan-out, join on both results, branch on equality of two results
            seqs(vec![par(call(p(rng), &f("num", 1), vec![], Some("a")), call(p(rng), &f("num", 2), vec![], Some("b"))),
                      xor(Instr::Mismatch(sc("a"), sc("b"), Box::new(call(p(rng), &f("echo", 3), vec![sc("a"), sc("b")], Some("j")))), call(p(rng), &f("str", 4), vec![sc("a")], None)),
                      call(p(rng), &f("str", 5), vec![], None)]),
        3 => // failing service under xor decides the branch; handler result steers a later call
            seqs(vec![xor(seq(call(p(rng), &f("fail", 1), vec![], Some("u")), call(p(rng), &f("str", 2), vec![sc("u")], None)), call(p(rng), &f("peer", 3), vec![], Some("h"))),
                      call(sc("h"), &f("str", 4), vec![sc("h")], None)]),
        4 => // lens into a result picks the iterable; fold with par of guarded calls, never in one branch
            seqs(vec![call(p(rng), &f("obj", 1), vec![], Some("o")),
                      Instr::FoldScalar { iterable: lens("o", ".$.peers"), iter: "q".into(), last: Some(Box::new(call(p(rng), &f("str", 9), vec![], None))),
                          body: Box::new(seq(par(call(sc("q"), &f("str", 2), vec![lens("o", ".$.n")], None), Instr::Never), Instr::Next("q".into()))) }]),
        5 => // new-scoped scalar set first, used after
            seqs(vec![call(p(rng), &f("num", 1), vec![], Some("a")),
                      Instr::New(NewVar::Scalar("t".into()), Box::new(seq(Instr::Ap { arg: sc("a"), out: Out::Scalar("t".into()) }, call(p(rng), &f("echo", 2), vec![sc("t")], Some("r"))))),
                      call(p(rng), &f("echo", 3), vec![sc("a")], None)]),
        6 => // lens with a scalar accessor taken from another result; empty-array iterable
            seqs(vec![par(call(p(rng), &f("obj", 1), vec![], Some("o")), call(p(rng), &f("num", 2), vec![], Some("i"))),
                      xor(call(p(rng), &f("echo", 3), vec![lens("o", ".$.arr.[i]")], Some("e")), call(p(rng), &f("str", 4), vec![sc("i")], None)),
                      call(p(rng), &f("arrempty", 5), vec![], Some("z")),
                      Instr::FoldScalar { iterable: sc("z"), iter: "y".into(), body: Box::new(seq(call(p(rng), &f("str", 6), vec![sc("y")], None), Instr::Next("y".into()))), last: None },
                      call(p(rng), &f("str", 7), vec![], None)]),
        7 => // nested folds over results, inner iterable depends on the outer element
            seqs(vec![call(p(rng), &f("peers", 1), vec![], Some("ps")),
                      Instr::FoldScalar { iterable: sc("ps"), iter: "q".into(), last: None,
                          body: Box::new(seq(call(sc("q"), &f("arr", 2), vec![sc("q")], Some("xs")),
                              seq(Instr::FoldScalar { iterable: sc("xs"), iter: "x".into(), last: None, body: Box::new(seq(call(p(rng), &f("echo", 3), vec![sc("x"), sc("q")], None), Instr::Next("x".into()))) },
                                  Instr::Next("q".into())))) }]),
        8 => // par with a branch that waits for the other one's result; xor whose left is blocked must not run its right
            seqs(vec![par(call(p(rng), &f("peer", 1), vec![], Some("w")), xor(call(sc("w"), &f("str", 2), vec![sc("w")], Some("v")), call(p(rng), &f("str", 3), vec![], None))),
                      call(p(rng), &f("echo", 4), vec![sc("v")], None)]),
        9 => // a scalar bound in one iteration must not be visible in the iteration started by `next`: the reader waits for its own iteration's value
            seqs(vec![call(p(rng), &f("peers", 1), vec![], Some("ps")),
                      Instr::FoldScalar { iterable: sc("ps"), iter: "q".into(), last: None,
                          body: Box::new(seq(par(call(sc("q"), &f("num", 3), vec![sc("q")], Some("m")), call(p(rng), &f("echo", 2), vec![sc("m"), sc("q")], None)), Instr::Next("q".into()))) }]),
        10 => // what follows a par whose branches are both blocked (or wait forever) is not reached
            seqs(vec![par(seq(call(p(rng), &f("str", 1), vec![], Some("a")), Instr::Never), Instr::Never), call(p(rng), &f("echo", 2), vec![lit("after-par")], None)]),
        _ => // a failing call in the middle of a seq under xor: the tail is skipped on every peer, the handler runs once
            seqs(vec![xor(seqs(vec![call(p(rng), &f("num", 1), vec![], Some("n")), call(p(rng), &f("fail", 2), vec![sc("n")], Some("u")), call(p(rng), &f("echo", 3), vec![sc("n")], None)]),
                          call(p(rng), &f("echo", 4), vec![lit("handler")], None)),
                      call(p(rng), &f("str", 5), vec![], None)]),
    }
}

/// scripts probing suspected deviations (kept apart from the generated ones; classified when they fail)
pub fn probe_scripts(peers: &[String]) -> Vec<(&'static str, Instr)> {
    let p = |i: usize| lit(&peers[i % peers.len()]);
    vec![
        // a `new`-scoped scalar set in one par branch and read in the other: the reader fails instead of waiting
        ("new-scalar-read-before-set-under-par",
         Instr::New(NewVar::Scalar("x".into()), Box::new(par(call(p(1), "str_901", vec![], Some("x")), xor(call(p(2), "echo_902", vec![sc("x")], None), call(p(3), "str_903", vec![], None)))))),
        // a failing `next` caught inside the fold body: the iterator is not moved back
        ("iterator-not-restored-after-failed-next", {
            // a `peers_` function whose (deterministic) answer has at least two elements
            let tag = (911..990).find(|t| { let r = service(peers, &peers[1 % peers.len()], "svc", &format!("peers_{t}"), &[]); serde_json::from_str::<Value>(&r.result).ok().and_then(|v| v.as_array().map(|a| a.len() >= 2)).unwrap_or(false) }).unwrap_or(911);
            seq(call(p(1), &format!("peers_{tag}"), vec![], Some("ps")),
                xor(Instr::FoldScalar { iterable: sc("ps"), iter: "q".into(), last: None,
                        body: Box::new(seq(xor(Instr::Next("q".into()), Instr::Null), seq(call(p(2), "echo_912", vec![sc("q")], None), Instr::Match(sc("q"), lens("ps", ".$.[0]"), Box::new(Instr::Null))))) },
                    Instr::Null)) }),
        // the outer value of a name rebound inside a fold iteration is read by a parallel branch before the rebinding arrives
        ("shadowed-scalar-read-under-par-in-fold",
         seqs(vec![call(p(1), "num_921", vec![], Some("y")), call(p(1), "peers_922", vec![], Some("ps")),
                   Instr::FoldScalar { iterable: sc("ps"), iter: "q".into(), last: None,
                       body: Box::new(par(call(p(2), "str_923", vec![], Some("y")), call(p(3), "echo_924", vec![sc("y")], None))) }])),
    ]
}

// ------------------------------------------------------------------------------------------------
// reference calls through the Lean evaluator

pub struct RefResult { pub calls: Vec<Value>, pub outcome: String, pub rounds: usize }

fn oracle_entry(peers: &[String], c: &Value) -> Value {
    let args: Vec<Value> = c["args"].as_array().cloned().unwrap_or_default();
    let (peer, svc, func) = (c["peer"].as_str().unwrap_or(""), c["service"].as_str().unwrap_or(""), c["function"].as_str().unwrap_or(""));
    let r = service(peers, peer, svc, func, &args);
    let mut e = json!({"peer": peer, "svc": svc, "fn": func, "args": args});
    // a result that is not JSON is a failure of the call (the interpreter records it as a failed call)
    match (r.ret_code, serde_json::from_str::<Value>(&r.result)) {
        (0, Ok(v)) => { e["ok"] = v; }
        (0, Err(_)) => { e["fail"] = json!({"code": i32::MAX, "msg": r.result}); }
        _ => { e["fail"] = json!({"code": r.ret_code, "msg": r.result}); }
    }
    e
}

/// `Ref.calls` of the script under the harness's service oracle
pub fn ref_calls(ctx: &mut Ctx, net: &Net, ast: &Value) -> Result<RefResult, String> {
    let mut table: Vec<Value> = vec![];
    for round in 0..400 {
        let req = json!({"op": "ref", "ast": ast, "params": {"init": net.peer_ids[net.init], "ts": net.timestamp, "ttl": net.ttl}, "oracle": table, "fuel": 20000});
        let m = ctx.driver.ask(&req);
        if let Some(u) = m.get("unmodelled") { return Err(format!("unmodelled: {u}")); }
        if m.get("calls").is_none() { return Err(format!("driver: {m}")); }
        if m["need"].is_null() {
            return Ok(RefResult { calls: m["calls"].as_array().cloned().unwrap_or_default(), outcome: m["outcome"].as_str().unwrap_or("").to_string(), rounds: round + 1 });
        }
        table.push(oracle_entry(&net.peer_ids, &m["need"]));
    }
    Err("reference evaluation asks for more than 400 distinct calls".into())
}

fn call_key(peer: &str, svc: &str, func: &str, args: &Value) -> String { format!("{peer}|{svc}|{func}|{}", serde_json::to_string(args).unwrap()) }

fn ref_multiset(r: &RefResult) -> BTreeMap<String, usize> {
    let mut m = BTreeMap::new();
    for c in &r.calls { *m.entry(call_key(c["peer"].as_str().unwrap_or(""), c["service"].as_str().unwrap_or(""), c["function"].as_str().unwrap_or(""), &c["args"])).or_insert(0) += 1; }
    m
}

fn log_multiset(net: &Net) -> BTreeMap<String, usize> {
    let mut m = BTreeMap::new();
    for (pi, p) in net.peers.iter().enumerate() {
        for inv in &p.invocations { *m.entry(call_key(&net.peer_ids[pi], &inv.service_id, &inv.function_name, &Value::Array(inv.args.clone()))).or_insert(0) += 1; }
    }
    m
}

fn short_peer(net: &Net, key: &str) -> String {
    let mut s = key.to_string();
    for (i, id) in net.peer_ids.iter().enumerate() { s = s.replace(id.as_str(), &format!("<{}>", net.peers[i].peer.name)); }
    s
}

/// the property on one history: every invocation is a call of the sequential reading (as multisets)
pub fn check_history(net: &Net, refm: &BTreeMap<String, usize>) -> Option<String> {
    let logm = log_multiset(net);
    for (k, n) in &logm {
        let r = refm.get(k).cloned().unwrap_or(0);
        if *n > r {
            // say where it was issued
            let mut at = String::new();
            'outer: for (pi, p) in net.peers.iter().enumerate() { for inv in &p.invocations {
                if &call_key(&net.peer_ids[pi], &inv.service_id, &inv.function_name, &Value::Array(inv.args.clone())) == k { at = format!("peer {} at step {}", p.peer.name, inv.step); break 'outer; } } }
            return Some(if r == 0 { format!("service call `{}` was issued ({at}) but the sequential reading of the script never makes it", short_peer(net, k)) }
                        else { format!("service call `{}` was issued {n} times, the sequential reading makes it {r} time(s) ({at})", short_peer(net, k)) });
        }
    }
    None
}

fn schedule(net: &Net) -> Vec<String> { net.log.iter().map(|s| format!("{}:{}:{}", net.peers[s.peer].peer.name, s.event, s.outcome.ret_code)).collect() }

fn failure_input(net: &Net, script_air: &str, r: &RefResult) -> Value {
    json!({"air": script_air, "peers": net.peers.iter().map(|p| p.peer.name.clone()).collect::<Vec<_>>(), "init_peer": net.peers[net.init].peer.name,
           "schedule": schedule(net),
           "invocations": net.peers.iter().enumerate().flat_map(|(pi, p)| p.invocations.iter().map(move |i| json!({"peer": net.peers[pi].peer.name, "step": i.step, "function": i.function_name, "args": i.args, "ret_code": i.result.ret_code, "result": i.result.result}))).collect::<Vec<_>>(),
           "reference_calls": r.calls.iter().map(|c| short_peer(net, &call_key(c["peer"].as_str().unwrap_or(""), c["service"].as_str().unwrap_or(""), c["function"].as_str().unwrap_or(""), &c["args"]))).collect::<Vec<_>>(),
           "reference_outcome": r.outcome,
           "steps": net.log.iter().map(|s| step_json(net, s)).collect::<Vec<_>>()})
}

// ------------------------------------------------------------------------------------------------
// the premise of the run theorems (`HonestInputs`), monitored on the real data of every history: every call
// state that carries a result resolves through the CID stores to the oracle's answer for the reference call
// with the stored tetraplet and argument hash

fn arg_hash(args: &[Value]) -> String { air_interpreter_cid::value_to_json_cid(&args.to_vec()).map(|c| c.get_inner().to_string()).unwrap_or_default() }

/// Ok((checked entries, `Executed(Unused)` states — outside the theorem's premise)) or the first dishonest entry
pub fn check_honest_data(net: &Net, data: &[u8], r: &RefResult) -> Result<(usize, usize), String> {
    use crate::facts::{facts, St};
    let f = match facts(data) { Some(f) => f, None => return Ok((0, 0)) };
    let (mut checked, mut unused) = (0usize, 0usize);
    for st in &f.trace {
        let (cid, failed) = match st { St::Scalar(c) => (c, false), St::Failed(c) => (c, true), St::Unused(_) => { unused += 1; continue; }, _ => continue };
        let (value_text, ah, t) = match f.service_result(cid) { Some(x) => x, None => return Err(format!("call state refers to service result {cid} that does not resolve in the stores")) };
        // the reference call with this tetraplet and argument hash
        let call = r.calls.iter().find(|c| c["peer"].as_str() == Some(t.0.as_str()) && c["service"].as_str() == Some(t.1.as_str()) && c["function"].as_str() == Some(t.2.as_str())
            && arg_hash(c["args"].as_array().map(|a| a.as_slice()).unwrap_or(&[])) == ah);
        let call = match call { Some(c) => c, None => return Err(format!("data records a result of `{}|{}|{}` (argument hash {ah}) but the sequential reading makes no such call", short_peer(net, &t.0), t.1, t.2)) };
        let args: Vec<Value> = call["args"].as_array().cloned().unwrap_or_default();
        let ans = service(&net.peer_ids, &t.0, &t.1, &t.2, &args);
        let ans_fails = ans.ret_code != 0 || serde_json::from_str::<Value>(&ans.result).is_err();
        if failed {
            if !ans_fails { return Err(format!("data records `{}|{}` as failed but the service succeeds on these arguments", t.1, t.2)); }
        } else {
            if ans_fails { return Err(format!("data records `{}|{}` as executed but the service fails on these arguments", t.1, t.2)); }
            let stored: Value = serde_json::from_str(&value_text).unwrap_or(Value::Null);
            let expected: Value = serde_json::from_str(&ans.result).unwrap_or(Value::Null);
            if stored != expected { return Err(format!("data records value {stored} for `{}|{}` but the service answers {expected}", t.1, t.2)); }
        }
        checked += 1;
    }
    Ok((checked, unused))
}

// ------------------------------------------------------------------------------------------------
// schedules

fn clone_net(n: &Net) -> Net {
    Net { air: n.air.clone(), particle: n.particle.clone(), init: n.init, timestamp: n.timestamp, ttl: n.ttl, peers: n.peers.clone(), inflight: n.inflight.clone(),
          log: n.log.clone(), peer_ids: n.peer_ids.clone(), sent_messages: n.sent_messages.clone() }
}

#[derive(Clone, Debug)]
enum Ev { Deliver(usize), Answer(usize, Vec<u32>) }

fn enabled(net: &Net) -> Vec<Ev> {
    let mut v = vec![];
    for i in 0..net.inflight.len() {
        // identical messages to the same peer are interchangeable
        if net.inflight[..i].iter().any(|m| m == &net.inflight[i]) { continue; }
        v.push(Ev::Deliver(i));
    }
    for (p, ps) in net.peers.iter().enumerate() {
        if ps.stuck { continue; }
        let ids: Vec<u32> = ps.pending.keys().cloned().collect();
        for id in &ids { v.push(Ev::Answer(p, vec![*id])); }
        if ids.len() > 1 { v.push(Ev::Answer(p, ids)); }
    }
    v
}

fn apply(net: &mut Net, e: &Ev) {
    match e {
        Ev::Deliver(i) => { let (q, data) = net.inflight.remove(*i); net.run_peer(q, &data, CallResults::new(), "deliver".into()); }
        Ev::Answer(p, ids) => {
            let mut results = CallResults::new();
            for id in ids { if let Some(r) = net.peers[*p].pending.remove(id) { results.insert(id.to_string(), r); } }
            net.run_peer(*p, &[], results, format!("answer{:?}", ids));
        }
    }
}

/// depth-first exploration of every interleaving; `f` sees every maximal (or cut) history; returns false to stop
fn explore(net: Net, depth: usize, runs_left: &mut i64, leaves: &mut usize, f: &mut dyn FnMut(&Net) -> bool) -> bool {
    let evs = enabled(&net);
    if evs.is_empty() || depth == 0 || *runs_left <= 0 { *leaves += 1; return f(&net); }
    for e in &evs {
        if *runs_left <= 0 { break; }
        let mut n2 = clone_net(&net);
        apply(&mut n2, e);
        *runs_left -= 1;
        if !explore(n2, depth - 1, runs_left, leaves, f) { return false; }
    }
    true
}

// ------------------------------------------------------------------------------------------------

struct Case { air: String, ast: Value, refr: RefResult, refm: BTreeMap<String, usize> }

fn prepare(ctx: &mut Ctx, rep: &mut Report, script: &Instr, probe_net: &Net) -> Option<Case> {
    let air = script.text();
    let ast = match air_parser::parse(&air) { Ok(a) => serde_json::to_value(&a).unwrap(), Err(e) => { rep.stat("script_does_not_parse"); rep.disagree(json!({"op": "generator", "why": format!("fragment script does not parse: {e}"), "air": air})); return None; } };
    let refr = match ref_calls(ctx, probe_net, &ast) { Ok(r) => r, Err(e) => { rep.stat(&format!("ref_error:{}", e.chars().take(40).collect::<String>())); rep.unmodelled += 1; return None; } };
    rep.stat(&format!("ref_outcome_{}", refr.outcome.split(':').next().unwrap_or("")));
    rep.stat_n("ref_calls", refr.calls.len() as u64);
    rep.stat_n("ref_oracle_rounds", refr.rounds as u64);
    if refr.outcome.starts_with("abort") { rep.stat(&format!("ref_{}", refr.outcome.chars().take(48).collect::<String>())); return None; }
    let refm = ref_multiset(&refr);
    Some(Case { air, ast, refr, refm })
}

/// lock-step correspondence of every run of the history with the executor model (code + requests)
fn correspond(ctx: &mut Ctx, rep: &mut Report, net: &Net, case: &Case, from_step: usize) {
    for st in net.log.iter().skip(from_step) {
        if st.outcome.ret_code == PANIC_CODE { rep.stat("interpreter_panics_skipped(C01)"); continue; }
        let req = crate::props::execcorr::exec_request(net, st, &case.ast);
        let m = ctx.driver.ask(&req);
        if m.get("unmodelled").is_some() { rep.unmodelled += 1; continue; }
        rep.model_compared += 1;
        if m.get("panic").is_some() { rep.disagree(json!({"op": "exec", "why": "model panics, implementation does not", "model": m, "air": case.air, "step": step_json(net, st)})); continue; }
        if let Some(why) = crate::props::execcorr::compare_exec_projected(&m, net, st, &["code", "requests", "next"]) {
            rep.disagree(json!({"op": "exec", "projection": ["code", "requests", "next"], "why": why, "air": case.air, "step": step_json(net, st)}));
        }
    }
}

fn note_end(rep: &mut Report, net: &Net, case: &Case) {
    rep.stat_n("runs", net.log.len() as u64);
    rep.stat_n("invocations", net.peers.iter().map(|p| p.invocations.len() as u64).sum());
    if net.quiescent() && !net.peers.iter().any(|p| p.stuck) {
        // completeness (a statistic, not part of the property): everything delivered ⇒ every reference call was made
        if log_multiset(net) == case.refm { rep.stat("quiescent_histories_complete(all_reference_calls_made)"); } else {
            rep.stat("quiescent_histories_incomplete(some_reference_call_not_made)");
            if std::env::var("C16_DEBUG").is_ok() {
                let logm = log_multiset(net);
                let missing: Vec<String> = case.refm.iter().filter(|(k, n)| logm.get(*k).cloned().unwrap_or(0) < **n).map(|(k, _)| short_peer(net, k)).collect();
                eprintln!("INCOMPLETE {}\n   missing {:?}\n   schedule {:?}", case.air, missing, schedule(net));
            }
        }
    } else { rep.stat("histories_not_quiescent"); }
    for st in &net.log { if st.outcome.ret_code != 0 { rep.stat(&format!("ret_{}", crate::gen_codes::name_of(st.outcome.ret_code))); } }
}

fn finding_key(name: &str) -> Option<String> { if name.is_empty() { None } else { Some(format!("c16-{name}")) } }

pub fn run(ctx: &mut Ctx, rep: &mut Report) {
    rep.rule = "case = one honest multi-peer history (3-5 peers, deterministic services as pure functions of (peer, service, function, arguments), some failing) of a script of the C16 fragment \
        (call/seq/par/xor/match/mismatch/fail/null/never/scalar ap/lenses/new/scalar folds; every fallible instruction under an xor left branch with no par in between; generated + hand-written data-dependent shapes); \
        schedules: ALL interleavings of deliveries and (single / batched) answers for small histories, random schedules with duplicated deliveries and late/batched results otherwise; \
        checked: invocation log of all peers (peer, service, function, argument values) is a sub-multiset of the calls of the sequential reading computed by the Lean evaluator Aqua.Ref.eval; \
        every run replayed in lock-step on the Lean executor model (code, call requests, next peers); non-trivial = history with at least 2 runs and 1 invocation; distinct by hash of (script, schedule)".into();
    let mut rng = Rng::new(ctx.seed ^ 0xC16C16);
    let thorough = ctx.thorough;
    let t0 = std::time::Instant::now();
    let time_budget = if thorough { 600.0 } else { 45.0 };
    let n_scripts = if thorough { 60000 } else { 4000 };
    let mut reported = 0usize;

    // suspected deviations first (deterministic)
    {
        let peers = peers_for(4);
        let ids: Vec<String> = peers.iter().map(|p| p.id.clone()).collect();
        for (name, script) in probe_scripts(&ids) {
            let probe = Net::new(&script.text(), &peers, "c16-probe");
            let case = match prepare(ctx, rep, &script, &probe) { Some(c) => c, None => continue };
            let mut start = Net::new(&case.air, &peers, &format!("c16-probe-{name}"));
            start.start();
            let (mut runs_left, mut leaves) = (600i64, 0usize);
            let mut fail: Option<(String, Value)> = None;
            explore(start, 14, &mut runs_left, &mut leaves, &mut |net| {
                rep.evaluations += 1;
                if let Some(why) = check_history(net, &case.refm) { fail = Some((why, failure_input(net, &case.air, &case.refr))); return false; }
                true
            });
            rep.stat(&format!("probe_{name}_{}", if fail.is_some() { "deviates" } else { "agrees" }));
            if let Some((why, input)) = fail { rep.oracle_fail(json!({"why": why, "input": input, "finding_key": finding_key(name), "scenario": format!("probe {name}")})); }
        }
    }

    for si in 0..n_scripts {
        if t0.elapsed().as_secs_f64() > time_budget { rep.stat("stopped_at_time_budget"); break; }
        let n_peers = 3 + rng.below(3);
        let peers = peers_for(n_peers);
        let ids: Vec<String> = peers.iter().map(|p| p.id.clone()).collect();
        let kind = si % 4;
        let raw = if kind == 3 { rep.stat("scripts_template"); c16_template(&mut rng, &ids, si / 4) } else {
            rep.stat("scripts_generated");
            let budget = if kind == 0 { 3 + rng.below(5) } else { 6 + rng.below(12) };
            let cfg = GenCfg { peers: ids.clone(), streams: false, fragment: true, budget, failing_services: true };
            let mut g = Gen::new(&mut rng, cfg);
            let mut s = g.script(); let mut tries = 0;
            while s.size() < 3 && tries < 5 { s = g.script(); tries += 1; }
            s
        };
        let script = into_fragment(&raw, false);
        if script != raw { rep.stat("scripts_tightened_into_fragment"); }
        if let Err(e) = check_fragment(&script, false) { rep.disagree(json!({"op": "generator", "why": format!("script is outside the fragment: {e}"), "air": script.text()})); continue; }
        for k in script.kinds() { rep.stat(&format!("instr_{k}")); }
        let seed = rng.next();
        let particle = format!("particle-{seed:x}");
        let probe = Net::new(&script.text(), &peers, &particle);
        let case = match prepare(ctx, rep, &script, &probe) { Some(c) => c, None => continue };

        // (a) exhaustive interleavings while the history is small
        let mut first_fail: Option<(String, Value)> = None;
        let mut start = Net::new(&case.air, &peers, &particle);
        start.start();
        correspond(ctx, rep, &start, &case, 0);
        let (mut runs_left, mut leaves) = (if thorough { 400i64 } else { 120 }, 0usize);
        let small = case.refr.calls.len() <= 6;
        if small {
            let mut corr_done = 0usize;
            let mut seen: Vec<(String, bool, Value)> = vec![];
            explore(clone_net(&start), 16, &mut runs_left, &mut leaves, &mut |net| {
                if first_fail.is_none() { if let Some(why) = check_history(net, &case.refm) { first_fail = Some((why, failure_input(net, &case.air, &case.refr))); } }
                let canon = format!("{}|{}", case.air, schedule(net).join(","));
                let nontrivial = net.log.len() >= 2 && net.peers.iter().any(|p| !p.invocations.is_empty());
                seen.push((canon, nontrivial, json!({"air": case.air, "peers": net.peers.len(), "schedule": schedule(net), "mode": "exhaustive"})));
                corr_done += 1;
                first_fail.is_none()
            });
            for (canon, nontrivial, sample) in seen { rep.case(&canon, nontrivial, || sample); }
            rep.stat_n("exhaustive_leaves", leaves as u64);
            rep.stat(if runs_left > 0 { "scripts_explored_exhaustively" } else { "scripts_exploration_cut_at_run_budget" });
            let _ = corr_done;
        }
        // (b) random schedules with duplicates, piggy-backed and batched results
        let n_random = if small { 1 } else { 3 };
        for _ in 0..n_random {
            let mut net = clone_net(&start);
            let mut r2 = rng.fork();
            let mut n = 0; while n < 70 && net.random_step(&mut r2, (1, 6)) { n += 1; }
            correspond(ctx, rep, &net, &case, 1);
            note_end(rep, &net, &case);
            // premise of the run theorems on every produced data blob
            for st in &net.log {
                if !(st.outcome.ret_code == 0 || (10000..20000).contains(&st.outcome.ret_code)) { continue; }
                match check_honest_data(&net, &st.outcome.data, &case.refr) {
                    Ok((n, u)) => { rep.stat_n("honest_data_entries_checked", n as u64); if u > 0 { rep.stat("data_with_unused_states(outside_theorem_premise)"); } else if n > 0 { rep.stat("data_satisfying_theorem_premise"); } }
                    Err(why) => { if first_fail.is_none() { first_fail = Some((format!("dishonest data produced by an honest run: {why}"), failure_input(&net, &case.air, &case.refr))); } }
                }
            }
            if first_fail.is_none() { if let Some(why) = check_history(&net, &case.refm) { first_fail = Some((why, failure_input(&net, &case.air, &case.refr))); } }
            let canon = format!("{}|{}", case.air, schedule(&net).join(","));
            let nontrivial = net.log.len() >= 2 && net.peers.iter().any(|p| !p.invocations.is_empty());
            rep.case(&canon, nontrivial, || json!({"air": case.air, "peers": net.peers.len(), "schedule": schedule(&net), "mode": "random"}));
        }
        if let Some((why, input)) = first_fail {
            if reported < 20 { rep.oracle_fail(json!({"why": why, "input": input, "finding_key": Value::Null})); reported += 1; } else { rep.stat("oracle_failures"); }
        }
    }
}
