//! C28 — the beautifier faithfully renders the script structure.
//!
//! * correspondence: real `air_beautifier::Beautifier` output (patterns on/off, several indent steps) vs the
//!   Lean model `Aqua.Air.Beautifier.beautifyAst` on the real parser's AST, byte for byte; plus the monitored
//!   premises of the theorems on every real AST (`WF`, `valueWF`), the Lean reader on the REAL output, the
//!   operand reader round trip and the depth/indent listing;
//! * direct oracle (independent of the model): a Rust reader of the output language parses the real output into
//!   a tree which is compared (a) with the tree of the generator's own script (operand texts known to the
//!   generator, not taken from any `Display`) and (b) with a walk of the real AST (operands through `Display`);
//!   indentation of every child block = parent + step, top level 0; every instruction exactly once, in order;
//! * malformed stream: mutated scripts / garbage — `beautify` must return an error exactly when the parser
//!   rejects, and never panic.
use crate::util::*;
use crate::Ctx;
use air_parser::ast;
use serde_json::{json, Value};

// ------------------------------------------------------------------------------------------------
// the real thing

fn panic_msg(e: Box<dyn std::any::Any + Send>) -> String {
    if let Some(s) = e.downcast_ref::<String>() { s.clone() } else if let Some(s) = e.downcast_ref::<&str>() { s.to_string() } else { "panic".into() }
}

/// Ok(Ok(text)) | Ok(Err(parse error)) | Err(panic message)
pub fn beautify_real(text: &str, patterns: bool, step: usize) -> Result<Result<String, String>, String> {
    let t = text.to_string();
    std::panic::catch_unwind(move || {
        let mut buf: Vec<u8> = vec![];
        let res = {
            let mut b = air_beautifier::Beautifier::new_with_indent(&mut buf, step);
            if patterns { b = b.enable_all_patterns(); }
            b.beautify(&t)
        };
        match res { Ok(()) => Ok(String::from_utf8(buf).unwrap_or_else(|e| format!("NON-UTF8 {e}"))), Err(e) => Err(format!("{e}")) }
    }).map_err(panic_msg)
}

/// the free function `air_beautifier::beautify` (default step) — the glue around `Beautifier`
fn beautify_free(text: &str, patterns: bool) -> Result<Result<String, String>, String> {
    let t = text.to_string();
    std::panic::catch_unwind(move || {
        let mut buf: Vec<u8> = vec![];
        match air_beautifier::beautify(&t, &mut buf, patterns) { Ok(()) => Ok(String::from_utf8_lossy(&buf).to_string()), Err(e) => Err(format!("{e}")) }
    }).map_err(panic_msg)
}

/// serde-JSON of the real AST with float literals replaced by the text of their `Display` (the model takes it as given);
/// also: number of float literals with an integral value, and whether some string of the AST contains a line break
fn ast_json(i: &ast::Instruction<'_>) -> (Value, usize, bool) {
    fn fix(v: &mut Value, integral: &mut usize, newline: &mut bool) {
        match v {
            Value::Object(m) => {
                if m.len() == 1 { if let Some(f) = m.get("Float") { if let Some(x) = f.as_f64() { if x.fract() == 0.0 { *integral += 1; } m.insert("Float".into(), json!(format!("{}", x))); return; } } }
                for (_, x) in m.iter_mut() { fix(x, integral, newline); }
            }
            Value::Array(a) => for x in a.iter_mut() { fix(x, integral, newline); },
            Value::String(s) => if s.contains('\n') { *newline = true; },
            _ => {}
        }
    }
    let mut v = serde_json::to_value(i).unwrap();
    let (mut integral, mut newline) = (0, false);
    fix(&mut v, &mut integral, &mut newline);
    (v, integral, newline)
}

/// the script with every line break INSIDE a string literal replaced by U+0001 (mirrors the lexer: `;` comments, `"` literals)
fn newline_twin(air: &str) -> String {
    let mut out = String::new();
    let (mut in_lit, mut in_comment) = (false, false);
    for c in air.chars() {
        if in_comment { if c == '\n' { in_comment = false; } out.push(c); }
        else if in_lit { if c == '"' { in_lit = false; } out.push(if c == '\n' { '\u{1}' } else { c }); }
        else { if c == '"' { in_lit = true; } else if c == ';' { in_comment = true; } out.push(c); }
    }
    out
}

// ------------------------------------------------------------------------------------------------
// trees

#[derive(Clone, Debug, PartialEq)]
pub enum Sk {
    Instr(String),
    Call { out: Option<String>, peer: String, svc: String, func: String, args: Vec<String> },
    Par(Vec<Sk>, Vec<Sk>),
    Xor(Vec<Sk>, Vec<Sk>),
    Block { head: String, body: Vec<Sk>, last: Option<Vec<Sk>> },
}

fn count_nodes(t: &[Sk]) -> usize {
    t.iter().map(|n| 1 + match n { Sk::Par(a, b) | Sk::Xor(a, b) => count_nodes(a) + count_nodes(b),
        Sk::Block { body, last, .. } => count_nodes(body) + last.as_ref().map(|l| count_nodes(l)).unwrap_or(0), _ => 0 }).sum()
}
fn depth_of(t: &[Sk]) -> usize {
    t.iter().map(|n| match n { Sk::Par(a, b) | Sk::Xor(a, b) => 1 + depth_of(a).max(depth_of(b)),
        Sk::Block { body, last, .. } => 1 + depth_of(body).max(last.as_ref().map(|l| depth_of(l)).unwrap_or(0)), _ => 0 }).max().unwrap_or(0)
}
/// first difference between two trees, as a path
fn diff(a: &[Sk], b: &[Sk], path: &str) -> Option<String> {
    for (k, (x, y)) in a.iter().zip(b.iter()).enumerate() {
        let p = format!("{path}/{k}");
        match (x, y) {
            (Sk::Par(a1, a2), Sk::Par(b1, b2)) | (Sk::Xor(a1, a2), Sk::Xor(b1, b2)) => {
                if let Some(d) = diff(a1, b1, &format!("{p}.left")) { return Some(d); }
                if let Some(d) = diff(a2, b2, &format!("{p}.right")) { return Some(d); }
            }
            (Sk::Block { head: h1, body: c1, last: l1 }, Sk::Block { head: h2, body: c2, last: l2 }) => {
                if h1 != h2 { return Some(format!("{p}: head {h1:?} vs {h2:?}")); }
                if let Some(d) = diff(c1, c2, &format!("{p}.body")) { return Some(d); }
                match (l1, l2) { (Some(x), Some(y)) => if let Some(d) = diff(x, y, &format!("{p}.last")) { return Some(d); },
                    (None, None) => {}, _ => return Some(format!("{p}: last section present on one side only")) }
            }
            _ => if x != y { return Some(format!("{p}: {x:?} vs {y:?}")); }
        }
    }
    if a.len() != b.len() { return Some(format!("{path}: {} items vs {}", a.len(), b.len())); }
    None
}

// ------------------------------------------------------------------------------------------------
// independent reader of the output language

struct RLine { indent: usize, text: String }

fn split_lines(out: &str) -> Result<Vec<RLine>, String> {
    if out.is_empty() { return Ok(vec![]); }
    if !out.ends_with('\n') { return Err("output does not end with a newline".into()); }
    Ok(out[..out.len() - 1].split('\n').map(|l| { let t = l.trim_start_matches(' '); RLine { indent: l.len() - t.len(), text: t.to_string() } }).collect())
}

fn first_word(t: &str) -> &str { t.split(' ').next().unwrap_or("") }

fn read_tok(cs: &[char], pos: &mut usize) -> Result<String, String> {
    if *pos >= cs.len() { return Err("operand expected at end of line".into()); }
    let start = *pos;
    if cs[*pos] == '"' {
        *pos += 1;
        while *pos < cs.len() && cs[*pos] != '"' { *pos += 1; }
        if *pos >= cs.len() { return Err("unterminated literal".into()); }
        *pos += 1;
    } else {
        while *pos < cs.len() && !matches!(cs[*pos], ' ' | ',' | ')' | '"') { *pos += 1; }
        if *pos == start { return Err(format!("operand expected at column {start}")); }
    }
    Ok(cs[start..*pos].iter().collect())
}
fn expect(cs: &[char], pos: &mut usize, what: &str) -> Result<(), String> {
    let w: Vec<char> = what.chars().collect();
    if cs.len() >= *pos + w.len() && cs[*pos..*pos + w.len()] == w[..] { *pos += w.len(); Ok(()) } else { Err(format!("{what:?} expected at column {pos}")) }
}
/// `call <peer> (<service>, <function>) [<a>, <b>, …]`
fn read_call(t: &str, out: Option<String>) -> Result<Sk, String> {
    let cs: Vec<char> = t.chars().collect();
    let mut p = 0;
    expect(&cs, &mut p, "call ")?;
    let peer = read_tok(&cs, &mut p)?;
    expect(&cs, &mut p, " (")?;
    let svc = read_tok(&cs, &mut p)?;
    expect(&cs, &mut p, ", ")?;
    let func = read_tok(&cs, &mut p)?;
    expect(&cs, &mut p, ") [")?;
    if cs.last() != Some(&']') || p > cs.len() - 1 { return Err("argument list not closed".into()); }
    let inner = &cs[..cs.len() - 1];
    let mut args = vec![];
    if p < inner.len() {
        loop {
            args.push(read_tok(inner, &mut p)?);
            if p == inner.len() { break; }
            expect(inner, &mut p, ", ")?;
            if p == inner.len() { return Err("dangling comma".into()); }
        }
    }
    Ok(Sk::Call { out, peer, svc, func, args })
}

const KW_SIMPLE: &[&str] = &["ap", "canon", "fail", "next", "null", "never", "hopon"];
const KW_BLOCK: &[&str] = &["match", "mismatch", "fold", "new"];

/// items at indentation `d` starting at `*pos`; `nest` collects (parent indent, child indent)
fn read_items(ls: &[RLine], pos: &mut usize, d: usize, nest: &mut Vec<(usize, usize)>) -> Result<Vec<Sk>, String> {
    let mut items = vec![];
    while *pos < ls.len() {
        let l = &ls[*pos];
        if l.indent < d { break; }
        if l.indent > d { return Err(format!("line {}: unexpected indentation {} (block at {d})", *pos + 1, l.indent)); }
        let t = l.text.as_str();
        *pos += 1;
        let children = |pos: &mut usize, nest: &mut Vec<(usize, usize)>| -> Result<Vec<Sk>, String> {
            if *pos >= ls.len() || ls[*pos].indent <= d { return Err(format!("line {}: compound instruction without nested lines", *pos)); }
            let cd = ls[*pos].indent;
            nest.push((d, cd));
            read_items(ls, pos, cd, nest)
        };
        let sep = |pos: &mut usize, what: &str| -> Result<(), String> {
            if *pos < ls.len() && ls[*pos].indent == d && ls[*pos].text == what { *pos += 1; Ok(()) } else { Err(format!("line {}: {what:?} expected at indentation {d}", *pos + 1)) }
        };
        let fw = first_word(t);
        if t == "par:" { let a = children(pos, nest)?; sep(pos, "|")?; let b = children(pos, nest)?; items.push(Sk::Par(a, b)); }
        else if t == "try:" { let a = children(pos, nest)?; sep(pos, "catch:")?; let b = children(pos, nest)?; items.push(Sk::Xor(a, b)); }
        else if t == "|" || t == "catch:" || t == "last:" { return Err(format!("line {}: stray separator {t:?}", *pos)); }
        else if KW_SIMPLE.contains(&fw) { items.push(Sk::Instr(t.to_string())); }
        else if KW_BLOCK.contains(&fw) {
            let head = t.strip_suffix(':').ok_or(format!("line {}: compound head without ':'", *pos))?.to_string();
            let body = children(pos, nest)?;
            let last = if *pos < ls.len() && ls[*pos].indent == d && ls[*pos].text == "last:" { *pos += 1; Some(children(pos, nest)?) } else { None };
            items.push(Sk::Block { head, body, last });
        }
        else if fw == "call" { items.push(read_call(t, None).map_err(|e| format!("line {}: {e}", *pos))?); }
        else if t.split(' ').nth(1) == Some("<-") {
            let rest = t.get(fw.len() + 4..).unwrap_or("");
            items.push(read_call(rest, Some(fw.to_string())).map_err(|e| format!("line {}: {e}", *pos))?);
        }
        else { return Err(format!("line {}: unknown instruction {t:?}", *pos)); }
    }
    Ok(items)
}

/// the output as a tree; checks the indentation discipline (top level 0, children = parent + step)
pub fn read_output(out: &str, step: usize) -> Result<Vec<Sk>, String> {
    let ls = split_lines(out)?;
    let mut pos = 0;
    let mut nest = vec![];
    let items = read_items(&ls, &mut pos, 0, &mut nest)?;
    if pos != ls.len() { return Err(format!("line {}: not consumed (indentation {})", pos + 1, ls[pos].indent)); }
    for (p, c) in nest { if c != p + step { return Err(format!("nested block at indentation {c} under a line at {p}: step is {step}")); } }
    Ok(items)
}

// ------------------------------------------------------------------------------------------------
// expected tree from the real AST (operands through their `Display`, heads assembled here)

fn is_hopon(n: &ast::New<'_>) -> Option<String> {
    if let (ast::NewArgument::Stream(s), ast::Instruction::New(n2)) = (&n.argument, &n.instruction) {
        if let (ast::NewArgument::CanonStream(c), ast::Instruction::Canon(cn)) = (&n2.argument, &n2.instruction) {
            let shadows = matches!(&cn.peer_id, ast::ResolvableToPeerIdVariable::CanonStreamWithLambda(x) if x.name == c.name);
            if cn.stream.name == s.name && cn.canon_stream.name == c.name && !shadows { return Some(format!("{}", cn.peer_id)); }
        }
    }
    None
}

pub fn tree_of_ast(i: &ast::Instruction<'_>, patterns: bool, out: &mut Vec<Sk>, kinds: &mut Vec<&'static str>) {
    use ast::Instruction as I;
    let sub = |x: &ast::Instruction<'_>, kinds: &mut Vec<&'static str>| { let mut v = vec![]; tree_of_ast(x, patterns, &mut v, kinds); v };
    match i {
        I::Seq(s) => { kinds.push("seq"); tree_of_ast(&s.0, patterns, out, kinds); tree_of_ast(&s.1, patterns, out, kinds); }
        I::Par(p) => { kinds.push("par"); let a = sub(&p.0, kinds); let b = sub(&p.1, kinds); out.push(Sk::Par(a, b)); }
        I::Xor(p) => { kinds.push("xor"); let a = sub(&p.0, kinds); let b = sub(&p.1, kinds); out.push(Sk::Xor(a, b)); }
        I::Match(m) => { kinds.push("match"); let b = sub(&m.instruction, kinds); out.push(Sk::Block { head: format!("match {} {}", m.left_value, m.right_value), body: b, last: None }); }
        I::MisMatch(m) => { kinds.push("mismatch"); let b = sub(&m.instruction, kinds); out.push(Sk::Block { head: format!("mismatch {} {}", m.left_value, m.right_value), body: b, last: None }); }
        I::FoldScalar(f) => { kinds.push(if f.last_instruction.is_some() { "fold_scalar_last" } else { "fold_scalar" }); let b = sub(&f.instruction, kinds); let l = f.last_instruction.as_ref().map(|x| sub(x, kinds));
            out.push(Sk::Block { head: format!("fold {} {}", f.iterable, f.iterator), body: b, last: l }); }
        I::FoldStream(f) => { kinds.push(if f.last_instruction.is_some() { "fold_stream_last" } else { "fold_stream" }); let b = sub(&f.instruction, kinds); let l = f.last_instruction.as_ref().map(|x| sub(x, kinds));
            out.push(Sk::Block { head: format!("fold {} {}", f.iterable, f.iterator), body: b, last: l }); }
        I::FoldStreamMap(f) => { kinds.push(if f.last_instruction.is_some() { "fold_map_last" } else { "fold_map" }); let b = sub(&f.instruction, kinds); let l = f.last_instruction.as_ref().map(|x| sub(x, kinds));
            out.push(Sk::Block { head: format!("fold {} {}", f.iterable, f.iterator), body: b, last: l }); }
        I::New(n) => {
            if patterns { if let Some(peer) = is_hopon(n) { kinds.push("hopon"); out.push(Sk::Instr(format!("hopon {peer}"))); return; } }
            kinds.push("new"); let b = sub(&n.instruction, kinds); out.push(Sk::Block { head: format!("new {}", n.argument.name()), body: b, last: None });
        }
        I::Call(c) => {
            kinds.push("call");
            let o = match &c.output { ast::CallOutputValue::Scalar(s) => Some(s.name.to_string()), ast::CallOutputValue::Stream(s) => Some(s.name.to_string()), ast::CallOutputValue::None => None };
            out.push(Sk::Call { out: o, peer: format!("{}", c.triplet.peer_id), svc: format!("{}", c.triplet.service_id), func: format!("{}", c.triplet.function_name),
                args: c.args.iter().map(|a| format!("{a}")).collect() });
        }
        I::Ap(a) => { kinds.push("ap"); out.push(Sk::Instr(format!("ap {} {}", a.argument, a.result.name()))); }
        I::ApMap(a) => { kinds.push("ap_map"); out.push(Sk::Instr(format!("ap ({} {}) {}", a.key, a.value, a.map.name))); }
        I::Canon(c) => { kinds.push("canon"); out.push(Sk::Instr(format!("canon {} {} {}", c.peer_id, c.stream.name, c.canon_stream.name))); }
        I::CanonMap(c) => { kinds.push("canon_map"); out.push(Sk::Instr(format!("canon {} {} {}", c.peer_id, c.stream_map.name, c.canon_stream_map.name))); }
        I::CanonStreamMapScalar(c) => { kinds.push("canon_map_scalar"); out.push(Sk::Instr(format!("canon {} {} {}", c.peer_id, c.stream_map.name, c.scalar.name))); }
        I::Fail(f) => { kinds.push("fail"); out.push(Sk::Instr(match &**f {
            ast::Fail::Scalar(s) => format!("fail {}", s.name), ast::Fail::ScalarWithLambda(s) => format!("fail {}{}", s.name, s.lambda),
            ast::Fail::Literal { ret_code, error_message } => format!("fail {ret_code} \"{error_message}\""),
            ast::Fail::CanonStreamWithLambda(s) => format!("fail {}{}", s.name, s.lambda), ast::Fail::LastError => "fail %last_error%".into(), ast::Fail::Error => "fail :error:".into() })); }
        I::Next(n) => { kinds.push("next"); out.push(Sk::Instr(format!("next {}", n.iterator.name))); }
        I::Null(_) => { kinds.push("null"); out.push(Sk::Instr("null".into())); }
        I::Never(_) => { kinds.push("never"); out.push(Sk::Instr("never".into())); }
        I::Error => { kinds.push("error"); out.push(Sk::Instr("error".into())); }
    }
}

// ------------------------------------------------------------------------------------------------
// generator of accepted scripts with the expected rendering of every operand

#[derive(Clone, Debug)]
pub struct Op { src: String, disp: String }
fn op(s: &str) -> Op { Op { src: s.to_string(), disp: s.to_string() } }

#[derive(Clone, Debug)]
pub enum G {
    Call { peer: Op, svc: Op, func: Op, args: Vec<Op>, out: Option<String> },
    Seq(Box<G>, Box<G>),
    Par(Box<G>, Box<G>),
    Xor(Box<G>, Box<G>),
    /// `(src)` printed on one line as `disp`
    Simple { src: String, disp: String },
    /// `(src_head body [last])` printed as `head:` + nested lines
    Block { src_head: String, head: String, body: Box<G>, last: Option<Box<G>> },
    /// `(new $s (new #c (canon peer $s #c)))`
    Hop { peer: Op, stream: String, canon: String },
}

impl G {
    fn write(&self, o: &mut String, rng: &mut Rng, fancy_ws: bool) {
        let ws = |o: &mut String, rng: &mut Rng| {
            if !fancy_ws { o.push(' '); return; }
            match rng.below(12) { 0 => o.push_str("\n"), 1 => o.push_str("  "), 2 => o.push_str("\n    "), 3 => o.push_str(" ; a comment (with parens\n "), 4 => o.push('\t'), _ => o.push(' ') }
        };
        match self {
            G::Call { peer, svc, func, args, out } => {
                o.push_str("(call"); ws(o, rng); o.push_str(&peer.src); ws(o, rng); o.push('('); o.push_str(&svc.src); ws(o, rng); o.push_str(&func.src); o.push(')'); ws(o, rng); o.push('[');
                for (k, a) in args.iter().enumerate() { if k > 0 { ws(o, rng); } o.push_str(&a.src); }
                o.push(']'); if let Some(n) = out { ws(o, rng); o.push_str(n); } o.push(')');
            }
            G::Seq(l, r) => { o.push_str("(seq"); ws(o, rng); l.write(o, rng, fancy_ws); ws(o, rng); r.write(o, rng, fancy_ws); o.push(')'); }
            G::Par(l, r) => { o.push_str("(par"); ws(o, rng); l.write(o, rng, fancy_ws); ws(o, rng); r.write(o, rng, fancy_ws); o.push(')'); }
            G::Xor(l, r) => { o.push_str("(xor"); ws(o, rng); l.write(o, rng, fancy_ws); ws(o, rng); r.write(o, rng, fancy_ws); o.push(')'); }
            G::Simple { src, .. } => { o.push('('); o.push_str(src); o.push(')'); }
            G::Block { src_head, body, last, .. } => { o.push('('); o.push_str(src_head); ws(o, rng); body.write(o, rng, fancy_ws); if let Some(l) = last { ws(o, rng); l.write(o, rng, fancy_ws); } o.push(')'); }
            G::Hop { peer, stream, canon } => { o.push_str(&format!("(new {stream}")); ws(o, rng); o.push_str(&format!("(new {canon}")); ws(o, rng); o.push_str(&format!("(canon {} {stream} {canon})))", peer.src)); }
        }
    }
    pub fn tree(&self, patterns: bool, out: &mut Vec<Sk>) {
        let sub = |g: &G| { let mut v = vec![]; g.tree(patterns, &mut v); v };
        match self {
            G::Call { peer, svc, func, args, out: o } => out.push(Sk::Call { out: o.clone(), peer: peer.disp.clone(), svc: svc.disp.clone(), func: func.disp.clone(), args: args.iter().map(|a| a.disp.clone()).collect() }),
            G::Seq(l, r) => { l.tree(patterns, out); r.tree(patterns, out); }
            G::Par(l, r) => out.push(Sk::Par(sub(l), sub(r))),
            G::Xor(l, r) => out.push(Sk::Xor(sub(l), sub(r))),
            G::Simple { disp, .. } => out.push(Sk::Instr(disp.clone())),
            G::Block { head, body, last, .. } => out.push(Sk::Block { head: head.clone(), body: sub(body), last: last.as_ref().map(|l| sub(l)) }),
            G::Hop { peer, stream, canon } => {
                if patterns { out.push(Sk::Instr(format!("hopon {}", peer.disp))); }
                else { out.push(Sk::Block { head: format!("new {stream}"), body: vec![Sk::Block { head: format!("new {canon}"), body: vec![Sk::Instr(format!("canon {} {stream} {canon}", peer.disp))], last: None }], last: None }); }
            }
        }
    }
}

#[derive(Default, Clone)]
struct Env { scalars: Vec<String>, canons: Vec<String>, canon_maps: Vec<String>, streams: Vec<String>, maps: Vec<String> }

pub struct Gen<'a> { rng: &'a mut Rng, counter: usize, env: Env, max_depth: usize,
    /// allow the operand forms behind the known findings (integral floats)
    pub integral_floats: bool, pub used_integral_float: bool }

const NAME_STEMS: &[&str] = &["x", "v", "res", "é", "名", "-a", "1b", "a_b-c", "--", "_", "X9", "ß-", "peer_id", "call_", "nullx", "par-", "lastx", "i", "Ω"];
const LIT_CHARS: &[&str] = &["a", "b", "Z", "0", "9", " ", "  ", ",", ", ", "(", ")", "[", "]", "<-", " <- call ", ":", "|", "par:", "last:", "catch:", "\\", "\\n", "'", "\t", "é", "名前", "😀", "$", "#", "%", ".", "!", ";", "{", "}", "-", "_", "/", "=", "12D3KooW"];

impl<'a> Gen<'a> {
    pub fn new(rng: &'a mut Rng, max_depth: usize) -> Self { Gen { rng, counter: 0, env: Env::default(), max_depth, integral_floats: false, used_integral_float: false } }
    fn fresh(&mut self, sigil: &str) -> String { self.counter += 1; let stem = *self.rng.pick(NAME_STEMS); format!("{sigil}{stem}{}", self.counter) }
    fn literal(&mut self) -> Op {
        let n = match self.rng.below(10) { 0 => 0, 1..=6 => 1 + self.rng.below(4), _ => 4 + self.rng.below(12) };
        let mut s = String::new();
        for _ in 0..n { let c = *self.rng.pick(LIT_CHARS); if self.integral_floats && c == "." { continue; } s.push_str(c); }
        let t = format!("\"{s}\""); Op { src: t.clone(), disp: t }
    }
    fn int(&mut self) -> Op {
        let v: i64 = match self.rng.below(10) { 0 => 0, 1 => i64::MAX, 2 => i64::MIN, 3 => -1, 4 => self.rng.range(-1_000_000_000_000, 1_000_000_000_000), _ => self.rng.range(-50, 50) };
        let disp = v.to_string();
        let src = match self.rng.below(8) { 0 if v >= 0 => format!("+{v}"), 1 if v >= 0 => format!("00{v}"), 2 if v == 0 => "-0".to_string(), _ => disp.clone() };
        Op { src, disp }
    }
    fn float(&mut self) -> Op {
        // decimal texts of at most 11 characters (the lexer's limit); canonical form = no sign '+', no redundant zeros
        let ip = match self.rng.below(4) { 0 => 0, 1 => self.rng.below(10) as u64, 2 => self.rng.below(1000) as u64, _ => self.rng.below(99999) as u64 };
        let nd = 1 + self.rng.below(3);
        let mut frac = String::new();
        for k in 0..nd { let dgt = if k == nd - 1 { 1 + self.rng.below(9) } else { self.rng.below(10) }; frac.push(char::from(b'0' + dgt as u8)); }
        let neg = self.rng.chance(1, 3);
        if self.integral_floats && self.rng.chance(1, 2) {
            self.used_integral_float = true;
            let disp = format!("{}{ip}.0", if neg && ip != 0 { "-" } else { "" });
            let src = match self.rng.below(3) { 0 => format!("{}{ip}.", if neg && ip != 0 { "-" } else { "" }), 1 => format!("{}{ip}.00", if neg && ip != 0 { "-" } else { "" }), _ => disp.clone() };
            return Op { src, disp };
        }
        let disp = format!("{}{ip}.{frac}", if neg { "-" } else { "" });
        let src = match self.rng.below(6) { 0 if !neg => format!("+{ip}.{frac}"), 1 if disp.len() < 11 => format!("{disp}0"), 2 if disp.len() < 11 && !neg => format!("0{disp}"), _ => disp.clone() };
        Op { src, disp }
    }
    /// a lens: (source text, printed text)
    fn lens(&mut self) -> (String, String) {
        if self.rng.chance(1, 6) { return (".length".into(), ".length".into()); }
        let n = 1 + self.rng.below(4);
        let (mut src, mut disp) = (String::from(".$"), String::from(".$"));
        for k in 0..n {
            match self.rng.below(3) {
                0 => { let idx = match self.rng.below(5) { 0 => 0, 1 => u32::MAX as u64, _ => self.rng.below(40) as u64 }; let dot = self.rng.chance(1, 2);
                    src.push_str(&format!("{}[{idx}]", if dot { "." } else { "" })); disp.push_str(&format!(".[{idx}]")); }
                1 if !self.env.scalars.is_empty() => { let s = self.rng.pick(&self.env.scalars).clone(); let dot = self.rng.chance(1, 2);
                    if s.chars().next().map(|c| c.is_ascii_digit()).unwrap_or(true) || !s.is_ascii() { src.push_str(".fld"); disp.push_str(".fld"); }
                    else { src.push_str(&format!("{}[{s}]", if dot { "." } else { "" })); disp.push_str(&format!(".[{s}]")); } }
                _ => { let f = *self.rng.pick(&["a", "field_1", "error_code", "message", "peer-id", "length", "x9", "_", "B"]); src.push_str(&format!(".{f}")); disp.push_str(&format!(".{f}")); }
            }
            if k == n - 1 && self.rng.chance(1, 6) { src.push('!'); }
        }
        (src, disp)
    }
    fn with_lens(&mut self, name: &str) -> Op { let (s, d) = self.lens(); Op { src: format!("{name}{s}"), disp: format!("{name}{d}") } }
    fn err_like(&mut self, base: &str) -> Op { if self.rng.chance(1, 2) { op(base) } else { self.with_lens(base) } }
    /// `Value` (call arguments, match operands)
    fn value(&mut self) -> Op {
        let r = self.rng.below(20);
        match r {
            0 => op("%init_peer_id%"), 1 => op("%timestamp%"), 2 => op("%ttl%"), 3 => op("[]"), 4 => op(if self.rng.chance(1, 2) { "true" } else { "false" }),
            5 => self.err_like("%last_error%"), 6 => self.err_like(":error:"), 7 | 8 => self.literal(), 9 => self.int(), 10 => self.float(),
            11 | 12 if !self.env.scalars.is_empty() => { let n = self.rng.pick(&self.env.scalars).clone(); op(&n) }
            13 | 14 if !self.env.scalars.is_empty() => { let n = self.rng.pick(&self.env.scalars).clone(); self.with_lens(&n) }
            15 if !self.env.canons.is_empty() => { let n = self.rng.pick(&self.env.canons).clone(); op(&n) }
            16 if !self.env.canons.is_empty() => { let n = self.rng.pick(&self.env.canons).clone(); self.with_lens(&n) }
            17 if !self.env.canon_maps.is_empty() => { let n = self.rng.pick(&self.env.canon_maps).clone(); op(&n) }
            18 if !self.env.canon_maps.is_empty() => { let n = self.rng.pick(&self.env.canon_maps).clone(); self.with_lens(&n) }
            _ => if self.rng.chance(1, 2) { self.literal() } else { self.int() },
        }
    }
    /// `ApArgument`: a value, except a canon stream map without lens
    fn ap_arg(&mut self) -> Op { loop { let v = self.value(); if !self.env.canon_maps.contains(&v.src) { return v; } } }
    /// ResolvableToPeerId / ResolvableToString
    fn resolvable(&mut self, peer: bool) -> Op {
        match self.rng.below(10) {
            0 if peer => op("%init_peer_id%"),
            1 | 2 if !self.env.scalars.is_empty() => { let n = self.rng.pick(&self.env.scalars).clone(); op(&n) }
            3 if !self.env.scalars.is_empty() => { let n = self.rng.pick(&self.env.scalars).clone(); self.with_lens(&n) }
            4 if !self.env.canons.is_empty() => { let n = self.rng.pick(&self.env.canons).clone(); self.with_lens(&n) }
            5 if !self.env.canon_maps.is_empty() => { let n = self.rng.pick(&self.env.canon_maps).clone(); self.with_lens(&n) }
            _ => self.literal(),
        }
    }
    fn call(&mut self) -> G {
        let peer = self.resolvable(true); let svc = self.resolvable(false); let func = self.resolvable(false);
        let n = match self.rng.below(6) { 0 => 0, 1 | 2 => 1, 3 => 2, 4 => 3, _ => 4 + self.rng.below(5) };
        let args = (0..n).map(|_| self.value()).collect();
        let out = match self.rng.below(5) { 0 | 1 => { let n = self.fresh(""); Some(n) }, 2 => { if !self.env.streams.is_empty() && self.rng.chance(1, 2) { Some(self.rng.pick(&self.env.streams).clone()) } else { Some(self.fresh("$")) } }, _ => None };
        if let Some(n) = &out { if n.starts_with('$') { if !self.env.streams.contains(n) { self.env.streams.push(n.clone()); } } else { self.env.scalars.push(n.clone()); } }
        G::Call { peer, svc, func, args, out }
    }
    fn simple(&mut self, iters: &[String]) -> G {
        match self.rng.below(14) {
            0 | 1 => { let a = self.ap_arg(); let (n, is_stream) = if self.rng.chance(1, 3) { (if !self.env.streams.is_empty() && self.rng.chance(1, 2) { self.rng.pick(&self.env.streams).clone() } else { self.fresh("$") }, true) } else { (self.fresh(""), false) };
                if is_stream { if !self.env.streams.contains(&n) { self.env.streams.push(n.clone()); } } else { self.env.scalars.push(n.clone()); }
                G::Simple { src: format!("ap {} {n}", a.src), disp: format!("ap {} {n}", a.disp) } }
            2 => { let key = match self.rng.below(5) { 0 => self.literal(), 1 => self.int(), 2 if !self.env.scalars.is_empty() => { let n = self.rng.pick(&self.env.scalars).clone(); op(&n) },
                    3 if !self.env.scalars.is_empty() => { let n = self.rng.pick(&self.env.scalars).clone(); self.with_lens(&n) }, 4 if !self.env.canons.is_empty() => { let n = self.rng.pick(&self.env.canons).clone(); self.with_lens(&n) }, _ => self.literal() };
                let v = self.ap_arg(); let m = if !self.env.maps.is_empty() && self.rng.chance(1, 2) { self.rng.pick(&self.env.maps).clone() } else { self.fresh("%") };
                if !self.env.maps.contains(&m) { self.env.maps.push(m.clone()); }
                G::Simple { src: format!("ap ({} {}) {m}", key.src, v.src), disp: format!("ap ({} {}) {m}", key.disp, v.disp) } }
            3 | 4 => { let p = self.resolvable(true); let s = if !self.env.streams.is_empty() && self.rng.chance(3, 4) { self.rng.pick(&self.env.streams).clone() } else { self.fresh("$") };
                let sig = if self.rng.chance(1, 4) { "#$" } else { "#" }; let c = self.fresh(sig); self.env.canons.push(c.clone());
                G::Simple { src: format!("canon {} {s} {c}", p.src), disp: format!("canon {} {s} {c}", p.disp) } }
            5 => { let p = self.resolvable(true); let m = if !self.env.maps.is_empty() && self.rng.chance(3, 4) { self.rng.pick(&self.env.maps).clone() } else { self.fresh("%") };
                if self.rng.chance(1, 2) { let c = self.fresh("#%"); self.env.canon_maps.push(c.clone()); G::Simple { src: format!("canon {} {m} {c}", p.src), disp: format!("canon {} {m} {c}", p.disp) } }
                else { let c = self.fresh(""); self.env.scalars.push(c.clone()); G::Simple { src: format!("canon {} {m} {c}", p.src), disp: format!("canon {} {m} {c}", p.disp) } } }
            6 => { match self.rng.below(6) {
                0 => G::Simple { src: "fail %last_error%".into(), disp: "fail %last_error%".into() },
                1 => G::Simple { src: "fail :error:".into(), disp: "fail :error:".into() },
                2 if !self.env.scalars.is_empty() => { let n = self.rng.pick(&self.env.scalars).clone(); G::Simple { src: format!("fail {n}"), disp: format!("fail {n}") } }
                3 if !self.env.scalars.is_empty() => { let n = self.rng.pick(&self.env.scalars).clone(); let o = self.with_lens(&n); G::Simple { src: format!("fail {}", o.src), disp: format!("fail {}", o.disp) } }
                4 if !self.env.canons.is_empty() => { let n = self.rng.pick(&self.env.canons).clone(); let o = self.with_lens(&n); G::Simple { src: format!("fail {}", o.src), disp: format!("fail {}", o.disp) } }
                _ => { let mut c = self.int(); if c.disp == "0" { c = op("1337"); } let m = self.literal(); G::Simple { src: format!("fail {} {}", c.src, m.src), disp: format!("fail {} {}", c.disp, m.disp) } } } }
            7 => G::Simple { src: "null".into(), disp: "null".into() },
            8 => G::Simple { src: "never".into(), disp: "never".into() },
            _ => { let _ = iters; self.call() }
        }
    }
    /// `next_for`: iterator of the innermost fold whose `next` has not been placed yet; `stream_fold`: nothing may follow `next`
    pub fn instr(&mut self, budget: usize, depth: usize, next_for: &mut Option<String>, tail: bool) -> G {
        if budget <= 1 || depth >= self.max_depth {
            if let Some(it) = next_for.clone() { if tail && self.rng.chance(1, 2) { *next_for = None; return G::Simple { src: format!("next {it}"), disp: format!("next {it}") }; } }
            return self.simple(&[]);
        }
        let r = self.rng.below(100);
        let split = |rng: &mut Rng| 1 + rng.below(budget - 1);
        if r < 34 {
            let lb = match self.rng.below(4) { 0 => 1, 1 => budget - 1, _ => split(self.rng) };
            // `next` may sit in either branch of a seq; in tail position only on the right (nothing may follow it in stream folds)
            let mut none = None;
            let l = if tail { self.instr(lb, depth + 1, &mut none, false) } else { self.instr(lb, depth + 1, &mut none, false) };
            let rr = self.instr(budget - lb, depth + 1, next_for, tail);
            G::Seq(Box::new(l), Box::new(rr))
        } else if r < 46 {
            let lb = split(self.rng); let mut none = None;
            let l = self.instr(lb, depth + 1, &mut none, false); let rr = self.instr(budget - lb, depth + 1, next_for, tail);
            G::Par(Box::new(l), Box::new(rr))
        } else if r < 56 {
            let lb = split(self.rng); let mut none = None;
            let l = self.instr(lb, depth + 1, &mut none, false); let rr = self.instr(budget - lb, depth + 1, next_for, tail);
            G::Xor(Box::new(l), Box::new(rr))
        } else if r < 66 {
            let a = self.value(); let b = if self.rng.chance(1, 3) { a.clone() } else { self.value() };
            let kw = if self.rng.chance(1, 2) { "match" } else { "mismatch" };
            let body = self.instr(budget - 1, depth + 1, next_for, tail);
            G::Block { src_head: format!("{kw} {} {}", a.src, b.src), head: format!("{kw} {} {}", a.disp, b.disp), body: Box::new(body), last: None }
        } else if r < 80 {
            // fold: scalar iterable / stream / stream map
            let it = self.fresh("");
            let (iterable, stream_like) = match self.rng.below(8) {
                0 => (op("[]"), false),
                1 if !self.env.scalars.is_empty() => { let n = self.rng.pick(&self.env.scalars).clone(); (op(&n), false) }
                2 if !self.env.scalars.is_empty() => { let n = self.rng.pick(&self.env.scalars).clone(); (self.with_lens(&n), false) }
                3 if !self.env.canons.is_empty() => { let n = self.rng.pick(&self.env.canons).clone(); (op(&n), false) }
                4 if !self.env.canon_maps.is_empty() => { let n = self.rng.pick(&self.env.canon_maps).clone(); if self.rng.chance(1, 2) { (op(&n), false) } else { (self.with_lens(&n), false) } }
                5 if !self.env.streams.is_empty() => { let n = self.rng.pick(&self.env.streams).clone(); (op(&n), true) }
                6 if !self.env.maps.is_empty() => { let n = self.rng.pick(&self.env.maps).clone(); (op(&n), true) }
                _ => (op("[]"), false),
            };
            let scalars_before = self.env.scalars.len();
            self.env.scalars.push(it.clone());
            let mut nf = Some(it.clone());
            let tail_next = stream_like || self.rng.chance(1, 2);
            let body = self.instr(budget.saturating_sub(2).max(1), depth + 1, &mut nf, tail_next);
            // the iterator is usable textually after the fold too, but keep it local
            self.env.scalars.retain(|s| s != &it); let _ = scalars_before;
            let last = if self.rng.chance(1, 3) { let mut none = None; let lb = 1 + self.rng.below(3); Some(Box::new(self.instr(lb, depth + 1, &mut none, false))) } else { None };
            G::Block { src_head: format!("fold {} {it}", iterable.src), head: format!("fold {} {it}", iterable.disp), body: Box::new(body), last }
        } else if r < 90 {
            // new (and the hop-on idiom and its near misses)
            let k = self.rng.below(10);
            if k < 3 {
                let s = self.fresh("$"); let c = self.fresh("#"); let peer = self.resolvable(true);
                match self.rng.below(6) {
                    0 => { // near miss: canon of another stream
                        let other = self.fresh("$");
                        G::Block { src_head: format!("new {s}"), head: format!("new {s}"), last: None, body: Box::new(G::Block { src_head: format!("new {c}"), head: format!("new {c}"), last: None,
                            body: Box::new(G::Simple { src: format!("canon {} {other} {c}", peer.src), disp: format!("canon {} {other} {c}", peer.disp) }) }) } }
                    1 => { // near miss: order of the two `new` swapped
                        G::Block { src_head: format!("new {c}"), head: format!("new {c}"), last: None, body: Box::new(G::Block { src_head: format!("new {s}"), head: format!("new {s}"), last: None,
                            body: Box::new(G::Simple { src: format!("canon {} {s} {c}", peer.src), disp: format!("canon {} {s} {c}", peer.disp) }) }) } }
                    2 => { // shadowing: the peer is read from the ephemeral canon stream itself — must stay a plain `new`
                        let (ls, ld) = self.lens();
                        G::Block { src_head: format!("new {s}"), head: format!("new {s}"), last: None, body: Box::new(G::Block { src_head: format!("new {c}"), head: format!("new {c}"), last: None,
                            body: Box::new(G::Simple { src: format!("canon {c}{ls} {s} {c}"), disp: format!("canon {c}{ld} {s} {c}") }) }) } }
                    _ => G::Hop { peer, stream: s, canon: c },
                }
            } else {
                let (sig, which) = match self.rng.below(5) { 0 => ("", 0), 1 => ("$", 1), 2 => ("%", 2), 3 => ("#", 3), _ => ("#%", 4) };
                let n = self.fresh(sig);
                match which { 0 => self.env.scalars.push(n.clone()), 1 => self.env.streams.push(n.clone()), 2 => self.env.maps.push(n.clone()), 3 => self.env.canons.push(n.clone()), _ => self.env.canon_maps.push(n.clone()) }
                let body = self.instr(budget - 1, depth + 1, next_for, tail);
                G::Block { src_head: format!("new {n}"), head: format!("new {n}"), body: Box::new(body), last: None }
            }
        } else {
            if let Some(it) = next_for.clone() { if tail && self.rng.chance(1, 2) { *next_for = None; return G::Simple { src: format!("next {it}"), disp: format!("next {it}") }; } }
            self.simple(&[])
        }
    }
}

fn g_text(g: &G, rng: &mut Rng, fancy: bool) -> String { let mut s = String::new(); g.write(&mut s, rng, fancy); s }

/// long chains and deep nests (shapes the random generator reaches rarely)
fn shaped(rng: &mut Rng, n: usize, kind: usize) -> G {
    let leaf = |k: usize| G::Simple { src: format!("ap {k} v{k}"), disp: format!("ap {k} v{k}") };
    let _ = &rng;
    match kind % 6 {
        0 => { let mut g = leaf(0); for k in 1..n { g = G::Seq(Box::new(g), Box::new(leaf(k))); } g }               // left-nested seq chain
        1 => { let mut g = leaf(0); for k in 1..n { g = G::Seq(Box::new(leaf(k)), Box::new(g)); } g }               // right-nested
        2 => { let mut g = leaf(0); for k in 1..n { g = match k % 3 { 0 => G::Par(Box::new(leaf(k)), Box::new(g)), 1 => G::Xor(Box::new(g), Box::new(leaf(k))), _ => G::Block { src_head: format!("new $s{k}"), head: format!("new $s{k}"), body: Box::new(g), last: None } }; } g }
        3 => { let mut g = leaf(0); for k in 1..n { g = G::Block { src_head: format!("fold [] i{k}"), head: format!("fold [] i{k}"), body: Box::new(G::Seq(Box::new(g), Box::new(G::Simple { src: format!("next i{k}"), disp: format!("next i{k}") }))), last: if k % 2 == 0 { Some(Box::new(leaf(k))) } else { None } }; } g }
        4 => { let mut g = leaf(0); for k in 1..n { g = G::Seq(Box::new(G::Par(Box::new(leaf(k)), Box::new(G::Seq(Box::new(leaf(k + 1000)), Box::new(leaf(k + 2000)))))), Box::new(g)); } g }
        _ => { let mut g = G::Hop { peer: op("\"relay\""), stream: "$e0".into(), canon: "#e0".into() }; for k in 1..n { g = G::Seq(Box::new(g), Box::new(G::Hop { peer: op(&format!("\"relay {k}\"")), stream: format!("$e{k}"), canon: format!("#e{k}") })); } g }
    }
}

// ------------------------------------------------------------------------------------------------
// checks

/// ask the model driver; if the driver is not there (the proof build broke) the direct oracle still runs
fn ask_model(ctx: &mut Ctx, rep: &mut Report, req: &Value) -> Option<Value> {
    static DEAD: std::sync::atomic::AtomicBool = std::sync::atomic::AtomicBool::new(false);
    if DEAD.load(std::sync::atomic::Ordering::Relaxed) { rep.unmodelled += 1; return None; }
    match std::panic::catch_unwind(std::panic::AssertUnwindSafe(|| ctx.driver.ask(req))) {
        Ok(v) => Some(v),
        Err(_) => { DEAD.store(true, std::sync::atomic::Ordering::Relaxed); rep.stat("model_driver_unavailable"); rep.unmodelled += 1; None }
    }
}

/// a known deviation: keep at most two reports per key in the list (the list is capped; new failures must stay visible)
fn known_fail(rep: &mut Report, key: &str, v: Value) {
    let n = rep.oracle_failures.iter().filter(|f| f["finding_key"] == json!(key)).count();
    rep.stat(&format!("known_finding:{key}"));
    if n < 2 { rep.oracle_fail(v); }
}

const KF_FLOAT: &str = "c28-integral-float-printed-as-integer";
const KF_NEWLINE: &str = "c28-newline-in-literal-splits-the-line";

struct Outcome { accepted: bool }

/// one script text (optionally with the generator's tree): all configurations
fn check_script(ctx: &mut Ctx, rep: &mut Report, air: &str, g: Option<&G>, origin: &str, known: Option<&str>) -> Outcome {
    // parser and beautifier must agree on acceptance, and neither may panic
    let air_owned = air.to_string();
    let parsed = std::panic::catch_unwind(move || air_parser::parse(&air_owned).map(|i| { let mut kinds = vec![]; let mut t0 = vec![]; let mut t1 = vec![]; tree_of_ast(&i, false, &mut t0, &mut kinds); let mut k2 = vec![]; tree_of_ast(&i, true, &mut t1, &mut k2); (ast_json(&i), t0, t1, kinds) })).map_err(panic_msg);
    // accepted scripts that carry one of the known deviations (possible among mutants) are routed to the dedicated checks
    if let Ok(Ok(((_, integral, newline), ..))) = &parsed {
        if *newline { check_known_newline(ctx, rep, air); return Outcome { accepted: true }; }
        if *integral > 0 && known.is_none() { rep.stat("accepted_script_with_integral_float"); return check_script(ctx, rep, air, g, origin, Some(KF_FLOAT)); }
    }
    let configs: Vec<(bool, usize)> = if ctx.thorough { vec![(false, 4), (true, 4), (false, 2), (true, 1), (false, 0), (true, 7)] } else { vec![(false, 4), (true, 4), (true, 2), (false, 1), (false, 0)] };
    let mut accepted = false;
    for (patterns, step) in configs {
        let real = beautify_real(air, patterns, step);
        let canon = format!("{air}|{patterns}|{step}");
        match (&parsed, &real) {
            (Err(pp), Err(bp)) => {
                rep.case(&canon, false, || json!({}));
                rep.stat("outcome:both_panic");
                rep.oracle_fail(json!({"why": format!("beautify panics: {bp}; the parser panics too: {pp}"), "input": {"air": air, "patterns": patterns, "step": step}, "origin": origin}));
                return Outcome { accepted: false };
            }
            (Err(pp), Ok(_)) => { rep.case(&canon, false, || json!({})); rep.oracle_fail(json!({"why": format!("air_parser::parse panics ({pp}) but beautify does not"), "input": {"air": air, "patterns": patterns, "step": step}})); return Outcome { accepted: false }; }
            (Ok(_), Err(bp)) => { rep.case(&canon, false, || json!({})); rep.oracle_fail(json!({"why": format!("beautify panics: {bp}"), "input": {"air": air, "patterns": patterns, "step": step}, "origin": origin})); return Outcome { accepted: false }; }
            (Ok(Err(perr)), Ok(r)) => {
                rep.case(&canon, false, || json!({}));
                rep.stat("outcome:rejected");
                // the parser lists undefined variables in HashMap order (layout of the diagnostic varies): compare the letters and digits as a multiset
                let bag = |x: &str| { let mut c: Vec<char> = x.chars().filter(|c| c.is_alphanumeric()).collect(); c.sort(); c };
                match r { Err(e) if bag(e) == bag(perr) => {}, Err(e) => rep.oracle_fail(json!({"why": "beautify reports another error than the parser", "parser": perr, "beautify": e, "input": {"air": air, "patterns": patterns, "step": step}})),
                    Ok(o) => rep.oracle_fail(json!({"why": "beautify produced output for a script the parser rejects", "output": o, "input": {"air": air, "patterns": patterns, "step": step}})) }
                if step == 4 { if let Ok(Ok(o)) = beautify_free(air, patterns) { rep.oracle_fail(json!({"why": "air_beautifier::beautify produced output for a rejected script", "output": o, "input": {"air": air}})); } }
            }
            (Ok(Ok(((astj, n_integral, _), t_plain, t_hop, kinds))), Ok(r)) => {
                accepted = true;
                let out = match r { Ok(o) => o.clone(), Err(e) => { rep.case(&canon, false, || json!({})); rep.oracle_fail(json!({"why": "beautify rejects a script the parser accepts", "error": e, "input": {"air": air, "patterns": patterns, "step": step}})); continue; } };
                let expect_ast = if patterns { t_hop } else { t_plain };
                let n_instr = count_nodes(expect_ast);
                rep.case(&canon, n_instr >= 2, || json!({"air": air.chars().take(300).collect::<String>(), "patterns": patterns, "step": step, "lines": out.lines().count()}));
                rep.stat("outcome:accepted");
                if patterns == false && step == 4 {
                    for k in kinds { rep.stat(&format!("instr:{k}")); }
                    rep.stat(&format!("size:{}", match n_instr { 0..=1 => "1", 2..=5 => "2-5", 6..=20 => "6-20", 21..=100 => "21-100", _ => ">100" }));
                    rep.stat(&format!("depth:{}", match depth_of(expect_ast) { 0 => "0", 1..=2 => "1-2", 3..=6 => "3-6", 7..=20 => "7-20", _ => ">20" }));
                    rep.stat(&format!("origin:{origin}"));
                }
                if patterns && t_hop != t_plain { rep.stat("hopon_pattern_rendered"); }
                // the free function with the default step is the same thing
                if step == 4 { match beautify_free(air, patterns) { Ok(Ok(o)) if o == out => {}, other => rep.oracle_fail(json!({"why": "air_beautifier::beautify differs from Beautifier::beautify with the default step", "free": format!("{other:?}").chars().take(400).collect::<String>(), "input": {"air": air, "patterns": patterns}})) } }
                // --- correspondence with the model
                let req = json!({"op": "beautify", "ast": astj, "step": step, "patterns": patterns, "real": out});
                if let Some(m) = ask_model(ctx, rep, &req) {
                rep.model_compared += 1;
                let brief = |m: &Value| json!({"text": m["text"], "wf": m["wf"], "lines_ok": m["lines_ok"], "read_model": m["read_model"], "read_real": m["read_real"], "flat_ok": m["flat_ok"], "operands_not_wf": m["operands_not_wf"], "operands_no_roundtrip": m["operands_no_roundtrip"], "error": m["error"], "protocol_error": m["protocol_error"]});
                let small_req = json!({"air": air, "step": step, "patterns": patterns});
                if m["text"].as_str() != Some(out.as_str()) {
                    rep.disagree(json!({"op": "beautify", "why": "output text differs", "request": small_req, "model": brief(&m), "implementation": out}));
                } else if step > 0 && known.is_none() {
                    // premises of the theorems and the model-side readers, on the real data
                    let ok = m["wf"] == json!(true) && m["lines_ok"] == json!(true) && m["read_model"] == json!(true) && m["read_real"] == json!(true) && m["flat_ok"] == json!(true)
                        && m["operands_not_wf"] == json!([]) && m["operands_no_roundtrip"] == json!([]);
                    if !ok { rep.disagree(json!({"op": "beautify", "why": "a premise of the C28 theorems (WF / valueWF) or a model-side reader fails on a real AST / real output", "request": small_req, "model": brief(&m), "skeleton": m["skeleton"], "read_real_tree": m["read_real_tree"], "implementation": out})); }
                    if m["instructions"].as_u64() != Some(n_instr as u64) { rep.disagree(json!({"op": "beautify", "why": "number of instructions: model listing vs walk of the real AST", "request": small_req, "model": m["instructions"], "implementation": n_instr})); }
                }
                if known == Some(KF_FLOAT) && step == 4 && !patterns {
                    // the deviation itself: the operands the model flags as not well-formed are exactly the integral floats, printed as integers
                    let bad: Vec<String> = m["operands_not_wf"].as_array().map(|a| a.iter().map(|x| x.as_str().unwrap_or("").to_string()).collect()).unwrap_or_default();
                    let explained = bad.len() == *n_integral && bad.iter().all(|t| t.trim_start_matches('-').chars().all(|c| c.is_ascii_digit()));
                    if explained && m["read_real"] == json!(true) && m["operands_no_roundtrip"] == json!([]) {
                        known_fail(rep, KF_FLOAT, json!({"finding_key": KF_FLOAT, "why": format!("{} float literal(s) with an integral value are printed as integers: {:?} (the beautified operand reads back as an integer, not the float of the script)", n_integral, bad), "input": {"air": air, "patterns": patterns, "step": step}, "output": out}));
                    } else { rep.disagree(json!({"op": "beautify", "why": "script with integral floats: something else than the known rendering differs", "request": small_req, "model": brief(&m)})); }
                }
                }
                // --- direct oracle
                if step == 0 { continue; } // a zero step erases the nesting (no property to read back); text correspondence only
                let fail = |rep: &mut Report, why: String| {
                    rep.oracle_fail(json!({"why": why, "input": {"air": air, "patterns": patterns, "step": step}, "output": out, "origin": origin}));
                };
                match read_output(&out, step) {
                    Err(e) => fail(rep, format!("the beautified text cannot be read back as an instruction tree: {e}")),
                    Ok(tree) => {
                        if let Some(d) = diff(&tree, expect_ast, "") { fail(rep, format!("tree read from the output differs from the parsed script (AST walk) at {d}")); }
                        else if let Some(g) = g {
                            let mut tg = vec![]; g.tree(patterns, &mut tg);
                            if let Some(d) = diff(&tree, &tg, "") { fail(rep, format!("tree read from the output differs from the generated script (source operands) at {d}")); }
                        }
                        let non_sep = out.lines().filter(|l| { let t = l.trim_start_matches(' '); t != "|" && t != "catch:" && t != "last:" }).count();
                        if non_sep != n_instr { fail(rep, format!("{non_sep} instruction lines for {n_instr} instructions")); }
                    }
                }
            }
        }
    }
    Outcome { accepted }
}

fn mutate(rng: &mut Rng, s: &str) -> String {
    let cs: Vec<char> = s.chars().collect();
    if cs.is_empty() { return "(".into(); }
    let mut out = cs.clone();
    let n = 1 + rng.below(3);
    for _ in 0..n {
        if out.is_empty() { break; }
        let i = rng.below(out.len());
        match rng.below(9) {
            0 => { out.remove(i); }
            1 => { let c = *rng.pick(&['(', ')', '[', ']', '"', '$', '#', '%', '.', '!', ':', ' ', '\n', '-', '+', '0', 'x', ';', ',', '\'']); out.insert(i, c); }
            2 => { let j = rng.below(out.len()); out.swap(i, j); }
            3 => { out.truncate(i); }
            4 => { let c = out[i]; out.insert(i, c); }
            5 => { let w: Vec<char> = rng.pick(&["seq", "par", "xor", "next", "null", "fold", "new", "call", "canon", "ap", "match", "fail", "%last_error%", ":error:", ".$.", ".length", "[]", "0", "true"]).chars().collect(); for (k, c) in w.iter().enumerate() { out.insert((i + k).min(out.len()), *c); } }
            6 => { let j = (i + 1 + rng.below(12)).min(out.len()); out.drain(i..j); }
            7 => { out[i] = *rng.pick(&['(', ')', '"', ' ', 'a', '1']); }
            _ => { let j = (i + 1 + rng.below(20)).min(out.len()); let seg: Vec<char> = out[i..j].to_vec(); for (k, c) in seg.iter().enumerate() { out.insert(j + k, *c); } }
        }
    }
    out.into_iter().collect()
}

const REJECTED_SEEDS: &[&str] = &[
    "", " ", "(", ")", "()", "(seq)", "(seq (null))", "(seq (null) (null) (null))", "(null) (null)", "null", "(nul)", "(call)", "(call \"p\" (\"s\" \"f\") [)",
    "(call \"p\" (\"s\" \"f\") [] x y)", "(call \"p\" (\"s\") [])", "(call \"p (\"s\" \"f\") [])", "(ap x y)", "(ap 1 #c)", "(ap 1 #%c)", "(next i)", "(fold [] i (seq (next i) (next i)))",
    "(fold [] i (fold [] i (null)))", "(new i (fold [] i (null)))", "(seq (ap 1 $s) (fold $s i (seq (next i) (null))))", "(fail 0 \"x\")", "(fail 1)", "(fail \"x\" 1)", "(match 1)", "(match 1 2)",
    "(xor (null))", "(par (null) (null) (null))", "(canon \"p\" $s)", "(canon \"p\" #c $s)", "(canon \"p\" %m $s)", "(ap (\"k\" 1) $s)", "(ap ($s 1) %m)", "(ap 1.5.5 x)", "(ap .5 x)", "(ap 123456789.12 x)",
    "(ap 99999999999999999999 x)", "(ap x.$ y)", "(ap %last_error%. y)", "(ap :error:x y)", "(call \"p\" (\"s\" \"f\") [$s])", "(call \"p\" (\"s\" \"f\") [%m])", "(new \"x\" (null))", "(new 1 (null))",
    "(seq (null) (null)", "(seq (null) (null)))", "(hopon \"relay\")", "(try (null) (null))", "; only a comment", "(seq ; comment\n (null) (nul))", "\"", "(ap \"unterminated x)", "(ap 1 x.$.a)", "(fold x i (null))",
    "(ap 1 $)", "(ap 1 #)", "(ap 1 #$)", "(ap 1 %)", "(ap 1 $.a)", "(ap 1 -)", "(ap - x)", "(ap + x)", "(ap x! y)", "(seq (ap 1 x) (ap x.$.a!b y))", "(seq (ap 1 x) (ap x.$.[a y))", "(seq (ap 1 x) (ap x.$.[1.5] y))",
    "(seq (ap 1 x) (ap x.$.[99999999999] y))", "(seq (ap 1 x) (ap x.length.a y))", "(seq (ap 1 x) (ap x.$.. y))",
];

pub fn run(ctx: &mut Ctx, rep: &mut Report) {
    rep.rule = "case = (script text, hop-on patterns on/off, indent step in {4,2,1,0,7}); accepted scripts: generated with every instruction kind, all operand kinds, \
        lenses with every accessor form, literals with blanks/commas/brackets/'<-'/unicode, integers up to the i64 bounds, decimal floats, hop-on idiom and near misses, \
        deep nests and long seq chains, random source layout (newlines, tabs, comments); rejected: mutated scripts, fixed malformed seeds, garbage. \
        Per accepted case: real output == model output byte for byte; WF premises, Lean reader on the real output, operand round trip and depth listing all hold (driver); \
        direct oracle: Rust reader of the output -> tree == tree of the generator's script == walk of the real AST, child indentation = parent + step, one line per instruction. \
        Per rejected case: beautify returns the parser's error, no output, no panic. non-trivial = accepted with at least 2 instructions; distinct by hash of (text, patterns, step)".into();
    // replay of a recorded failure: `bin/check C28 --replay replays/C28-….json` re-checks exactly that script
    if let Some(path) = ctx.replay.clone() {
        let v: Value = serde_json::from_str(&std::fs::read_to_string(&path).expect("replay file")).expect("replay json");
        let inp = if v.get("failure").is_some() { v["failure"]["input"].clone() } else { v["input"].clone() };
        let air = inp["air"].as_str().expect("replay without input.air").to_string();
        println!("replaying {air}");
        for (p, st) in [(false, 4usize), (true, 4)] { println!("patterns={p}:\n{:?}", beautify_real(&air, p, st)); }
        check_script(ctx, rep, &air, None, "replay", None);
        return;
    }
    let mut rng = Rng::new(ctx.seed ^ 0xC28);
    let n_gen = if ctx.thorough { 12000 } else { 1500 };
    let mut accepted_texts: Vec<String> = vec![];
    // 1. generated accepted scripts (checked smallest first, so that the first failure reported is a small one)
    let mut scripts: Vec<(G, String)> = vec![];
    for k in 0..n_gen {
        let budget = match rng.below(10) { 0 => 1, 1..=5 => 2 + rng.below(10), 6..=8 => 10 + rng.below(40), _ => 40 + rng.below(if ctx.thorough { 400 } else { 120 }) };
        let max_depth = match rng.below(4) { 0 => 3, 1 => 8, _ => if ctx.thorough { 40 } else { 16 } };
        let mut r2 = rng.fork();
        let g = { let mut gen = Gen::new(&mut r2, max_depth); let mut none = None; gen.instr(budget, 0, &mut none, false) };
        let air = g_text(&g, &mut rng, k % 3 == 0);
        scripts.push((g, air));
    }
    scripts.sort_by_key(|(_, t)| t.len());
    for (k, (g, air)) in scripts.iter().enumerate() {
        let o = check_script(ctx, rep, air, Some(g), "generated", None);
        if o.accepted { if k % (n_gen / 400).max(1) == 0 { accepted_texts.push(air.clone()); } } else { rep.stat("generated_script_rejected_by_parser"); }
    }
    // 2. shapes: long chains, deep nests
    let shapes = if ctx.thorough { 60 } else { 12 };
    for k in 0..shapes {
        let n = if ctx.thorough { 50 + rng.below(700) } else { 20 + rng.below(150) };
        let g = shaped(&mut rng, n, k);
        let air = g_text(&g, &mut rng, false);
        check_script(ctx, rep, &air, Some(&g), "shaped", None);
    }
    // 3. repo examples: the beautifier's own test script
    if let Ok(t) = std::fs::read_to_string(std::env::var("AQUA_REPO").unwrap_or("/repo".into()) + "/crates/beautifier/src/tests/deeply_nested.air") { check_script(ctx, rep, &t, None, "repo_example", None); }
    // 4. known-finding streams (kept apart; each failure must be exactly the known deviation)
    for _ in 0..(if ctx.thorough { 40 } else { 8 }) {
        let mut r2 = rng.fork();
        let (g, used) = { let mut gen = Gen::new(&mut r2, 6); gen.integral_floats = true; let mut none = None; let g = G::Seq(Box::new(G::Simple { src: "ap 2.0 fl".into(), disp: "ap 2.0 fl".into() }), Box::new(gen.instr(12, 0, &mut none, false))); let _ = gen.used_integral_float; (g, true) };
        let air = g_text(&g, &mut rng, false);
        if used { check_known_float(ctx, rep, &air, &g); }
    }
    for lit in ["a\nb", "\n", "x\n    catch:", "q\n|"] {
        let air = format!("(seq (call \"{lit}\" (\"s\" \"f\") [\"{lit}\"] x) (xor (ap \"{lit}\" y) (null)))");
        check_known_newline(ctx, rep, &air);
    }
    // 5. rejected / malformed stream
    for s in REJECTED_SEEDS { let o = check_script(ctx, rep, s, None, "malformed_seed", None); if o.accepted { rep.stat("malformed_seed_accepted"); } }
    let n_mut = if ctx.thorough { 10000 } else { 1200 };
    for _ in 0..n_mut {
        let base = if accepted_texts.is_empty() { "(null)".to_string() } else { rng.pick(&accepted_texts).clone() };
        let base = if base.chars().count() > 600 { base.chars().take(600).collect() } else { base };
        let m = mutate(&mut rng, &base);
        let o = check_script(ctx, rep, &m, None, "mutated", None);
        rep.stat(if o.accepted { "mutant_accepted" } else { "mutant_rejected" });
    }
    // non-ASCII characters inside a lens: regression for the slicing panic of the lambda lexer (fixed by 5981066)
    for air in ["(seq (ap 1 x) (ap x.$.é y))", "(seq (ap 1 x) (call \"p\" (\"s\" \"f\") [x.$.a.名]))", "(ap %last_error%.$.ü y)"] {
        check_script(ctx, rep, air, None, "non_ascii_lens", None);
    }
}

/// integral float literals: the generator expects `N.0` (as in the script), the only deviation allowed is `N`
fn check_known_float(ctx: &mut Ctx, rep: &mut Report, air: &str, g: &G) {
    check_script(ctx, rep, air, None, "integral_floats", Some(KF_FLOAT));
    let out = match beautify_real(air, false, 4) { Ok(Ok(o)) => o, other => { rep.oracle_fail(json!({"why": format!("script with integral floats: {other:?}"), "input": {"air": air}})); return; } };
    let mut tg = vec![]; g.tree(false, &mut tg);
    match read_output(&out, 4) {
        Err(e) => rep.oracle_fail(json!({"why": format!("cannot read back: {e}"), "input": {"air": air}, "output": out})),
        Ok(tree) => {
            if let Some(d) = diff(&tree, &tg, "") {
                // accept exactly: every `N.0` of the expected tree printed as `N`
                fn strip(t: &mut Vec<Sk>) { for n in t.iter_mut() { match n {
                    Sk::Instr(s) => *s = strip_s(s), Sk::Call { peer, svc, func, args, .. } => { *peer = strip_s(peer); *svc = strip_s(svc); *func = strip_s(func); for a in args.iter_mut() { *a = strip_s(a); } }
                    Sk::Par(a, b) | Sk::Xor(a, b) => { strip(a); strip(b); } Sk::Block { head, body, last } => { *head = strip_s(head); strip(body); if let Some(l) = last { strip(l); } } } } }
                fn strip_s(s: &str) -> String { s.split(' ').map(|w| { let (core, tail) = if let Some(c) = w.strip_suffix(')') { (c, ")") } else { (w, "") }; let core2 = core.strip_prefix('(').unwrap_or(core); let pre = if core2.len() != core.len() { "(" } else { "" };
                    if let Some(ip) = core2.strip_suffix(".0") { if !ip.is_empty() && ip.trim_start_matches('-').chars().all(|c| c.is_ascii_digit()) && !core2.starts_with('"') { return format!("{pre}{ip}{tail}"); } } w.to_string() }).collect::<Vec<_>>().join(" ") }
                let mut t2 = tg.clone(); strip(&mut t2);
                if diff(&tree, &t2, "").is_some() { rep.oracle_fail(json!({"why": format!("tree differs from the generated script beyond the integral-float rendering: {d}"), "input": {"air": air}, "output": out})); }
            } else { rep.stat("integral_float_stream_without_deviation"); }
        }
    }
}

/// a literal containing a line break: the only deviation allowed is the break inside that literal —
/// the twin script (break replaced by U+0001) must pass every check and differ from the output only there
fn check_known_newline(ctx: &mut Ctx, rep: &mut Report, air: &str) {
    rep.case(&format!("{air}|newline"), true, || json!({"air": air, "stream": "newline in literal"}));
    rep.stat("script_with_line_break_in_literal");
    let twin = newline_twin(air);
    let before = rep.oracle_failures.len() + rep.disagreements.len();
    let o = check_script(ctx, rep, &twin, None, "newline_twin", None);
    if !o.accepted || rep.oracle_failures.len() + rep.disagreements.len() != before { rep.oracle_fail(json!({"why": "twin of a script with a line break in a literal fails", "input": {"air": twin}})); return; }
    for (patterns, step) in [(false, 4usize), (true, 2)] {
        match (beautify_real(air, patterns, step), beautify_real(&twin, patterns, step)) {
            (Ok(Ok(o)), Ok(Ok(t))) => {
                if t.replace('\u{1}', "\n") != o { rep.oracle_fail(json!({"why": "output for a literal with a line break differs from the twin script beyond the literal", "input": {"air": air, "patterns": patterns, "step": step}, "output": o, "twin_output": t})); }
                else { let how = match read_output(&o, step) { Err(e) => format!("the output cannot be read back ({e})"), Ok(_) => "the output reads back as another tree".to_string() };
                    known_fail(rep, KF_NEWLINE, json!({"finding_key": KF_NEWLINE, "why": format!("a string literal containing a line break is printed raw: the instruction no longer occupies one line; {how}"), "input": {"air": air, "patterns": patterns, "step": step}, "output": o})); }
            }
            other => rep.oracle_fail(json!({"why": format!("literal with line break: {other:?}").chars().take(500).collect::<String>(), "input": {"air": air, "patterns": patterns, "step": step}})),
        }
    }
}
