//! History-level direct oracles (C02–C10, C19, C20): every step of simulated honest multi-peer histories of
//! generated scripts is checked against an executable statement of the property, written independently
//! of the Lean model.
use crate::facts::*;
use crate::gen_codes as codes;
use crate::host::*;
use crate::script::*;
use crate::sim::*;
use crate::util::*;
use crate::Ctx;
use air_interpreter_interface::{CallResults, CallServiceResult};
use serde_json::{json, Value};
use std::collections::BTreeMap;

pub struct Hist { pub script: Instr, pub air: String, pub net: Net, pub seed: u64 }

pub fn peers_for(n: usize) -> Vec<Peer> { ["a", "b", "c", "d", "e"].iter().take(n).map(|n| Peer::new(n)).collect() }

pub fn gen_history(rng: &mut Rng, streams: bool, fragment: bool, budget: usize, max_steps: usize) -> Hist {
    let n_peers = 3 + rng.below(3);
    let peers = peers_for(n_peers);
    let ids: Vec<String> = peers.iter().map(|p| p.id.clone()).collect();
    let cfg = GenCfg { peers: ids, streams, fragment, budget, failing_services: true };
    let ids2 = cfg.peers.clone();
    let use_template = streams && rng.chance(1, 2);
    let mut g = Gen::new(rng, cfg);
    let mut script = g.script();
    // avoid degenerate one-instruction scripts most of the time
    let mut tries = 0;
    while script.size() < 3 && tries < 5 { script = g.script(); tries += 1; }
    if use_template { script = template(rng, &ids2); }
    let air = script.text();
    let seed = rng.next();
    let mut net = Net::new(&air, &peers, &format!("particle-{seed:x}"));
    let mut r2 = Rng::new(seed);
    net.run_random(&mut r2, max_steps);
    Hist { script, air, net, seed }
}

pub fn step_json(net: &Net, st: &StepRecord) -> Value {
    json!({"air": net.air, "particle": net.particle, "peer": net.peers[st.peer].peer.name, "step": st.step, "event": st.event,
           "prev_hex": hex(&st.prev), "cur_hex": hex(&st.cur),
           "results": st.results.iter().map(|(k, v)| (k.clone(), json!({"ret_code": v.ret_code, "result": v.result}))).collect::<BTreeMap<_, _>>(),
           "outcome": outcome_brief(&st.outcome), "init_peer": net.peers[net.init].peer.name,
           "peers": net.peers.iter().map(|p| p.peer.name.clone()).collect::<Vec<_>>()})
}

fn is_prep(c: i64) -> bool { (1..=9999).contains(&c) }
fn is_catchable(c: i64) -> bool { (10000..=19999).contains(&c) }
fn is_uncatchable(c: i64) -> bool { (20000..=29999).contains(&c) }

/// what kind of history a property wants
pub struct Plan { pub histories: usize, pub streams_every: usize, pub budget: usize, pub max_steps: usize, pub fragment: bool }

pub fn plan(ctx: &Ctx, quick: usize, thorough: usize) -> Plan {
    Plan { histories: if ctx.thorough { thorough } else { quick }, streams_every: 2, budget: 12, max_steps: 60, fragment: false }
}

pub fn note_history(rep: &mut Report, h: &Hist) {
    for k in h.script.kinds() { rep.stat(&format!("instr_{k}")); }
    rep.stat_n("steps", h.net.log.len() as u64);
    for st in &h.net.log { rep.stat(&format!("ret_{}", codes::name_of(st.outcome.ret_code))); }
    if h.net.quiescent() { rep.stat("histories_quiescent"); } else { rep.stat("histories_cut_at_step_budget"); }
}

// ---------------------------------------------------------------- C02

pub fn check_c02_step(net: &Net, st: &StepRecord) -> Option<String> {
    let o = &st.outcome;
    let c = o.ret_code;
    if is_prep(c) || is_uncatchable(c) {
        if o.data != st.prev { return Some(format!("code {c} ({}) but the returned data is not the previous data byte-for-byte", codes::name_of(c))); }
        if !o.next_peer_pks.is_empty() { return Some(format!("code {c} but next_peer_pks = {:?}", o.next_peer_pks)); }
        match decode_requests(&o.call_requests) { Some(r) if r.is_empty() => {}, _ => return Some(format!("code {c} but call requests are not the empty map")) }
    } else if c == 0 || is_catchable(c) || c == 30000 {
        let f = match facts(&o.data) { Some(f) => f, None => return Some(format!("code {c} but the returned data is empty or does not decode")) };
        let reqs = match decode_requests(&o.call_requests) { Some(r) => r, None => return Some(format!("code {c} but call requests do not decode")) };
        // everything executed in this run is in the data: every new request is recorded as sent by this peer under its id
        let me = &net.peer_ids[st.peer];
        for id in reqs.keys() {
            if !f.trace.iter().any(|s| matches!(s, St::Sent(p, Some(i)) if p == me && *i == *id as u64)) {
                return Some(format!("code {c}: request {id} was handed to the host but the data has no sent-by entry for it"));
            }
        }
        // results applied in this run are in the data: consumed ids no longer pending
        if let Some(pf) = facts(&st.prev) {
            for (id, _) in &st.results {
                let idn: u64 = id.parse().unwrap_or(u64::MAX);
                let was_pending = pf.trace.iter().any(|s| matches!(s, St::Sent(p, Some(i)) if p == me && *i == idn));
                let still = f.trace.iter().any(|s| matches!(s, St::Sent(p, Some(i)) if p == me && *i == idn));
                if was_pending && still && c == 0 { return Some(format!("code 0: result for pending request {id} was supplied but the data still shows the request as pending")); }
            }
        }
    } else {
        return Some(format!("return code {c} is outside every documented range"));
    }
    None
}

/// faulty runs injected into a history (the host contract keeps whatever data comes back)
pub fn inject_fault(net: &mut Net, rng: &mut Rng) -> Option<String> {
    if net.log.is_empty() { return None; }
    let p = rng.below(net.peers.len());
    let donor = net.log[rng.below(net.log.len())].outcome.data.clone();
    let kind = rng.below(10);
    let mut results = CallResults::new();
    if kind >= 7 {
        // structure-aware tampering: trace edited, stores and signatures left consistent
        let (cur, what) = crate::tamper::tamper_structure(&donor, rng)?;
        net.run_peer(p, &cur, results, format!("fault:structure({what})"));
        return Some("structure".into());
    }
    let cur: Vec<u8> = match kind {
        0 => { let mut d = donor.clone(); if d.is_empty() { return None; } let i = rng.below(d.len()); d[i] ^= 1 << rng.below(8); d }       // bit flip
        1 => { let mut d = donor.clone(); let n = d.len(); d.truncate(n / 2); d }                                                        // truncation
        2 => vec![0xc1; 1 + rng.below(9)],                                                                                                  // garbage
        3 => { results.insert(format!("{}", 1000 + rng.below(50)), CallServiceResult::ok(&json!("late"))); vec![] }                       // unknown id
        4 => { // stale id: a result for a request already answered
            let ids: Vec<u32> = net.peers[p].invocations.iter().map(|i| i.id).filter(|i| !net.peers[p].pending.contains_key(i)).collect();
            if ids.is_empty() { return None; }
            results.insert(ids[rng.below(ids.len())].to_string(), CallServiceResult::ok(&json!("stale"))); vec![] }
        5 => { // data of another particle
            let f = &net.log[0];
            let o = crate::host::run(&RunArgs { air: &net.air, prev: &[], cur: &[], init_peer_id: &net.peer_ids[net.init], peer: &net.peers[f.peer].peer, particle_id: "other-particle",
                                   timestamp: net.timestamp, ttl: net.ttl, results: &CallResults::new(), limits: Limits::unlimited() });
            o.data }
        _ => { // old interpreter version in an otherwise valid envelope
            match air_interpreter_data::InterpreterDataEnvelope::try_from_slice(&donor) {
                Ok(env) => { let mut o = vec![]; crate::mp::map_header(&mut o, 3); crate::mp::str_(&mut o, b"version"); crate::mp::str_(&mut o, env.versions.data_version.to_string().as_bytes());
                    crate::mp::str_(&mut o, b"interpreter_version"); crate::mp::str_(&mut o, b"0.60.0"); crate::mp::str_(&mut o, b"inner_data"); crate::mp::bin(&mut o, &env.inner_data); o }
                Err(_) => return None }
        }
    };
    let name = ["bitflip", "truncate", "garbage", "unknown-id", "stale-id", "other-particle", "old-version"][kind];
    net.run_peer(p, &cur, results, format!("fault:{name}"));
    // faults must not put messages of corrupted runs on the wire beyond what the interpreter asked for (it asked for none on failure)
    Some(name.to_string())
}

// ---------------------------------------------------------------- C03

pub fn check_c03_data(net: &Net, data: &[u8], observer: &Peer) -> Option<String> {
    use air_interpreter_data::verification::DataVerifier;
    let (versions, d) = match decode_data(data) { Some(x) => x, None => return Some("produced data does not decode".into()) };
    if &versions.interpreter_version < air::min_supported_version() { return Some(format!("produced data carries unsupported version {}", versions.interpreter_version)); }
    if let Err(e) = d.cid_info.verify() { return Some(format!("CID store of the produced data does not verify: {e}")); }
    // every CID referenced by the trace is present (DataVerifier::new panics on a missing one)
    let salt = net.particle.clone();
    let r = std::panic::catch_unwind(std::panic::AssertUnwindSafe(|| {
        match DataVerifier::new(&d, &salt) { Ok(v) => v.verify().map_err(|e| format!("signature check of the produced data fails: {e}")), Err(e) => Err(format!("signature store inconsistent: {e}")) }
    }));
    match r { Ok(Ok(())) => {}, Ok(Err(e)) => return Some(e), Err(_) => return Some("a CID referenced by the trace is missing from the CID store (verifier panicked)".into()) }
    // another peer accepts it as current data
    let o = crate::host::run(&RunArgs { air: &net.air, prev: &[], cur: data, init_peer_id: &net.peer_ids[net.init], peer: observer, particle_id: &net.particle,
                           timestamp: net.timestamp, ttl: net.ttl, results: &CallResults::new(), limits: Limits::unlimited() });
    if is_prep(o.ret_code) { return Some(format!("another peer rejects the produced data with preparation error {} ({}): {}", o.ret_code, codes::name_of(o.ret_code), o.error_message.chars().take(200).collect::<String>())); }
    None
}

// ---------------------------------------------------------------- C04

pub fn check_c04_step(st: &StepRecord) -> Option<String> {
    let c = st.outcome.ret_code;
    let bad = ["TraceError", "ValueForCidNotFound", "InstructionParametersMismatch", "StreamDontHaveSuchGeneration", "GenerationCompactificationError",
               "CallResultNotCorrespondToInstr", "MalformedCallServiceFailed", "FoldStateNotFound"];
    for b in bad { if c == codes::uncatchable(b) { return Some(format!("honest run failed with {b} ({c}): {}", st.outcome.error_message.chars().take(300).collect::<String>())); } }
    for b in ["CidStoreVerificationError", "DataSignatureCheckError", "DataDeFailed", "EnvelopeDeFailed", "EnvelopeDeFailedWithVersions"] {
        if c == codes::prep(b) { return Some(format!("honest run failed with preparation error {b} ({c}): {}", st.outcome.error_message.chars().take(300).collect::<String>())); }
    }
    None
}

// ---------------------------------------------------------------- C05 / C06

fn out_kind_of(script: &Instr, func: &str) -> Option<Out> {
    let mut r = None;
    script.visit(&mut |i| if let Instr::Call { func: Val::Lit(f), out, .. } = i { if f == func { r = Some(out.clone()); } });
    r
}

/// at the end of a history: every delivered result is recorded exactly once at its call, every call issued at most once
pub fn check_c05_end(h: &Hist) -> Option<String> {
    for (pi, p) in h.net.peers.iter().enumerate() {
        let f = match facts(&p.prev) { Some(f) => f, None => { if p.invocations.is_empty() { continue; } else { return Some(format!("peer {} issued requests but holds no decodable data", p.peer.name)); } } };
        let me = &h.net.peer_ids[pi];
        // expected: one state per delivered invocation
        let mut expected: BTreeMap<String, usize> = BTreeMap::new();
        let mut expected_unused: BTreeMap<String, usize> = BTreeMap::new();
        for inv in &p.invocations {
            if p.pending.contains_key(&inv.id) { continue; }
            let arg_hash = air_interpreter_cid::value_to_json_cid(&inv.args).map(|c| c.get_inner().to_string()).unwrap_or_default();
            let out = out_kind_of(&h.script, &inv.function_name);
            let parsed: Option<Value> = serde_json::from_str(&inv.result.result).ok();
            if inv.result.ret_code != 0 || parsed.is_none() {
                *expected.entry(format!("failed|{}|{}|{}", inv.service_id, inv.function_name, arg_hash)).or_insert(0) += 1;
            } else if matches!(out, Some(Out::None)) {
                let cid = air_interpreter_cid::value_to_json_cid(&parsed.unwrap()).map(|c| c.get_inner().to_string()).unwrap_or_default();
                *expected_unused.entry(cid).or_insert(0) += 1;
            } else {
                *expected.entry(format!("ok|{}|{}|{}|{}", inv.service_id, inv.function_name, arg_hash, serde_json::to_string(&parsed.unwrap()).unwrap())).or_insert(0) += 1;
            }
        }
        let mut actual: BTreeMap<String, usize> = BTreeMap::new();
        let mut actual_unused: BTreeMap<String, usize> = BTreeMap::new();
        for s in &f.trace {
            match s {
                St::Scalar(c) | St::Stream(c, _) => if let Some((v, ah, t)) = f.service_result(c) { if &t.0 == me {
                    let vj: Value = serde_json::from_str(&v).unwrap_or(Value::Null);
                    *actual.entry(format!("ok|{}|{}|{}|{}", t.1, t.2, ah, serde_json::to_string(&vj).unwrap())).or_insert(0) += 1; } },
                St::Failed(c) => if let Some((_, ah, t)) = f.service_result(c) { if &t.0 == me { *actual.entry(format!("failed|{}|{}|{}", t.1, t.2, ah)).or_insert(0) += 1; } },
                St::Unused(c) => { *actual_unused.entry(c.clone()).or_insert(0) += 1; }
                _ => {}
            }
        }
        for (k, n) in &expected {
            let a = actual.get(k).cloned().unwrap_or(0);
            if a < *n { return Some(format!("peer {}: the host executed `{k}` {n} time(s) and returned the result(s), but the peer's data records it {a} time(s): a call was issued more than once or a result was lost", p.peer.name)); }
        }
        for (k, a) in &actual {
            let n = expected.get(k).cloned().unwrap_or(0);
            if *a > n { return Some(format!("peer {}: data records result `{k}` {a} time(s) but the host produced it {n} time(s)", p.peer.name)); }
        }
        for (k, n) in &expected_unused {
            if actual_unused.get(k).cloned().unwrap_or(0) < *n { return Some(format!("peer {}: {n} result(s) of a call without output (value id {k}) returned by the host are not all recorded", p.peer.name)); }
        }
    }
    None
}

pub fn check_c06_step(net: &Net, st: &StepRecord, max_before: u32) -> Option<String> {
    let mut ids = st.new_request_ids.clone();
    ids.sort();
    for w in ids.windows(2) { if w[0] == w[1] { return Some(format!("request id {} handed out twice in one run", w[0])); } }
    for id in &ids { if *id <= max_before { return Some(format!("request id {id} is not larger than an id handed out before on this peer for this particle ({max_before})")); } }
    let _ = net;
    None
}

// ---------------------------------------------------------------- C07

pub fn check_c07_step(net: &Net, st: &StepRecord) -> Option<String> {
    let c = &st.outcome;
    if !(c.ret_code == 0) { return None; }
    let fc = facts(&c.data)?;
    for (name, cur) in [("b", st.cur.clone()), ("a", st.prev.clone()), ("c", c.data.clone()), ("empty", vec![])] {
        let o = crate::host::run(&RunArgs { air: &net.air, prev: &c.data, cur: &cur, init_peer_id: &net.peer_ids[net.init], peer: &net.peers[st.peer].peer, particle_id: &net.particle,
                               timestamp: net.timestamp, ttl: net.ttl, results: &CallResults::new(), limits: Limits::unlimited() });
        let fo = match facts(&o.data) { Some(f) => f, None => return Some(format!("re-delivery of {name}: returned data does not decode (code {})", o.ret_code)) };
        if fo.trace != fc.trace { return Some(format!("re-delivery of {name} changed the trace (code {}): {} -> {} entries", o.ret_code, fc.trace.len(), fo.trace.len())); }
        let reqs = decode_requests(&o.call_requests).unwrap_or_default();
        if !reqs.is_empty() { return Some(format!("re-delivery of {name} issued {} call request(s)", reqs.len())); }
        if !o.next_peer_pks.is_empty() { return Some(format!("re-delivery of {name} sends the particle to {:?}", o.next_peer_pks)); }
    }
    None
}

// ---------------------------------------------------------------- C09

pub fn check_c09_step(st: &StepRecord) -> Option<String> {
    let c = st.outcome.ret_code;
    if !(c == 0 || is_catchable(c) || c == 30000) { return None; }
    let out = facts(&st.outcome.data)?;
    let outm = out.result_cids();
    for (name, bytes) in [("previous", &st.prev), ("current", &st.cur)] {
        if let Some(f) = facts(bytes) {
            if let Some(k) = multiset_le(&f.result_cids(), &outm) {
                return Some(format!("result {k:?} of the {name} data is missing from (or has fewer copies in) the produced data"));
            }
            // stored items only grow
            for store in ["value_store", "tetraplet_store", "service_result_store", "canon_result_store", "canon_element_store"] {
                if let (Some(a), Some(b)) = (f.store(store).as_object(), out.store(store).as_object()) {
                    for k in a.keys() { if !b.contains_key(k) { return Some(format!("{store} entry {k} of the {name} data is missing from the produced data")); } }
                }
            }
        }
    }
    None
}

// ---------------------------------------------------------------- C10

pub fn check_c10_data(data: &[u8]) -> Option<String> {
    let f = facts(data)?;
    wf_trace(&f.trace).err()
}

// ---------------------------------------------------------------- C19

pub fn check_c19_step(net: &Net, st: &StepRecord) -> Option<String> {
    let me = &net.peer_ids[st.peer];
    let o = &st.outcome;
    if o.next_peer_pks.contains(me) { return Some("the list of next peers contains the current peer".into()); }
    let mut s = o.next_peer_pks.clone(); s.sort(); let n = s.len(); s.dedup();
    if s.len() != n { return Some(format!("the list of next peers has duplicates: {:?}", o.next_peer_pks)); }
    // newly marked "sent by me" entries require a next peer
    if let Some(f) = facts(&o.data) {
        let count = |f: &Facts| f.trace.iter().filter(|x| matches!(x, St::Sent(p, None) if p == me) || matches!(x, St::CanonSent(p) if p == me)).count();
        let before = facts(&st.prev).map(|f| count(&f)).unwrap_or(0) + facts(&st.cur).map(|f| count(&f)).unwrap_or(0);
        // (whatever the return code: a run that fails catchably or reports unprocessed call results still returns the new data with
        //  its fresh marks, and whoever reads such a mark later assumes the marker forwarded the particle; a run that fails
        //  uncatchably returns the previous data, which holds no new mark)
        if count(&f) > before && o.next_peer_pks.is_empty() {
            return Some("the run marked a call/canon as sent to another peer but names no next peer".into());
        }
        // calls are executed only where they are addressed: a call result that is new in this run's data (neither in the previous
        // nor in the incoming data) was recorded by this peer, so the call it belongs to must be addressed to this peer
        let (pc, cc) = (facts(&st.prev).map(|f| f.result_cids()).unwrap_or_default(), facts(&st.cur).map(|f| f.result_cids()).unwrap_or_default());
        for ((kind, cid), n) in f.result_cids() {
            if kind != "call" && kind != "failed" { continue; }
            let known = pc.get(&(kind.clone(), cid.clone())).cloned().unwrap_or(0).max(cc.get(&(kind.clone(), cid.clone())).cloned().unwrap_or(0));
            if n > known {
                if let Some((_, _, (peer, svc, func, _))) = f.service_result(&cid) {
                    if &peer != me { return Some(format!("this run recorded a result of the call {peer} ({svc:?} {func:?}), which is addressed to another peer: calls run only where they are addressed")); }
                }
            }
        }
    }
    None
}

// ---------------------------------------------------------------- C20

/// a fresh map with the same entries (a new `RandomState`, hence possibly another iteration order)
fn rebuilt(r: &CallResults, extra: &[(&str, &str)]) -> CallResults {
    let mut keys: Vec<&String> = r.keys().collect(); keys.sort();
    let mut m = CallResults::new();
    for (k, v) in extra { m.insert(k.to_string(), CallServiceResult { ret_code: 0, result: v.to_string() }); }
    for k in keys.into_iter().rev() { m.insert(k.clone(), r[k].clone()); }
    m
}

pub fn check_c20_step(net: &Net, st: &StepRecord) -> Option<String> {
    let run_with = |results: &CallResults| crate::host::run(&RunArgs { air: &net.air, prev: &st.prev, cur: &st.cur, init_peer_id: &net.peer_ids[net.init], peer: &net.peers[st.peer].peer, particle_id: &net.particle,
                            timestamp: net.timestamp, ttl: net.ttl, results, limits: Limits::unlimited() });
    // the same inputs with several results that match no pending call: the run reports them (30000); repeated with freshly built maps
    let extra = [("900001", "1"), ("900002", "\"two\""), ("900003", "[3]"), ("900004", "null")];
    let (a, b) = (run_with(&rebuilt(&st.results, &extra)), run_with(&rebuilt(&st.results, &extra)));
    if a.ret_code != b.ret_code || a.error_message != b.error_message {
        return Some(format!("two runs on the same inputs (with unmatched call results) returned different code/message: {} {:?} vs {} {:?}", a.ret_code, a.error_message, b.ret_code, b.error_message));
    }
    let o2 = run_with(&rebuilt(&st.results, &[]));
    let o = &st.outcome;
    if o.ret_code != o2.ret_code { return Some(format!("two runs on the same inputs returned codes {} and {}", o.ret_code, o2.ret_code)); }
    if o.error_message != o2.error_message { return Some(format!("two runs on the same inputs returned different messages: {:?} vs {:?}", o.error_message, o2.error_message)); }
    if canon_data(&o.data) != canon_data(&o2.data) { return Some("two runs on the same inputs returned different decoded data".into()); }
    let (r1, r2) = (decode_requests(&o.call_requests), decode_requests(&o2.call_requests));
    match (r1, r2) {
        (Some(a), Some(b)) => {
            if a.len() != b.len() { return Some("two runs on the same inputs returned different call request sets".into()); }
            for (k, v) in &a { match b.get(k) { Some(w) if w == v => {}, _ => return Some(format!("two runs on the same inputs returned different call requests under id {k}")) } }
        }
        (None, None) => {}
        _ => return Some("call requests decode in one run only".into()),
    }
    let (mut n1, mut n2) = (o.next_peer_pks.clone(), o2.next_peer_pks.clone()); n1.sort(); n2.sort();
    if n1 != n2 { return Some("two runs on the same inputs returned different next-peer sets".into()); }
    None
}

/// the same step re-executed in a fresh process (new hash seeds, new allocator state): same canonical observation
pub fn check_c20_fresh_process(net: &Net, st: &StepRecord) -> Option<String> {
    let mut input = step_json(net, st);
    input["timestamp"] = json!(net.timestamp); input["ttl"] = json!(net.ttl);
    let path = std::env::temp_dir().join(format!("aqua_c20_{}_{}.json", std::process::id(), st.step));
    std::fs::write(&path, serde_json::to_string(&input).unwrap()).ok()?;
    let exe = std::env::current_exe().ok()?;
    let out = std::process::Command::new(exe).arg("rerun-step").arg(&path).output();
    let _ = std::fs::remove_file(&path);
    let out = match out { Ok(o) => o, Err(e) => return Some(format!("cannot re-execute in a fresh process: {e}")) };
    let line = String::from_utf8_lossy(&out.stdout).lines().last().unwrap_or("").to_string();
    let theirs: Value = match serde_json::from_str(&line) { Ok(v) => v, Err(_) => return Some(format!("fresh process died or printed no observation (status {:?})", out.status.code())) };
    let ours = crate::props::probe::canon_outcome(&st.outcome);
    if ours != theirs {
        let field = ["code", "msg", "data", "next", "requests", "requests_decode"].iter().find(|f| ours[**f] != theirs[**f]).cloned().unwrap_or("?");
        return Some(format!("the same step re-executed in a fresh process differs in `{field}`: {} vs {}", ours[field], theirs[field]));
    }
    None
}

// ---------------------------------------------------------------- known findings (see /verif/known_findings.json, DESIGN.md §11)

/// class of a failure, used to match entries of known_findings.json (never the property id alone)
pub fn finding_key(prop: &str, why: &str, input: &Value) -> Option<String> {
    let msg = input["outcome"]["error_message"].as_str().unwrap_or("");
    if prop == "C20" && why.contains("with unmatched call results") && why.contains("unprocessed call results") { return Some("unprocessed-call-results-message-in-hash-order".into()); }
    if prop == "C04" && why.contains("TraceError") && msg.contains("state from") && msg.contains("`Call(RequestSentBy(") && msg.contains("is incompatible with expected") {
        return Some("stale-request-state-consumed-by-another-instruction".into());
    }
    None
}

/// deterministic replays of the recorded findings: (property, script, number of peers, seed of the schedule)
pub fn known_scenarios(prop: &str) -> Vec<(String, usize, u64)> {
    let p = peers_for(5);
    match prop {
        // a call whose arguments were unresolved on the sender is recorded as sent; on the target its lens fails
        // catchably *before* the state is consumed; the xor fallback then reads the stale call state
        "C04" => vec![(format!(r#"(par (call "{d}" ("svc" "arrempty_1") [] v) (xor (call "{e}" ("svc" "str_2") [v.$.[0]] w) (ap "x" $s)))"#, d = p[3].id, e = p[4].id), 5, 1)],
        // regression scenario for the repaired defect (fix: commit in /repo): a call that failed inside a stream fold was replayed as
        // "subgraph incomplete" although the first failure left the subgraph complete, so the instructions after the fold were not
        // replayed and their pending requests vanished from the data
        "C07" | "C09" => vec![(format!(r#"(seq (ap 1 $s) (seq (fold $s i (seq (call "{a}" ("svc" "fail_1") [i]) (null))) (call "{a}" ("svc" "str_2") [] w)))"#, a = p[0].id), 3, 1)],
        _ => vec![],
    }
}

/// regression for a repaired defect (fix: commit in /repo): keys `"1"` and `1` of a stream map collide when a canon stream map is
/// turned into a JSON object; which group survived depended on hash iteration order, so the value handed to a service differed
/// between runs.  Now the groups are taken in the order in which the keys first occur, and the later one wins.
fn c20_canon_map_collision_probe(rep: &mut Report) {
    let a = Peer::new("a");
    for (air, want) in [
        (format!(r#"(seq (seq (ap ("1" "a") %m) (ap (1 "b") %m)) (seq (canon "{me}" %m #%c) (call "{me}" ("s" "id") [#%c])))"#, me = a.id), r#"[{"1":["b"]}]"#),
        (format!(r#"(seq (seq (ap (1 "b") %m) (seq (ap ("1" "a") %m) (ap (1 "c") %m))) (seq (canon "{me}" %m #%c) (call "{me}" ("s" "id") [#%c])))"#, me = a.id), r#"[{"1":["a"]}]"#),
        (format!(r#"(seq (seq (ap ("7" "x") %m) (seq (ap (7 "y") %m) (ap ("k" "z") %m))) (seq (canon "{me}" %m obj) (call "{me}" ("s" "id") [obj])))"#, me = a.id), r#"[{"7":"y","k":"z"}]"#),
    ] {
        let mut seen: Vec<String> = vec![];
        for _ in 0..64 {
            let o = crate::host::run(&RunArgs { air: &air, prev: &[], cur: &[], init_peer_id: &a.id, peer: &a, particle_id: "c20-probe", timestamp: 1, ttl: 1,
                                     results: &CallResults::new(), limits: Limits::unlimited() });
            rep.evaluations += 1;
            if let Some(reqs) = decode_requests(&o.call_requests) {
                for r in reqs.values() { let args = serde_json::to_string(&decode_args(r)).unwrap(); if !seen.contains(&args) { seen.push(args); } }
            }
        }
        rep.stat_n("c20_probe_distinct_service_arguments", seen.len() as u64);
        if seen.len() != 1 {
            rep.oracle_fail(json!({"why": format!("64 runs on identical inputs handed the service different arguments (or none): {}", seen.join(" / ")),
                "input": {"air": air, "prev_hex": "", "cur_hex": "", "results": {}}, "scenario": "canon map key collision (regression)"}));
        } else if seen[0] != want {
            rep.stat(&format!("c20_probe_collision_winner_differs_from_first_occurrence_order:{}", seen[0]));
        }
    }
}

/// Directed scenarios for the hash-backed structures the random generator does not produce (stream maps, canon maps,
/// folds over them, canon map lenses, wide fan-out): every step of a short random history is re-executed `reps` times on
/// identical inputs (each execution builds its maps afresh, i.e. with new hash seeds) and once in a fresh process.
fn c20_map_scenarios(rep: &mut Report, seed: u64, reps: usize) {
    let p = peers_for(4);
    let (a, b, c, d) = (&p[0].id, &p[1].id, &p[2].id, &p[3].id);
    let aps = r#"(seq (ap ("k1" "v1") %m) (seq (ap ("k2" "v2") %m) (seq (ap ("k3" "v3") %m) (seq (ap ("k4" "v4") %m) (ap ("k1" "v5") %m)))))"#;
    let scripts: Vec<(&str, String)> = vec![
        ("fold over a canon map, calls in the body, replayed from data", format!(r#"(seq {aps} (seq (canon "{a}" %m #%cm) (seq (fold #%cm it (seq (call "{a}" ("svc" "echo_1") [it]) (next it))) (seq (fold #%cm it2 (seq (call "{b}" ("svc" "echo_2") [it2]) (next it2))) (call "{c}" ("svc" "echo_3") [#%cm])))))"#)),
        ("fold over a stream map, calls in the body", format!(r#"(seq {aps} (seq (fold %m it (seq (call "{a}" ("svc" "echo_1") [it]) (next it))) (seq (call "{b}" ("svc" "str_2") [] w) (fold %m it2 (seq (call "{b}" ("svc" "echo_3") [it2]) (next it2))))))"#)),
        ("canon map into a scalar and lenses into a canon map", format!(r#"(seq {aps} (seq (canon "{a}" %m cms) (seq (canon "{a}" %m #%cm) (seq (call "{b}" ("svc" "echo_1") [cms]) (seq (call "{c}" ("svc" "echo_2") [#%cm.$.k1 #%cm.$.k3]) (call "{a}" ("svc" "echo_3") [#%cm.$.k2.[0]]))))))"#)),
        ("map filled from several peers, canonicalised elsewhere", format!(r#"(seq (seq (call "{a}" ("svc" "str_1") [] x) (seq (ap ("p" x) %m) (seq (call "{b}" ("svc" "str_2") [] y) (seq (ap ("q" y) %m) (seq (call "{c}" ("svc" "str_3") [] z) (ap ("r" z) %m)))))) (seq (canon "{d}" %m #%cm) (seq (fold #%cm it (seq (call "{d}" ("svc" "echo_4") [it]) (next it))) (call "{a}" ("svc" "echo_5") [#%cm]))))"#)),
        ("wide fan-out: many next peers and requests in one run", format!(r#"(seq (call "{a}" ("svc" "arr_1") [] l) (par (par (call "{b}" ("svc" "echo_2") [l]) (call "{c}" ("svc" "echo_3") [l])) (par (call "{d}" ("svc" "echo_4") [l]) (par (call "{a}" ("svc" "echo_5") [l]) (call "{a}" ("svc" "echo_6") [l])))))"#)),
        ("new-scoped map per fold iteration", format!(r#"(seq (call "{a}" ("svc" "arr_1") [] l) (fold l i (seq (new %n (seq (ap ("x" i) %n) (seq (ap ("y" i) %n) (seq (canon "{a}" %n #%cn) (call "{b}" ("svc" "echo_2") [#%cn]))))) (next i))))"#)),
    ];
    for (si, (what, air)) in scripts.iter().enumerate() {
        if air_parser::parse(air).is_err() { rep.stat("c20_map_scenario_rejected_by_parser"); rep.oracle_fail(json!({"why": format!("harness: directed C20 scenario does not parse: {what}"), "input": {"air": air}})); continue; }
        for round in 0..2u64 {
            let mut net = Net::new(air, &p, &format!("c20-map-{si}-{round}"));
            let mut r2 = Rng::new(seed ^ (si as u64 * 7919 + round * 104729));
            net.run_random(&mut r2, 60);
            rep.stat("c20_map_histories");
            for st in &net.log {
                rep.stat(&format!("c20_map_step_code:{}", st.outcome.ret_code));
                for k in 0..reps {
                    rep.evaluations += 1;
                    let why = if k == 0 { check_c20_fresh_process(&net, st) } else { check_c20_step(&net, st) };
                    if let Some(why) = why {
                        rep.oracle_fail(json!({"why": format!("{why} [directed scenario: {what}; step {} on peer {}]", st.step, net.peers[st.peer].peer.name), "input": step_json(&net, st), "scenario": "c20 map scenarios"}));
                        return;
                    }
                }
            }
        }
    }
}

/// Directed scripts for C02: runs whose failure (if any) would come from the END of the run — the farewell compaction of
/// global streams and the scope-end compaction of `new` streams read the trace positions the values carry — so that a value
/// entering a stream with a wrong position shows as "failed code, but the returned data is not the previous data".
/// Each script runs under a few random schedules; every step is checked with the C02 oracle.
fn c02_directed(rep: &mut Report, seed: u64) {
    let p = peers_for(3);
    let (a, b, c) = (&p[0].id, &p[1].id, &p[2].id);
    let scripts: Vec<String> = vec![
        format!(r#"(seq (call "{a}" ("svc" "arr_1") [] items) (fold items item (seq (ap item $s) (next item))))"#),
        format!(r#"(seq (call "{a}" ("svc" "arr_1") [] items) (seq (fold items item (seq (ap item $s) (next item))) (seq (canon "{a}" $s #c) (call "{b}" ("svc" "echo_2") [#c]))))"#),
        format!(r#"(seq (call "{a}" ("svc" "obj_1") [] o) (seq (fold o.$.arr item (seq (ap item $s) (seq (ap item.$.[0] $t) (next item)))) (call "{b}" ("svc" "str_2") [] $s)))"#),
        format!(r#"(seq (call "{b}" ("svc" "arr_1") [] items) (new $s (seq (fold items item (seq (ap item $s) (next item))) (seq (canon "{b}" $s #c) (call "{c}" ("svc" "echo_2") [#c])))))"#),
        format!(r#"(seq (call "{a}" ("svc" "arr_1") [] $s) (seq (call "{a}" ("svc" "arr_2") [] items) (seq (fold items i (seq (call "{b}" ("svc" "echo_3") [i] $s) (next i))) (fold $s j (seq (ap j $t) (next j))))))"#),
        format!(r#"(seq (call "{a}" ("svc" "arr_1") [] items) (par (fold items i (par (ap i $s) (next i))) (seq (ap "x" $s) (call "{c}" ("svc" "str_2") [] y))))"#),
    ];
    for (si, air) in scripts.iter().enumerate() {
        if air_parser::parse(air).is_err() { rep.oracle_fail(json!({"why": "harness: directed C02 script does not parse", "input": {"air": air}})); continue; }
        for round in 0..3u64 {
            let mut net = Net::new(air, &p, &format!("c02-directed-{si}-{round}"));
            let mut r2 = Rng::new(seed ^ (si as u64 * 6151 + round * 31337));
            net.run_random(&mut r2, 60);
            rep.stat("c02_directed_histories");
            for st in &net.log {
                rep.evaluations += 1;
                rep.stat(&format!("c02_directed_code:{}", st.outcome.ret_code));
                if let Some(why) = check_c02_step(&net, st) {
                    rep.oracle_fail(json!({"why": format!("{why} [directed script {si}, step {} on peer {}]", st.step, net.peers[st.peer].peer.name), "input": step_json(&net, st), "scenario": "c02 directed"}));
                    return;
                }
            }
        }
    }
}

/// Directed scripts for C19: a run that BOTH marks a call / canon as sent to another peer and ends with a non-zero return code
/// (a catchable failure at top level after a fire-and-forget `par`, an unprocessed call result), and fan-out to one peer twice.
fn c19_directed(rep: &mut Report, seed: u64) {
    let p = peers_for(3);
    let (a, b, c) = (&p[0].id, &p[1].id, &p[2].id);
    let scripts: Vec<String> = vec![
        format!(r#"(seq (call "{a}" ("svc" "obj_1") [] o) (seq (par (call "{b}" ("svc" "str_2") []) (null)) (ap o.$.missing y)))"#),
        format!(r#"(seq (call "{a}" ("svc" "str_1") [] s) (seq (par (call "{b}" ("svc" "str_2") [] x) (null)) (match s "nope" (null))))"#),
        format!(r#"(seq (par (call "{b}" ("svc" "str_1") []) (null)) (fail 7 "stop"))"#),
        format!(r#"(seq (seq (ap 1 $s) (par (canon "{c}" $s #cs) (null))) (seq (call "{a}" ("svc" "arr_2") [] l) (call "{a}" ("svc" "echo_3") [l.$.[9]])))"#),
        format!(r#"(par (call "{b}" ("svc" "str_1") [] x) (par (call "{b}" ("svc" "str_2") [] y) (call "{c}" ("svc" "echo_3") [x y])))"#),
    ];
    for (si, air) in scripts.iter().enumerate() {
        if air_parser::parse(air).is_err() { rep.oracle_fail(json!({"why": "harness: directed C19 script does not parse", "input": {"air": air}})); continue; }
        for round in 0..3u64 {
            let mut net = Net::new(air, &p, &format!("c19-directed-{si}-{round}"));
            let mut r2 = Rng::new(seed ^ (si as u64 * 4099 + round * 65537));
            net.run_random(&mut r2, 60);
            rep.stat("c19_directed_histories");
            for st in &net.log {
                rep.evaluations += 1;
                rep.stat(&format!("c19_directed_code:{}", st.outcome.ret_code));
                if let Some(why) = check_c19_step(&net, st) {
                    rep.oracle_fail(json!({"why": format!("{why} [directed script {si}, step {} on peer {}]", st.step, net.peers[st.peer].peer.name), "input": step_json(&net, st), "scenario": "c19 directed"}));
                    return;
                }
            }
        }
    }
}

/// C09 (and C07) on the directed fold scripts of the C08 check: streams filled by `ap` and by calls, folded with remote calls in
/// the body, so that different data know different results inside the same iterations
fn c09_directed(prop: &str, rep: &mut Report, seed: u64, rounds: u64) {
    let p = peers_for(4);
    let ids: Vec<String> = p.iter().map(|x| x.id.clone()).collect();
    for (si, air) in crate::props::c08::directed_scripts(&ids).iter().enumerate() {
        if air_parser::parse(air).is_err() { continue; }
        for round in 0..rounds {
            let mut net = Net::new(air, &p, &format!("c09-directed-{si}-{round}"));
            let mut r2 = Rng::new(seed ^ (si as u64 * 12289 + round * 786433));
            net.run_random(&mut r2, 80);
            rep.stat("c09_directed_histories");
            for st in &net.log {
                rep.evaluations += 1;
                let why = if prop == "C07" { check_c07_step(&net, st) } else { check_c09_step(st) };
                if let Some(why) = why {
                    rep.oracle_fail(json!({"why": format!("{why} [directed fold script {si}, step {} on peer {}]", st.step, net.peers[st.peer].peer.name), "input": step_json(&net, st), "scenario": "c09 directed"}));
                    return;
                }
            }
        }
    }
}

/// C04 on the stream / canon template families of the stream checks (several writers, canon at a designated peer with late
/// writers, par canons, folds, nested folds, maps): honest histories with races on canon peers and fan-in, which the general
/// generator produces rarely.  Known-finding classes of other properties (recursive folds) are not generated here.
fn c04_stream_templates(rep: &mut Report, seed: u64, n: usize) {
    use crate::props::strm::{gen_template, run_random_det, drain, peers_named, Family};
    let mut rng = Rng::new(seed ^ 0xC04_57);
    // directed: a race on the canon's peer — two writers in par branches both forward to the canon peer, whose canon is then used
    // elsewhere; the second branch's data arrives after the canon was executed and still says "canon requested"
    {
        let peers = peers_named(5);
        let (a, b, p, c) = (&peers[1].id, &peers[2].id, &peers[3].id, &peers[4].id);
        let scripts = [
            format!(r#"(seq (par (call "{a}" ("svc" "str_1") [] $s) (call "{b}" ("svc" "str_2") [] $s)) (seq (canon "{p}" $s #c) (call "{c}" ("svc" "echo_3") [#c])))"#),
            format!(r#"(seq (par (seq (call "{a}" ("svc" "str_1") [] $s) (null)) (seq (call "{b}" ("svc" "str_2") [] x) (ap x $s))) (seq (canon "{p}" $s #c) (seq (call "{c}" ("svc" "echo_3") [#c] y) (call "{p}" ("svc" "echo_4") [y #c]))))"#),
        ];
        for (si, air) in scripts.iter().enumerate() {
            for round in 0..(n / 4).max(10) {
                let mut net = Net::new(air, &peers, &format!("c04-canon-race-{si}-{round}"));
                let mut r2 = rng.fork();
                run_random_det(&mut net, &mut r2, 80);
                drain(&mut net, &mut r2, 200);
                rep.stat("c04_canon_race_histories");
                for st in &net.log {
                    rep.evaluations += 1;
                    if let Some(why) = check_c04_step(st) {
                        let input = step_json(&net, st);
                        rep.oracle_fail(json!({"why": format!("{why} [directed canon race {si}]"), "input": input, "finding_key": finding_key("C04", &why, &step_json(&net, st)), "scenario": "c04 canon race"}));
                        return;
                    }
                }
            }
        }
    }
    let fams = [Family::WritersCanon, Family::ParCanons, Family::WritersCanon, Family::FoldVisit, Family::NestedFolds, Family::StreamMap, Family::NewScopes];
    for k in 0..n {
        let n_peers = 3 + rng.below(3);
        let peers = peers_named(n_peers);
        let ids: Vec<String> = peers.iter().map(|p| p.id.clone()).collect();
        let t = gen_template(&mut rng, fams[k % fams.len()].clone(), &ids);
        if t.recursive { continue; }
        let mut net = Net::new(&t.air, &peers, &format!("c04-tpl-{k}"));
        net.init = rng.below(n_peers);
        let mut r2 = rng.fork();
        run_random_det(&mut net, &mut r2, 60);
        drain(&mut net, &mut r2, 200);
        rep.stat("c04_template_histories"); rep.stat(&format!("c04_template:{}", t.name.split('+').next().unwrap_or("?").split(':').next().unwrap_or("?")));
        for st in &net.log {
            rep.evaluations += 1;
            if let Some(why) = check_c04_step(st) {
                let input = step_json(&net, st);
                let key = finding_key("C04", &why, &input);
                rep.oracle_fail(json!({"why": format!("{why} [stream template {}]", t.name), "input": input, "finding_key": key, "scenario": "c04 stream templates"}));
                return;
            }
        }
    }
}

// ---------------------------------------------------------------- drivers

fn canon_case(h: &Hist) -> String { format!("{}|{}", h.air, h.net.log.iter().map(|s| format!("{}:{}:{}", s.peer, s.event, s.outcome.ret_code)).collect::<Vec<_>>().join(",")) }

pub fn run_property(prop: &str, ctx: &mut Ctx, rep: &mut Report) {
    let mut rng = Rng::new(ctx.seed ^ fnv(prop));
    let (quick, thorough) = match prop { "C07" => (60, 1500), "C03" => (80, 2500), "C20" => (80, 2500), _ => (150, 6000) };
    let mut pl = plan(ctx, quick, thorough);
    if matches!(prop, "C10" | "C12" | "C13" | "C09" | "C07") { pl.streams_every = 1; }
    rep.rule = format!("case = one step (run) of a simulated honest history of a generated script over 3-5 peers (random delivery order, duplicated deliveries, late/batched call results{}); \
        non-trivial = history with at least 2 runs; distinct by hash of (script, schedule of (peer,event,code))", if prop == "C02" { ", injected faulty runs" } else { "" });
    let observer = Peer::new("observer");
    // replay the recorded findings first
    for (air, n_peers, sseed) in known_scenarios(prop) {
        let peers = peers_for(n_peers);
        let mut net = Net::new(&air, &peers, "known-finding");
        let mut r2 = Rng::new(sseed);
        net.run_random(&mut r2, 40);
        for st in &net.log {
            let fail = match prop { "C04" => check_c04_step(st), "C07" => check_c07_step(&net, st), "C09" => check_c09_step(st), _ => None };
            if let Some(why) = fail {
                let input = step_json(&net, st);
                let key = finding_key(prop, &why, &input);
                rep.oracle_fail(json!({"why": why, "input": input, "finding_key": key, "scenario": "known-finding replay"}));
                break;
            }
        }
    }
    if prop == "C02" { c02_directed(rep, ctx.seed); }
    if prop == "C19" { c19_directed(rep, ctx.seed); }
    if prop == "C09" || prop == "C07" { c09_directed(prop, rep, ctx.seed, if ctx.thorough { 30 } else { 4 }); }
    if prop == "C04" { c04_stream_templates(rep, ctx.seed, if ctx.thorough { 1500 } else { 60 }); }
    if prop == "C20" { c20_canon_map_collision_probe(rep); c20_map_scenarios(rep, ctx.seed, if ctx.thorough { 24 } else { 8 }); }
    for hi in 0..pl.histories {
        let streams = pl.streams_every == 1 || hi % pl.streams_every == 1;
        let budget = 6 + rng.below(pl.budget); let mut h = gen_history(&mut rng, streams, pl.fragment, budget, pl.max_steps);
        if prop == "C02" || prop == "C06" {
            // continue the history with injected faults and more honest steps
            let mut r2 = rng.fork();
            for _ in 0..4 { inject_fault(&mut h.net, &mut r2); let mut k = 0; while k < 6 && h.net.random_step(&mut r2, (1, 8)) { k += 1; } }
        }
        note_history(rep, &h);
        // model correspondence on this property's projection (execution-stage model; scripts outside the modelled fragment are skipped and counted)
        let projection: Option<&[&str]> = match prop { "C05" => Some(&["code", "requests", "trace"]), "C06" => Some(&["code", "lcid", "requests"]), "C19" => Some(&["code", "next", "requests"]),
            "C04" => Some(&["code"]), "C07" | "C09" | "C10" => Some(&["code", "trace"]), "C03" => Some(&["code", "stores", "trace"]), "C20" => Some(&["code", "msg", "trace", "lcid", "next", "requests", "stores"]), _ => None };
        if let (Some(fields), Ok(ast)) = (projection, air_parser::parse(&h.air)) {
            let ast = serde_json::to_value(&ast).unwrap();
            for st in &h.net.log {
                if st.outcome.ret_code == PANIC_CODE || st.event.starts_with("fault") { continue; }
                let req = crate::props::execcorr::exec_request(&h.net, st, &ast);
                let m = ctx.driver.ask(&req);
                if m.get("unmodelled").is_some() { rep.unmodelled += 1; continue; }
                rep.model_compared += 1;
                if let Some(why) = crate::props::execcorr::compare_exec_projected(&m, &h.net, st, fields) {
                    rep.disagree(json!({"op": "exec", "projection": fields, "why": why, "air": h.air, "step": step_json(&h.net, st)}));
                }
            }
        }
        let canon = canon_case(&h);
        let nontrivial = h.net.log.len() >= 2;
        let n_steps = h.net.log.len();
        let mut max_id: BTreeMap<usize, u32> = BTreeMap::new();
        let mut first_fail: Option<(String, Value)> = None;
        for st in &h.net.log {
            rep.evaluations += 1;
            if st.outcome.ret_code == PANIC_CODE { rep.stat("interpreter_panics_skipped(C01)"); continue; }
            if prop == "C02" {
                // correspondence: the model of the staged runner, replaying this run's stage results, must produce the same outcome shape
                let o = &st.outcome;
                let lens: Vec<u64> = st.results.values().map(|r| r.result.len() as u64).collect();
                let req = json!({"op": "staged_run", "air": h.net.air, "cur_len": st.cur.len(), "result_lens": lens,
                    "ref": {"code": o.ret_code, "msg": o.error_message, "next": o.next_peer_pks, "requests": hex(&o.call_requests)},
                    "limits": {"air": u64::MAX, "particle": u64::MAX, "call_result": u64::MAX, "hard": false}});
                let m = ctx.driver.ask(&req);
                rep.model_compared += 1;
                let shape = if is_prep(o.ret_code) || is_uncatchable(o.ret_code) { "prev" } else { "ref" };
                let impl_shape_ok = if shape == "prev" { o.data == st.prev } else { !o.data.is_empty() };
                if m["data"].as_str() != Some(shape) || m["code"].as_i64() != Some(o.ret_code) || !impl_shape_ok && m["data"].as_str() == Some(shape) && false {
                    rep.disagree(json!({"op": "staged_run", "request": req, "model": m, "implementation": outcome_brief(o)}));
                }
                if shape == "prev" && m["requests"].as_str() != Some(hex(&o.call_requests).as_str()) {
                    rep.disagree(json!({"op": "staged_run(empty call requests)", "model": m, "implementation_requests": hex(&o.call_requests)}));
                }
            }
            let fail = match prop {
                "C02" => check_c02_step(&h.net, st),
                "C03" => { let c = st.outcome.ret_code; if (c == 0 || is_catchable(c) || c == 30000) && !st.event.starts_with("fault") { check_c03_data(&h.net, &st.outcome.data, &observer) } else { None } }
                "C04" => check_c04_step(st),
                "C06" => { let m = max_id.get(&st.peer).cloned().unwrap_or(0); let r = check_c06_step(&h.net, st, m);
                           if let Some(x) = st.new_request_ids.iter().max() { max_id.insert(st.peer, m.max(*x)); }
                           // unknown / stale ids must be reported, never silently dropped
                           if r.is_none() && st.event.starts_with("fault:unknown-id") && st.outcome.ret_code == 0 { Some("a result under an id that matches no pending call was silently dropped (code 0)".into()) } else { r } }
                "C07" => check_c07_step(&h.net, st),
                "C09" => if st.event.starts_with("fault") { None } else { check_c09_step(st) },
                "C10" => check_c10_data(&st.outcome.data),
                "C19" => check_c19_step(&h.net, st),
                "C20" => check_c20_step(&h.net, st).or_else(|| if (rep.evaluations % if ctx.thorough { 3 } else { 6 }) == 0 { rep.stat("fresh_process_reruns"); check_c20_fresh_process(&h.net, st) } else { None }),
                _ => None,
            };
            if let Some(why) = fail { if first_fail.is_none() { first_fail = Some((why, step_json(&h.net, st))); } }
        }
        if (prop == "C05" || prop == "C06") && first_fail.is_none() {
            // deliver everything that is still pending so that every returned result has been handed back
            let mut r2 = rng.fork();
            let mut k = 0; while k < 200 && h.net.random_step(&mut r2, (0, 1)) { k += 1; }
            if let Some(why) = check_c05_end(&h).map(|w| if prop == "C06" { format!("a result supplied under a request id did not reach the call that requested it: {w}") } else { w }) { first_fail = Some((why, json!({"air": h.air, "history_seed": h.seed, "steps": h.net.log.iter().map(|s| step_json(&h.net, s)).collect::<Vec<_>>() }))); }
        }
        rep.evaluations -= n_steps as u64; // count below through `case`
        for _ in 0..n_steps.max(1) - 1 { rep.evaluations += 1; }
        rep.case(&canon, nontrivial, || json!({"air": h.air, "peers": h.net.peers.len(), "steps": h.net.log.iter().map(|s| format!("{}:{}:{}", h.net.peers[s.peer].peer.name, s.event, s.outcome.ret_code)).collect::<Vec<_>>()}));
        if let Some((why, input)) = first_fail {
            let key = finding_key(prop, &why, &input);
            rep.oracle_fail(json!({"why": why, "input": input, "history_seed": h.seed, "finding_key": key}));
        }
    }
}
