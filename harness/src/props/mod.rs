pub mod common;
pub mod c21;
pub mod c22;
