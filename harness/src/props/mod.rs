pub mod common;
pub mod c21;
pub mod c22;
pub mod c15;
pub mod probe;
pub mod hist;
pub mod traceops;
pub mod execcorr;
