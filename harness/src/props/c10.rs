//! C10 — produced traces are structurally well formed.
//! (i)   direct oracle: `wf::wf_trace` (transcription of the Lean `wfTrace`) on every data produced in simulated
//!       histories of stream/fold-heavy scripts (a dedicated generator on top of the general one);
//! (ii)  the thing searched for is the thing proved: the Lean `wfTrace` (driver op `wf`) must give the same verdict,
//!       clause by clause, on every produced trace and on structurally mutated traces; mutation classes that
//!       break an exact equation of the definition must be rejected by both;
//! (iii) component correspondence: the real `air_trace_handler::TraceHandler` and the Lean replica are driven by the
//!       same executor-like operation sequences (nested par/fold, `next` in seq/par/xor position, recursive
//!       batches, early exits closed by `meet_generation_end`, re-runs that merge the previous result), answers
//!       and result traces are compared, and the oracle is applied to the real handler's result trace.
use crate::facts::*;
use crate::host::*;
use crate::props::hist::{peers_for, step_json};
use crate::sim::*;
use crate::util::*;
use crate::wf::{self, W};
use crate::Ctx;
use air_interpreter_data::*;
use air_trace_handler::merger::*;
use air_trace_handler::*;
use serde_json::{json, Value};
use std::collections::HashSet;

// ------------------------------------------------------------------------------------------------
// (i) scripts: a generator of stream/fold-heavy AIR

struct SGen<'a> { rng: &'a mut Rng, peers: Vec<String>, fn_counter: usize, iters: usize, folds: usize }

impl<'a> SGen<'a> {
    fn peer(&mut self) -> String { let i = self.rng.below(self.peers.len()); self.peers[i].clone() }
    fn func(&mut self, kind: &str) -> String { self.fn_counter += 1; format!("{kind}_{}", self.fn_counter) }
    fn stream(&mut self) -> String { (*self.rng.pick(&["$s", "$t", "$u"])).to_string() }

    /// a call; `arg` is a variable in scope (fold iterator) or none
    fn call(&mut self, arg: Option<&str>, folding: &[(String, String)]) -> String {
        let peer = if self.rng.chance(1, 3) { "%init_peer_id%".to_string() } else { format!("\"{}\"", self.peer()) };
        let kind = *self.rng.pick(&["str", "num", "echo", "echo", "fail", "arr", "str"]);
        let args = match (kind, arg) { ("echo", Some(a)) => a.to_string(), ("echo", None) => "\"e\"".into(), (_, Some(a)) if self.rng.chance(1, 3) => a.to_string(), _ => String::new() };
        // a call result appended to a stream that an enclosing fold iterates would recurse without bound
        let out = match self.rng.below(4) { 0 => String::new(), 1 => format!(" o{}", self.fn_counter + 1), _ => { let st = self.stream(); if folding.iter().any(|(fs, _)| *fs == st) { " $o".to_string() } else { format!(" {st}") } } };
        let f = self.func(kind);
        format!("(call {peer} (\"svc\" \"{f}\") [{args}]{out})")
    }

    /// an instruction without `next`; `folding` = (stream, iterator) pairs of the enclosing stream folds
    fn piece(&mut self, depth: usize, folding: &[(String, String)]) -> String {
        let it: Option<String> = folding.last().map(|x| x.1.clone());
        let r = self.rng.below(100);
        if depth >= 4 || r < 25 { return self.call(it.as_deref(), folding); }
        if r < 35 { let s = self.stream(); let arg = match &it { Some(i) if self.rng.chance(1, 2) => i.clone(), _ => format!("\"a{}\"", self.rng.below(3)) };
            // appending to a stream that is being folded recurses: guard it
            if let Some((_, i)) = folding.iter().find(|(fs, _)| *fs == s) { return format!("(match {i} \"a0\" (ap \"r{}\" {s}))", self.rng.below(2)); }
            return format!("(ap {arg} {s})"); }
        if r < 43 { let (a, b) = (self.piece(depth + 1, folding), self.piece(depth + 1, folding)); return format!("(seq {a} {b})"); }
        if r < 55 { let (a, b) = (self.piece(depth + 1, folding), self.piece(depth + 1, folding)); return format!("(par {a} {b})"); }
        if r < 65 { let (a, b) = (self.piece(depth + 1, folding), self.piece(depth + 1, folding)); return format!("(xor {a} {b})"); }
        if r < 70 { return match self.rng.below(3) { 0 => "(fail 7 \"stop\")".into(), 1 => "(fail %last_error%)".into(), _ => "(mismatch 1 1 (null))".into() }; }
        if r < 76 { let s = self.stream(); self.fn_counter += 1; let c = format!("#c{}", self.fn_counter); let p = self.peer();
            return format!("(seq (canon \"{p}\" {s} {c}) (call \"{}\" (\"svc\" \"{}\") [{c}]))", self.peer(), self.func("echo")); }
        if r < 84 { // new scope (shadows a stream inside the body)
            let s = self.stream();
            let inner: Vec<(String, String)> = folding.iter().filter(|(fs, _)| *fs != s).cloned().collect();
            let a = format!("(ap \"n{}\" {s})", self.rng.below(2));
            let b = if self.rng.chance(2, 3) { self.fold(depth + 1, &inner, Some(&s)) } else { self.piece(depth + 1, &inner) };
            return format!("(new {s} (seq {a} {b}))"); }
        self.fold(depth + 1, folding, None)
    }

    fn fold(&mut self, depth: usize, folding: &[(String, String)], over: Option<&str>) -> String {
        self.folds += 1;
        self.iters += 1;
        let i = format!("i{}", self.iters);
        let s = over.map(|x| x.to_string()).unwrap_or_else(|| self.stream());
        let mut inner: Vec<(String, String)> = folding.to_vec();
        inner.push((s.clone(), i.clone()));
        let x = self.piece(depth + 1, &inner);
        let handler = if self.rng.chance(1, 2) { format!("(ap \"h\" {})", { let st = self.stream(); if inner.iter().any(|(fs, _)| *fs == st) { "$h".to_string() } else { st } }) } else { "(null)".to_string() };
        let next = match self.rng.below(4) { 0 => format!("(xor (next {i}) {handler})"), _ => format!("(next {i})") };
        let body = match self.rng.below(10) {
            0..=3 => format!("(seq {x} {next})"),
            4..=6 => format!("(par {x} {next})"),
            7 => format!("(xor (seq {x} {next}) {handler})"),
            8 => next.clone(),
            _ => x,
        };
        let last = if self.rng.chance(1, 3) { let folding_last: Vec<(String, String)> = inner.clone(); format!(" {}", self.piece(depth + 2, &folding_last)) } else { String::new() };
        format!("(fold {s} {i} {body}{last})")
    }

    fn script(&mut self) -> String {
        // fill the streams from several peers / in par so that values come in different generations
        let mut fill: Vec<String> = vec![];
        let n = 3 + self.rng.below(3);
        for k in 0..n {
            // every stream is written somewhere before it is folded (the validator wants a definition)
            let s = if k < 3 { ["$s", "$t", "$u"][k].to_string() } else { self.stream() };
            fill.push(match self.rng.below(3) { 0 => format!("(ap \"a{}\" {s})", k % 3), 1 => format!("(call \"{}\" (\"svc\" \"{}\") [] {s})", self.peer(), self.func("str")), _ => format!("(call %init_peer_id% (\"svc\" \"{}\") [\"a{}\"] {s})", self.func("echo"), k % 2) });
        }
        let mut acc = fill.pop().unwrap();
        while let Some(f) = fill.pop() { acc = if self.rng.chance(1, 2) { format!("(par {f} {acc})") } else { format!("(seq {f} {acc})") }; }
        let mut main = self.fold(0, &[], None);
        for _ in 0..self.rng.below(3) {
            let more = if self.rng.chance(1, 2) { self.fold(0, &[], None) } else { self.piece(1, &[]) };
            main = match self.rng.below(3) { 0 => format!("(par {main} {more})"), 1 => format!("(xor {main} {more})"), _ => format!("(seq {main} {more})") };
        }
        format!("(seq {acc} {main})")
    }
}

// ------------------------------------------------------------------------------------------------
// (ii) Lean `wf` vs Rust `wf_trace`, mutations

fn clause_bools(w: &wf::Wf) -> Value { json!({"par": w.par.is_ok(), "fold": w.fold.is_ok(), "nesting": w.nesting.is_ok(), "value_pos": w.value_pos.is_ok(), "generations": w.generations.is_ok()}) }

/// asks the model; returns true when the verdicts agree on every clause
fn cross_check(ctx: &mut Ctx, rep: &mut Report, trace: &Value, what: &str) -> (bool, wf::Wf) {
    let t: Vec<W> = trace.as_array().map(|a| a.iter().map(wf::from_json).collect()).unwrap_or_default();
    let w = wf::wf_clauses(&t);
    let m = ctx.driver.ask(&json!({"op": "wf", "trace": trace}));
    if m.get("unmodelled").is_some() { rep.unmodelled += 1; return (true, w); }
    rep.model_compared += 1;
    let mine = clause_bools(&w);
    let agree = ["par", "fold", "nesting", "value_pos", "generations"].iter().all(|k| m[*k] == mine[*k]) && m["wf"] == json!(w.ok()) && m["first"].as_str() == Some(w.first().0);
    if !agree { rep.disagree(json!({"op": "wf", "what": what, "request": {"op": "wf", "trace": trace}, "model": m, "implementation": {"clauses": mine, "first": w.first().0, "why": w.first().1}})); }
    (agree, w)
}

/// one structural mutation of a serde-form trace; returns (class, must_be_rejected)
fn mutate(trace: &mut Vec<Value>, rng: &mut Rng) -> Option<(String, bool)> {
    let pars: Vec<usize> = trace.iter().enumerate().filter(|(_, s)| s.get("par").is_some()).map(|(i, _)| i).collect();
    let folds: Vec<usize> = trace.iter().enumerate().filter(|(_, s)| s.get("fold").map(|f| !f["lore"].as_array().map(|a| a.is_empty()).unwrap_or(true)).unwrap_or(false)).map(|(i, _)| i).collect();
    let values: Vec<usize> = trace.iter().enumerate().filter(|(_, s)| s.get("ap").is_some() || s["call"]["executed"].get("stream").is_some()).map(|(i, _)| i).collect();
    let pm = |rng: &mut Rng, x: u64| -> u64 { if x == 0 || rng.chance(1, 2) { x + 1 } else { x - 1 } };
    for _ in 0..8 {
        match rng.below(12) {
            0 | 1 if !pars.is_empty() => { // par size ±1
                let p = *rng.pick(&pars); let k = rng.below(2);
                let x = trace[p]["par"][k].as_u64().unwrap_or(0); trace[p]["par"][k] = json!(pm(rng, x));
                return Some(("par_size_pm1".into(), false)); }
            2 if !folds.is_empty() => { // lore begin ±1: breaks an exact equation `begin = cursor`
                let f = *rng.pick(&folds); let n = trace[f]["fold"]["lore"].as_array().unwrap().len(); let li = rng.below(n); let di = rng.below(2);
                let x = trace[f]["fold"]["lore"][li]["desc"][di]["pos"].as_u64().unwrap_or(0); trace[f]["fold"]["lore"][li]["desc"][di]["pos"] = json!(pm(rng, x));
                return Some(("lore_begin_pm1".into(), true)); }
            3 if !folds.is_empty() => { // lore len ±1
                let f = *rng.pick(&folds); let n = trace[f]["fold"]["lore"].as_array().unwrap().len(); let li = rng.below(n); let di = rng.below(2);
                let x = trace[f]["fold"]["lore"][li]["desc"][di]["len"].as_u64().unwrap_or(0); trace[f]["fold"]["lore"][li]["desc"][di]["len"] = json!(pm(rng, x));
                return Some(("lore_len_pm1".into(), false)); }
            4 if !folds.is_empty() => { // swapped lore entries
                let f = *rng.pick(&folds); let lore = trace[f]["fold"]["lore"].as_array_mut().unwrap(); if lore.len() < 2 { continue; }
                let a = rng.below(lore.len()); let b = (a + 1 + rng.below(lore.len() - 1)) % lore.len();
                // entries with identical ranges (all empty at one position) may be exchanged without effect
                let must = lore[a]["desc"] != lore[b]["desc"];
                lore.swap(a, b);
                return Some(("lore_swapped".into(), must)); }
            5 if !folds.is_empty() => { // value_pos moved to its own iteration's begin (not before it)
                let f = *rng.pick(&folds); let n = trace[f]["fold"]["lore"].as_array().unwrap().len(); let li = rng.below(n);
                let b = trace[f]["fold"]["lore"][li]["desc"][0]["pos"].clone(); trace[f]["fold"]["lore"][li]["pos"] = b;
                return Some(("value_pos_not_before".into(), true)); }
            6 if !folds.is_empty() => { // value_pos moved to the fold entry itself (not a stream value)
                let f = *rng.pick(&folds); let n = trace[f]["fold"]["lore"].as_array().unwrap().len(); let li = rng.below(n);
                trace[f]["fold"]["lore"][li]["pos"] = json!(f);
                return Some(("value_pos_not_a_value".into(), true)); }
            7 if !values.is_empty() => { // stub generation injected
                let v = *rng.pick(&values);
                if trace[v].get("ap").is_some() { trace[v]["ap"]["gens"] = json!([GENERATION_STUB]); } else { trace[v]["call"]["executed"]["stream"]["generation"] = json!(GENERATION_STUB); }
                return Some(("stub_generation".into(), true)); }
            8 if !values.is_empty() => { // ap with no / two generations
                let aps: Vec<usize> = values.iter().cloned().filter(|v| trace[*v].get("ap").is_some()).collect(); if aps.is_empty() { continue; }
                let v = *rng.pick(&aps); trace[v]["ap"]["gens"] = if rng.chance(1, 2) { json!([]) } else { json!([0, 1]) };
                return Some(("ap_generation_count".into(), true)); }
            9 if !folds.is_empty() => { // a lore entry loses / gains a descriptor
                let f = *rng.pick(&folds); let n = trace[f]["fold"]["lore"].as_array().unwrap().len(); let li = rng.below(n);
                let d = trace[f]["fold"]["lore"][li]["desc"].as_array_mut().unwrap();
                if rng.chance(1, 2) { d.pop(); } else { let x = d[0].clone(); d.push(x); }
                return Some(("lore_desc_count".into(), true)); }
            10 if !folds.is_empty() && !values.is_empty() => { // generation of a folded value changed: batches no longer coincide with generations
                let f = *rng.pick(&folds); let lore = trace[f]["fold"]["lore"].as_array().unwrap().clone(); if lore.len() < 2 { continue; }
                let vp = lore[rng.below(lore.len())]["pos"].as_u64().unwrap_or(0) as usize; if vp >= trace.len() { continue; }
                if trace[vp].get("ap").is_some() { let g = trace[vp]["ap"]["gens"][0].as_u64().unwrap_or(0); trace[vp]["ap"]["gens"] = json!([g + 77]); }
                else if trace[vp]["call"]["executed"].get("stream").is_some() { let g = trace[vp]["call"]["executed"]["stream"]["generation"].as_u64().unwrap_or(0); trace[vp]["call"]["executed"]["stream"]["generation"] = json!(g + 77); }
                else { continue; }
                return Some(("value_generation_changed".into(), false)); }
            11 if trace.len() > 1 => { // an entry dropped / duplicated
                let i = rng.below(trace.len());
                if rng.chance(1, 2) { trace.remove(i); return Some(("entry_dropped".into(), false)); } else { let s = trace[i].clone(); trace.insert(i, s); return Some(("entry_duplicated".into(), false)); } }
            _ => {}
        }
    }
    None
}

fn note_shape(rep: &mut Report, t: &[W]) {
    for s in t {
        match s {
            W::Par(..) => rep.stat("trace_par_entries"),
            W::Fold(lore) => {
                rep.stat("trace_fold_entries");
                rep.stat(&format!("fold_lore_len_{}", match lore.len() { 0 => "0", 1 => "1", 2 => "2", 3 | 4 => "3-4", _ => "5+" }));
                let gens: HashSet<u64> = lore.iter().filter_map(|(vp, _)| match t.get(*vp as usize) { Some(W::Ap(g)) => g.first().cloned(), Some(W::Stream(g)) => Some(*g), _ => None }).collect();
                if gens.len() >= 2 { rep.stat("fold_with_2+_batches"); }
                if lore.iter().any(|(_, d)| d.get(1).map(|a| a.1 > 0).unwrap_or(false)) { rep.stat("fold_with_nonempty_after_part"); }
                if lore.iter().any(|(_, d)| d.get(0).map(|b| b.1 == 0).unwrap_or(false)) { rep.stat("fold_with_empty_before_part"); }
                // a fold entry inside another fold's region
                rep.stat_n("fold_entries_covered", lore.iter().map(|(_, d)| d.iter().map(|x| x.1).sum::<u64>()).sum());
            }
            _ => {}
        }
    }
    // nesting: folds inside fold regions, pars inside fold regions
    let regions: Vec<(usize, usize)> = t.iter().enumerate().filter_map(|(i, s)| if let W::Fold(l) = s { Some((i, i + 1 + l.iter().map(|(_, d)| d.iter().map(|x| x.1 as usize).sum::<usize>()).sum::<usize>())) } else { None }).collect();
    for (i, s) in t.iter().enumerate() {
        let inside = regions.iter().any(|(a, b)| *a < i && i < *b);
        match s { W::Fold(_) if inside => rep.stat("fold_nested_in_fold_region"), W::Par(..) if inside => rep.stat("par_in_fold_region"), _ => {} }
    }
}

fn histories(ctx: &mut Ctx, rep: &mut Report) {
    let mut rng = Rng::new(ctx.seed ^ 0xC10);
    let n_hist = if ctx.thorough { 24000 } else { 1500 };
    let mut seen: HashSet<u64> = HashSet::new();
    let mut mutation_budget = if ctx.thorough { 300000 } else { 20000 };
    for hi in 0..n_hist {
        let n_peers = 2 + rng.below(3);
        let peers = peers_for(n_peers);
        let ids: Vec<String> = peers.iter().map(|p| p.id.clone()).collect();
        let budget = 8 + rng.below(8);
        let air = if hi % 5 == 4 { crate::props::hist::gen_history(&mut rng, true, false, budget, 1).air }
                  else { let mut g = SGen { rng: &mut rng, peers: ids.clone(), fn_counter: 0, iters: 0, folds: 0 }; g.script() };
        if air_parser::parse(&air).is_err() { rep.stat("generated_script_rejected_by_parser"); continue; }
        if std::env::var("AQUA_C10_DEBUG").is_ok() { eprintln!("history {hi}: {air}"); }
        let seed = rng.next();
        let mut net = Net::new(&air, &peers, &format!("c10-{seed:x}"));
        let mut r2 = Rng::new(seed);
        let max_steps = if ctx.thorough { 80 } else { 40 };
        let mut first_fail: Option<Value> = None;
        let mut has_fold = false;
        // the history is advanced one run at a time and every produced data is checked before any later run consumes it
        let mut checked = 0usize;
        net.start();
        loop {
          while checked < net.log.len() {
            let st = net.log[checked].clone(); let st = &st;
            checked += 1;
            rep.stat(&format!("ret_{}", crate::gen_codes::name_of(st.outcome.ret_code)));
            if st.outcome.ret_code == PANIC_CODE { rep.stat("interpreter_panics_skipped(C01)"); continue; }
            let c = st.outcome.ret_code;
            // new data is produced on success, on catchable errors and on the leftover-results error
            if !(c == 0 || (10000..=19999).contains(&c) || c == 30000) { continue; }
            let f = match facts(&st.outcome.data) { Some(f) => f, None => { if first_fail.is_none() { first_fail = Some(json!({"why": format!("code {c} but the produced data does not decode"), "input": step_json(&net, st)})); } continue; } };
            let trace = f.json["data"]["trace"].clone();
            let h = fnv(&trace.to_string());
            let t: Vec<W> = trace.as_array().unwrap().iter().map(wf::from_json).collect();
            if t.iter().any(|s| matches!(s, W::Fold(l) if !l.is_empty())) { has_fold = true; }
            // the oracle on every produced data
            if let Err(why) = wf::wf_trace(&f.trace) {
                if first_fail.is_none() { first_fail = Some(json!({"why": format!("produced trace is not well formed: {why}"), "input": step_json(&net, st), "trace": trace})); }
            }
            if !seen.insert(h) { continue; }
            note_shape(rep, &t);
            // the Lean definition on the same trace
            cross_check(ctx, rep, &trace, "produced trace");
            // mutated traces
            let arr = trace.as_array().unwrap();
            if arr.iter().any(|s| s.get("par").is_some() || s.get("fold").is_some()) && mutation_budget > 0 {
                for _ in 0..4 {
                    let mut m = arr.clone();
                    if let Some((class, must_reject)) = mutate(&mut m, &mut rng) {
                        mutation_budget -= 1;
                        let mv = Value::Array(m);
                        let (_, w) = cross_check(ctx, rep, &mv, &format!("mutated trace ({class})"));
                        rep.stat(&format!("mutation_{class}_{}", if w.ok() { "accepted" } else { "rejected" }));
                        if must_reject && w.ok() { rep.disagree(json!({"op": "wf", "what": format!("mutation `{class}` breaks an exact equation of the definition but the checker accepts the mutated trace"), "request": {"op": "wf", "trace": mv}, "original": trace})); }
                    }
                }
            }
          }
          if first_fail.is_some() || net.log.len() > max_steps || !net.random_step(&mut r2, (1, 8)) { break; }
        }
        rep.stat_n("steps", net.log.len() as u64);
        let canon = format!("{air}|{}", net.log.iter().map(|s| format!("{}:{}:{}", s.peer, s.event, s.outcome.ret_code)).collect::<Vec<_>>().join(","));
        if has_fold { rep.stat("histories_with_stream_fold_lore"); }
        let nontrivial = net.log.len() >= 2;
        let steps = net.log.len().max(1) as u64;
        rep.evaluations += steps - 1;
        rep.case(&canon, nontrivial, || json!({"air": air, "peers": n_peers, "steps": net.log.iter().map(|s| format!("{}:{}:{}", net.peers[s.peer].peer.name, s.event, s.outcome.ret_code)).collect::<Vec<_>>()}));
        // stop at the first malformed trace: feeding it to later runs can abort the process (placeholder generation => huge allocation)
        if let Some(f) = first_fail { rep.oracle_fail(f); return; }
    }
}

// ------------------------------------------------------------------------------------------------
// (iii) executor-like operation sequences on the real trace handler and on the model

fn keeper_name(e: &KeeperError) -> &'static str {
    match e { KeeperError::SetSubtraceLenAndPosFailed { .. } => "keeper.set_pos_and_len", KeeperError::SetSubtraceLenFailed { .. } => "keeper.set_len",
              KeeperError::NoElementAtPosition { .. } => "keeper.no_element", KeeperError::NoStreamState { .. } => "keeper.no_stream_state" }
}

fn err_name(e: &TraceHandlerError) -> String {
    match e {
        TraceHandlerError::KeeperError(k) => keeper_name(k).into(),
        TraceHandlerError::MergeError(m) => match m {
            MergeError::IncompatibleExecutedStates(..) | MergeError::DifferentExecutedStateExpected(..) => "merge.incompatible_states".into(),
            MergeError::KeeperError(k) => keeper_name(k).into(),
            MergeError::IncorrectApResult(_) => "merge.ap".into(),
            MergeError::IncorrectCallResult(CallResultError::ValuesNotEqual { .. }) => "merge.call.not_equal".into(),
            MergeError::IncorrectCallResult(CallResultError::IncompatibleCallResults { .. }) => "merge.call.incompatible".into(),
            MergeError::IncorrectCanonResult(_) => "merge.canon".into(),
            MergeError::IncorrectFoldResult(FoldResultError::SubtraceLenOverflow { .. }) => "merge.fold.overflow".into(),
            MergeError::IncorrectFoldResult(FoldResultError::SeveralRecordsWithSamePos(..)) => "merge.fold.same_pos".into(),
            MergeError::IncorrectFoldResult(FoldResultError::FoldIncorrectSubtracesCount(_)) => "merge.fold.count".into(),
        },
        TraceHandlerError::StateFSMError(s) => match s {
            StateFSMError::ParQueueIsEmpty => "fsm.par_queue_empty".into(), StateFSMError::FoldFSMNotFound(_) => "fsm.fold_not_found".into(),
            StateFSMError::ParLenOverflow(_) => "fsm.par_len_overflow".into(), StateFSMError::ParPosOverflow(..) => "fsm.par_pos_overflow".into(),
            StateFSMError::ParLenUnderflow(..) => "fsm.par_len_underflow".into(), StateFSMError::FoldPosOverflow(..) => "fsm.fold_pos_overflow".into(),
            StateFSMError::FoldLenUnderflow(..) => "fsm.fold_len_underflow".into(), StateFSMError::KeeperError(k) => keeper_name(k).into(),
        },
    }
}

fn sj<T: serde::Serialize>(v: &T) -> Value { serde_json::to_value(v).unwrap() }

/// a catchable error travelling up the simulated instruction tree
struct Catchable;
/// the run is abandoned (trace error / panic of the real handler)
struct Abort;
enum Stop { Catchable, Abort }
impl From<Catchable> for Stop { fn from(_: Catchable) -> Stop { Stop::Catchable } }
impl From<Abort> for Stop { fn from(_: Abort) -> Stop { Stop::Abort } }

/// shape of a simulated stream fold body (fixed per fold instruction, as in a script)
#[derive(Clone, Copy, Debug, PartialEq)]
enum BodyShape { SeqNext, ParNext, XorSeqNextHandler, SeqXorNextHandler, NoNext, OnlyNext,
    /// instructions after `next` (the parser forbids it for stream folds, the trace-handler API and the theorem allow it):
    /// makes the after-parts of outer iterations non-empty
    SeqNextTail }

/// Simulated executor: decides a random instruction tree while it runs and issues the trace-handler calls the real
/// executor issues for it (call/ap/canon, par with both subgraph ends also on catchable errors, stream folds with
/// `next`, `last`, recursion rounds, catchable errors swallowed per batch and closed by `meet_generation_end`).
/// `structure` drives the shape (replayable), `faults` drives where catchable errors are raised.
struct Exec { h: TraceHandler, ops: Vec<Value>, answers: Vec<Value>, structure: Rng, faults: Rng, fault_rate: u64, next_fold_id: u32, next_gen: u64, budget: usize,
              /// positions of stream-valued states pushed so far: (trace position, final generation)
              values: Vec<(usize, u64)>, pushed: usize, stub: bool }

impl Exec {
    fn op(&mut self, op: Value) -> Result<Value, Abort> {
        let r = std::panic::catch_unwind(std::panic::AssertUnwindSafe(|| apply(&mut self.h, &op)));
        self.ops.push(op);
        match r {
            Ok((a, true)) => { self.answers.push(a.clone()); Ok(a) }
            Ok((a, false)) => { self.answers.push(a); Err(Abort) }
            Err(_) => { self.answers.push(json!({"panic": true})); Err(Abort) }
        }
    }
    fn fault(&mut self) -> bool { self.fault_rate > 0 && self.faults.chance(self.fault_rate, 100) }

    fn leaf(&mut self, stream_value: Option<u64>) -> Result<(), Stop> {
        self.budget = self.budget.saturating_sub(1);
        let k = if stream_value.is_some() { self.structure.below(2) } else { 2 + self.structure.below(3) };
        match k {
            0 => { self.op(json!(["ap_start"]))?; let g = stream_value.unwrap(); self.values.push((self.pushed, g)); self.op(json!(["ap_end", [if self.stub { GENERATION_STUB } else { g }]]))?; self.pushed += 1; }
            1 => { self.op(json!(["call_start"]))?; let g = stream_value.unwrap(); self.values.push((self.pushed, g));
                   self.op(json!(["call_end", {"executed": {"stream": {"cid": format!("cid{}", self.pushed), "generation": if self.stub { GENERATION_STUB } else { g }}}}]))?; self.pushed += 1; }
            2 => { self.op(json!(["call_start"]))?; let failed = self.fault();
                   let st = if failed { json!({"failed": format!("cidf{}", self.pushed)}) } else if self.structure.chance(1, 4) { json!({"sent_by": {"PeerId": "12D3KooWpeer"}}) } else { json!({"executed": {"scalar": format!("cid{}", self.pushed)}}) };
                   self.op(json!(["call_end", st]))?; self.pushed += 1; if failed { return Err(Stop::Catchable); } }
            3 => { self.op(json!(["canon_start"]))?; self.op(json!(["canon_end", {"executed": format!("canon{}", self.pushed)}]))?; self.pushed += 1; }
            _ => { // fail / mismatch: no state
                   if self.fault() { return Err(Stop::Catchable); } }
        }
        Ok(())
    }

    /// an instruction without `next`; `appendable`: generation for values appended to the stream folded by the enclosing fold
    fn instr(&mut self, depth: usize, appendable: Option<u64>) -> Result<(), Stop> {
        if self.budget == 0 || depth > 5 { return self.leaf(None); }
        let r = self.structure.below(100);
        if r < 30 { return self.leaf(None); }
        if r < 38 { if let Some(g) = appendable { return self.leaf(Some(g)); } return self.leaf(None); }
        if r < 52 { self.instr(depth + 1, appendable)?; return self.instr(depth + 1, appendable); }
        if r < 70 { return self.par(depth, |e| e.instr(depth + 1, appendable), |e| e.instr(depth + 1, appendable)); }
        if r < 82 { return match self.instr(depth + 1, appendable) { Err(Stop::Catchable) => self.instr(depth + 1, appendable), x => x }; }
        self.fold(depth + 1)
    }

    fn par(&mut self, _depth: usize, l: impl FnOnce(&mut Exec) -> Result<(), Stop>, r: impl FnOnce(&mut Exec) -> Result<(), Stop>) -> Result<(), Stop> {
        self.op(json!(["par_start"]))?; self.pushed += 1;
        let lr = match l(self) { Err(Stop::Abort) => return Err(Stop::Abort), x => x.is_ok() };
        self.op(json!(["par_end", "left"]))?;
        let rr = match r(self) { Err(Stop::Abort) => return Err(Stop::Abort), x => x.is_ok() };
        self.op(json!(["par_end", "right"]))?;
        if lr || rr { Ok(()) } else { Err(Stop::Catchable) }
    }

    /// a stream fold over freshly pushed values (grouped in generations), with recursion rounds
    fn fold(&mut self, depth: usize) -> Result<(), Stop> {
        // the values: 1-3 generations of 1-3 values each, pushed just before the fold (or in par branches)
        let n_gens = 1 + self.structure.below(3);
        let mut batches: Vec<Vec<usize>> = vec![];
        for _ in 0..n_gens {
            let g = self.next_gen; self.next_gen += 1;
            let k = 1 + self.structure.below(3);
            let from = self.values.len();
            for _ in 0..k { self.leaf(Some(g))?; }
            batches.push(self.values[from..].iter().map(|v| v.0).collect());
        }
        let id = self.next_fold_id; self.next_fold_id += 1;
        let shape = *self.structure.pick(&[BodyShape::SeqNext, BodyShape::SeqNext, BodyShape::ParNext, BodyShape::ParNext, BodyShape::XorSeqNextHandler, BodyShape::SeqXorNextHandler, BodyShape::NoNext, BodyShape::OnlyNext, BodyShape::SeqNextTail]);
        let has_last = self.structure.chance(1, 3);
        let recursive = self.structure.chance(1, 3);
        self.op(json!(["fold_start", id]))?; self.pushed += 1;
        let mut round = 0;
        while !batches.is_empty() && round < 4 {
            let append_gen = if recursive && round < 2 { let g = self.next_gen; self.next_gen += 1; Some(g) } else { None };
            let from = self.values.len();
            for batch in std::mem::take(&mut batches) {
                self.op(json!(["iter_start", id, batch[0]]))?;
                match self.iteration(id, &batch, 0, shape, has_last, depth, append_gen) { Err(Stop::Abort) => return Err(Stop::Abort), _ => {} } // catchable errors do not leave a stream fold
                self.op(json!(["gen_end", id]))?;
            }
            // values appended to the folded stream during this round form the next batch
            let appended: Vec<usize> = match append_gen { Some(g) => self.values[from..].iter().filter(|v| v.1 == g).map(|v| v.0).collect(), None => vec![] };
            if !appended.is_empty() { batches.push(appended); }
            round += 1;
        }
        self.op(json!(["fold_end", id]))?;
        Ok(())
    }

    fn next(&mut self, id: u32, batch: &[usize], idx: usize, shape: BodyShape, has_last: bool, depth: usize, app: Option<u64>) -> Result<(), Stop> {
        self.op(json!(["iter_end", id]))?;
        if idx + 1 < batch.len() {
            self.op(json!(["iter_start", id, batch[idx + 1]]))?;
            self.iteration(id, batch, idx + 1, shape, has_last, depth, app)?;
            self.op(json!(["back_iter", id]))?;
        } else {
            self.op(json!(["back_iter", id]))?;
            if has_last { self.instr(depth + 1, app)?; }
        }
        Ok(())
    }

    fn iteration(&mut self, id: u32, batch: &[usize], idx: usize, shape: BodyShape, has_last: bool, depth: usize, app: Option<u64>) -> Result<(), Stop> {
        let b: Vec<usize> = batch.to_vec();
        match shape {
            BodyShape::SeqNext => { self.instr(depth + 1, app)?; self.next(id, &b, idx, shape, has_last, depth, app) }
            BodyShape::ParNext => self.par(depth, |e| e.instr(depth + 1, app), |e| e.next(id, &b, idx, shape, has_last, depth, app)),
            BodyShape::XorSeqNextHandler => {
                let r = match self.instr(depth + 1, app) { Ok(()) => self.next(id, &b, idx, shape, has_last, depth, app), e => e };
                match r { Err(Stop::Catchable) => self.leaf(None), x => x }
            }
            BodyShape::SeqXorNextHandler => { self.instr(depth + 1, app)?; match self.next(id, &b, idx, shape, has_last, depth, app) { Err(Stop::Catchable) => self.leaf(None), x => x } }
            BodyShape::NoNext => self.instr(depth + 1, app),
            BodyShape::OnlyNext => self.next(id, &b, idx, shape, has_last, depth, app),
            BodyShape::SeqNextTail => { self.instr(depth + 1, app)?; self.next(id, &b, idx, shape, has_last, depth, app)?; self.leaf(None) }
        }
    }
}

/// one call of the real handler; (answer, continue?)
fn apply(h: &mut TraceHandler, op: &Value) -> (Value, bool) {
    let name = op[0].as_str().unwrap_or("");
    let fold_id = op[1].as_u64().unwrap_or(0) as u32;
    macro_rules! fin { ($r:expr) => { match $r { Ok(_) => (json!("ok"), true), Err(e) => (json!({"err": err_name(&e)}), false) } } }
    let src = |s: &ValueSource| match s { ValueSource::PreviousData => "prev", ValueSource::CurrentData => "cur" };
    match name {
        "call_start" => match h.meet_call_start() {
            Ok(MergerCallResult::NotMet) => (json!("not_met"), true),
            Ok(MergerCallResult::Met(m)) => (json!({"met": sj(&m.result), "pos": usize::from(m.trace_pos), "source": src(&m.source)}), true),
            Err(e) => (json!({"err": err_name(&e)}), false) },
        "call_end" => { let c: CallResult = serde_json::from_value(op[1].clone()).unwrap(); h.meet_call_end(c); (json!("ok"), true) }
        "ap_start" => match h.meet_ap_start() {
            Ok(MergerApResult::NotMet) => (json!("not_met"), true),
            Ok(MergerApResult::Met(m)) => (json!({"gen": sj(&m.generation), "source": src(&m.value_source)}), true),
            Err(e) => (json!({"err": err_name(&e)}), false) },
        "ap_end" => { let ap: ApResult = serde_json::from_value(json!({"gens": op[1]})).unwrap(); h.meet_ap_end(ap); (json!("ok"), true) }
        "canon_start" => match h.meet_canon_start() {
            Ok(MergerCanonResult::Empty) => (json!("empty"), true),
            Ok(MergerCanonResult::CanonResult(c)) => (json!({"canon": sj(&c)}), true),
            Err(e) => (json!({"err": err_name(&e)}), false) },
        "canon_end" => { let c: CanonResult = serde_json::from_value(op[1].clone()).unwrap(); h.meet_canon_end(c); (json!("ok"), true) }
        "par_start" => fin!(h.meet_par_start()),
        "par_end" => fin!(h.meet_par_subgraph_end(if op[1] == "left" { SubgraphType::Left } else { SubgraphType::Right })),
        "fold_start" => fin!(h.meet_fold_start(fold_id)),
        "iter_start" => fin!(h.meet_iteration_start(fold_id, (op[2].as_u64().unwrap_or(0) as u32).into())),
        "iter_end" => fin!(h.meet_iteration_end(fold_id)),
        "back_iter" => fin!(h.meet_back_iterator(fold_id)),
        "gen_end" => fin!(h.meet_generation_end(fold_id)),
        "fold_end" => fin!(h.meet_fold_end(fold_id)),
        "update_generation" => match h.update_generation((op[1].as_u64().unwrap_or(0) as u32).into(), (op[2].as_u64().unwrap_or(0) as usize).into()) {
            Ok(()) => (json!("ok"), true),
            Err(GenerationCompactificationError::TracePosPointsToNowhere(_)) => (json!({"err": "compact.nowhere"}), true),
            Err(GenerationCompactificationError::TracePosPointsToInvalidState { .. }) => (json!({"err": "compact.invalid_state"}), true) },
        _ => (json!({"bad_op": true}), false),
    }
}

struct RunOut { ops: Vec<Value>, answers: Vec<Value>, trace: Value, completed: bool }

fn run_program(prev: &Value, cur: &Value, structure_seed: u64, fault_seed: u64, fault_rate: u64, stub: bool) -> RunOut {
    let p: Vec<ExecutedState> = serde_json::from_value(prev.clone()).unwrap_or_default();
    let c: Vec<ExecutedState> = serde_json::from_value(cur.clone()).unwrap_or_default();
    let mut e = Exec { h: TraceHandler::from_trace(p.into(), c.into()), ops: vec![], answers: vec![], structure: Rng::new(structure_seed), faults: Rng::new(fault_seed), fault_rate,
                       next_fold_id: 1, next_gen: 0, budget: 24, values: vec![], pushed: 0, stub };
    let mut completed = true;
    // top level: a few instructions in sequence; a catchable error ends the run (data is still produced)
    let n = 1 + e.structure.below(3);
    for _ in 0..n {
        let r = if e.structure.chance(2, 3) { e.fold(0) } else { e.instr(0, None) };
        match r { Ok(()) => {}, Err(Stop::Catchable) => break, Err(Stop::Abort) => { completed = false; break; } }
    }
    if completed && stub {
        // compactify: every stream-valued state gets its final generation
        let vals = e.values.clone();
        for (pos, g) in vals { if e.op(json!(["update_generation", pos, g])).is_err() { completed = false; break; } }
    }
    let trace = sj(&e.h.as_result_trace());
    RunOut { ops: e.ops, answers: e.answers, trace, completed }
}

fn handler_programs(ctx: &mut Ctx, rep: &mut Report) {
    let mut rng = Rng::new(ctx.seed ^ 0xC10_0F5);
    let n = if ctx.thorough { 80000 } else { 5000 };
    for _ in 0..n {
        let sseed = rng.next();
        if std::env::var("AQUA_C10_DEBUG").is_ok() { eprintln!("program seed {sseed}"); }
        let stub = rng.chance(1, 2);
        let rate = *rng.pick(&[0u64, 0, 10, 25]);
        // first run: empty previous and current data
        let first = run_program(&json!([]), &json!([]), sseed, rng.next(), rate, stub);
        let mut runs: Vec<(Value, Value, RunOut)> = vec![];
        // second run: the same instruction tree (same structure seed), merging the first result as previous data and a
        // variant (other fault positions) as current data — exercises lore resolution and the sliders under the fold/par FSMs
        let variant = run_program(&json!([]), &json!([]), sseed, rng.next(), rate, stub);
        let (t1, t2) = (first.trace.clone(), variant.trace.clone());
        let completed_inputs = first.completed && variant.completed;
        runs.push((json!([]), json!([]), first));
        if completed_inputs {
            let fs = rng.next();
            match rng.below(3) {
                0 => { let r = run_program(&t1, &json!([]), sseed, fs, 0, stub); runs.push((t1.clone(), json!([]), r)); }
                1 => { let r = run_program(&t1, &t1, sseed, fs, 0, stub); runs.push((t1.clone(), t1.clone(), r)); }
                _ => { let r = run_program(&t1, &t2, sseed, fs, rate, stub); runs.push((t1.clone(), t2.clone(), r)); }
            }
        }
        for (prev, cur, out) in runs {
            if std::env::var("AQUA_C10_DEBUG").is_ok() { eprintln!("   ops {} trace {}", out.ops.len(), out.trace.as_array().map(|a| a.len()).unwrap_or(0)); }
            let req = json!({"op": "trace_ops", "prev": prev, "cur": cur, "ops": out.ops});
            let canon = serde_json::to_string(&req).unwrap();
            let n_fold_ops = out.ops.iter().filter(|o| o[0] == "iter_start").count();
            rep.case(&canon, out.ops.len() >= 6 && n_fold_ops >= 1, || json!({"handler_program": true, "prev_len": prev.as_array().map(|a| a.len()), "cur_len": cur.as_array().map(|a| a.len()), "ops": out.ops.iter().take(24).collect::<Vec<_>>(), "result_len": out.trace.as_array().map(|a| a.len())}));
            rep.stat_n("handler_ops", out.ops.len() as u64);
            for a in &out.answers { if let Some(e) = a.get("err") { rep.stat(&format!("handler_err_{}", e.as_str().unwrap_or(""))); } if a.get("panic").is_some() { rep.stat("handler_program_real_panics"); } }
            // early exits: an iteration that was started but whose `iter_end`/`back_iter` never came
            let starts = out.ops.iter().filter(|o| o[0] == "iter_start").count(); let ends = out.ops.iter().filter(|o| o[0] == "iter_end").count();
            if starts > ends { rep.stat("handler_programs_with_early_exit"); }
            if !prev.as_array().map(|a| a.is_empty()).unwrap_or(true) { rep.stat("handler_programs_merging_previous"); }
            // model correspondence
            let m = ctx.driver.ask(&req);
            if m.get("unmodelled").is_some() { rep.unmodelled += 1; } else {
                rep.model_compared += 1;
                let norm = |v: &Value| -> Value { if v.get("panic").is_some() { json!({"panic": true}) } else { v.clone() } };
                let ma: Vec<Value> = m["answers"].as_array().cloned().unwrap_or_default().iter().map(norm).collect();
                let ra: Vec<Value> = out.answers.iter().map(norm).collect();
                if ma != ra || (out.completed && m["result_trace"] != out.trace) {
                    let first = ma.iter().zip(ra.iter()).position(|(x, y)| x != y);
                    rep.disagree(json!({"op": "trace_ops", "first_diverging_op": first, "op_at": first.map(|i| out.ops[i].clone()), "model": first.map(|i| ma[i].clone()), "implementation": first.map(|i| ra[i].clone()),
                        "model_len": ma.len(), "impl_len": ra.len(), "trace_equal": m["result_trace"] == out.trace, "request": req}));
                }
            }
            // the oracle on the real handler's result trace (a run that raised no trace error returns it as new data)
            if out.completed {
                rep.stat("handler_programs_completed");
                let (_, w) = cross_check(ctx, rep, &out.trace, "result trace of a handler program");
                let t: Vec<W> = out.trace.as_array().unwrap().iter().map(wf::from_json).collect();
                note_shape(rep, &t);
                if !w.ok() { rep.oracle_fail(json!({"why": format!("the real trace handler, driven like the executor drives it, built a trace that is not well formed: [{}] {}", w.first().0, w.first().1),
                    "input": {"prev": prev, "cur": cur, "ops": out.ops}, "result_trace": out.trace})); }
            } else { rep.stat("handler_programs_aborted_by_trace_error"); }
        }
    }
}

pub fn run(ctx: &mut Ctx, rep: &mut Report) {
    rep.rule = format!("C10-specific: case = one run of a simulated honest history of a stream/fold-heavy generated script (nested par/fold, `next` in seq/par/xor position, \
        recursive appends guarded by match, `new` scopes, `last` instructions, canon in folds, failing calls/`fail` inside fold bodies and par branches) with the oracle `wf_trace` on the produced data, \
        the Lean `wfTrace` compared clause by clause on every distinct produced trace and on up to 4 structural mutations of it; plus handler programs = executor-like operation sequences \
        (random instruction tree, stream folds with 1-3 generations, recursion rounds, early exits) on the real TraceHandler and on the Lean replica, first with empty data and then merging the first result; \
        non-trivial = history with at least 2 runs / program with at least 6 operations and one fold iteration; distinct by hash of (script, schedule) / (traces, operations)");
    histories(ctx, rep);
    if !rep.oracle_failures.is_empty() { return; }
    handler_programs(ctx, rep);
}
