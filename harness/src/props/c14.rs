//! C14 — forged or replayed results of other peers are never accepted.
//! Honest histories (3-5 peers, real keypairs) are generated; data in flight is decoded, tampered with by a
//! catalog of operations aimed at results attributed to HONEST peers, the attacker (one participant) re-signs
//! only its own entry, the data is re-encoded and delivered to the honest addressee through `air::execute_air`.
//! (1) direct oracle on the receiving peer's outcome / output data; (2) correspondence of the verification
//! step with the Lean model (`verify_data`), signatures shipped as symbolic terms.
use crate::facts::*;
use crate::gen_codes as codes;
use crate::host::*;
use crate::props::c14_tamper::{self as tp, Kind, Op, TData, TamperCtx};
use crate::props::hist::*;
use crate::sim::*;
use crate::util::*;
use crate::Ctx;
use air_interpreter_data::verification::{DataVerifier, DataVerifierError};
use air_interpreter_data::{CidStoreVerificationError, InterpreterData};
use air_interpreter_interface::{CallResults, InterpreterOutcome};
use serde_json::{json, Value};
use std::collections::{BTreeSet, HashMap};

static LAST_PANIC_AT: std::sync::Mutex<String> = std::sync::Mutex::new(String::new());
fn last_panic_at() -> String { LAST_PANIC_AT.lock().map(|s| s.clone()).unwrap_or_default() }

fn is_prep(c: i64) -> bool { (1..=9999).contains(&c) }
fn is_uncatchable(c: i64) -> bool { (20000..=29999).contains(&c) }
fn accepted(c: i64) -> bool { c == 0 || (10000..=19999).contains(&c) || c == 30000 }

/// signature text (base58) -> (signer public key text, signed bytes): filled only after checking that the real
/// key's signature of exactly these bytes IS this signature (Ed25519 signatures are deterministic)
#[derive(Default)]
struct SigRegistry { known: HashMap<String, (String, Vec<u8>)>, junk: HashMap<String, u64> }

impl SigRegistry {
    fn term(&mut self, sig_text: &str) -> Value {
        if let Some((pk, msg)) = self.known.get(sig_text) { return json!({"sig": [pk, hex(msg)]}); }
        let n = self.junk.len() as u64;
        let k = *self.junk.entry(sig_text.to_string()).or_insert(n);
        json!({"junk": k})
    }
    /// register the signatures of honest data: for every key of the store, the CIDs attributed to its peer in this data
    fn learn(&mut self, j: &Value, salt: &str, peers: &[Peer], rep: &mut Report) {
        let sigs = match j["signatures"].as_object() { Some(s) => s.clone(), None => return };
        for (pk, sig) in sigs {
            let Some(p) = peers.iter().find(|p| p.kp.public().to_string() == pk) else { continue };
            let Some(sig_text) = sig.as_str() else { continue };
            if self.known.contains_key(sig_text) { continue; }
            let msg = tp::salted_bytes(&tp::peer_cids(j, &p.id), salt);
            let mine = p.kp.sign(&msg).ok().map(|s| serde_json::to_value(&s).unwrap());
            if mine.as_ref() == Some(&sig) { self.known.insert(sig_text.to_string(), (pk.clone(), msg)); rep.stat("signatures_explained"); }
            else { rep.stat("signatures_unexplained(honest data)");
                   if rep.stats.get("signatures_unexplained(honest data)") == Some(&1) { rep.oracle_fail(json!({"why": format!("an honest peer's signature in honestly produced data is not its signature over (sorted CIDs of its results, particle id '{salt}')"), "input": {"tampering": ["none (honest data)"], "peer": p.name, "signatures": j["signatures"]}})); } }
        }
    }
}

/// the decoded data as facts for the model; store entries in the iteration order of THIS instance
fn facts_json(d: &InterpreterData, reg: &mut SigRegistry) -> Value {
    let ci = &d.cid_info;
    let pairs = |it: Vec<(String, Value)>| -> Value { Value::Array(it.into_iter().map(|(k, v)| json!([k, v])).collect()) };
    let sigs: Vec<Value> = d.signatures.iter().map(|(pk, sig)| {
        let peer_id = if pk.validate().is_ok() { pk.to_peer_id().ok() } else { None };
        let sig_text = serde_json::to_value(sig).ok().and_then(|v| v.as_str().map(String::from)).unwrap_or_default();
        json!({"pk": pk.to_string(), "peer_id": peer_id, "sig": reg.term(&sig_text)})
    }).collect();
    json!({
        "trace": serde_json::to_value(&d.trace).unwrap_or(Value::Null),
        "stores": {
            "value": pairs(ci.value_store.iter().map(|(k, v)| (k.get_inner().to_string(), serde_json::to_value(&**v).unwrap())).collect()),
            "tetraplet": pairs(ci.tetraplet_store.iter().map(|(k, v)| (k.get_inner().to_string(), serde_json::to_value(&**v).unwrap())).collect()),
            "canon_element": pairs(ci.canon_element_store.iter().map(|(k, v)| (k.get_inner().to_string(), serde_json::to_value(&**v).unwrap())).collect()),
            "canon_result": pairs(ci.canon_result_store.iter().map(|(k, v)| (k.get_inner().to_string(), serde_json::to_value(&**v).unwrap())).collect()),
            "service_result": pairs(ci.service_result_store.iter().map(|(k, v)| (k.get_inner().to_string(), serde_json::to_value(&**v).unwrap())).collect()),
        },
        "signatures": sigs,
    })
}

/// the value texts of the given facts (`facts_json`) that `serde_json::from_str::<JValue>` rejects: the model's `isJson` oracle
fn non_json_values(facts: &[&Value]) -> Vec<String> {
    let mut bad: Vec<String> = vec![];
    for f in facts {
        if let Some(pairs) = f["stores"]["value"].as_array() {
            for p in pairs { if let Some(t) = p[1].as_str() { if serde_json::from_str::<air_interpreter_value::JValue>(t).is_err() && !bad.iter().any(|b| b == t) { bad.push(t.to_string()); } } }
        }
    }
    bad
}

/// the five lines of `verification_step::verify` on the same decoded instances, errors in the model's vocabulary
fn real_verification(prev: &InterpreterData, cur: &InterpreterData, salt: &str) -> Value {
    let r = std::panic::catch_unwind(std::panic::AssertUnwindSafe(|| -> Value {
        use air_interpreter_cid::CidVerificationError as CVE;
        if let Err(e) = cur.cid_info.verify() {
            return match &e {
                CidStoreVerificationError::CidVerificationError(c) => {
                    let (sub, cid) = match c { CVE::ValueMismatch { cid_repr, .. } => ("ValueMismatch", Some(cid_repr.to_string())), CVE::InvalidJson(_) => ("InvalidJson", None), CVE::MalformedCid(_) => ("MalformedCid", None),
                        CVE::UnsupportedCidCodec(_) => ("UnsupportedCidCodec", None), CVE::UnsupportedHashCode(_) => ("UnsupportedHashCode", None) };
                    json!({"result": "error", "code": codes::prep("CidStoreVerificationError"), "sub": sub, "cid": cid, "text": e.to_string()})
                }
                CidStoreVerificationError::MissingReference { target_cid_repr, .. } => json!({"result": "error", "code": codes::prep("CidStoreVerificationError"), "sub": "MissingReference", "cid": target_cid_repr.to_string(), "text": e.to_string()}),
                CidStoreVerificationError::MalformedValue { cid_repr, .. } => json!({"result": "error", "code": codes::prep("CidStoreVerificationError"), "sub": "MalformedValue", "cid": cid_repr.to_string(), "text": e.to_string()}),
            };
        }
        let ver_err = |e: &DataVerifierError| -> Value {
            let (sub, peer) = match e { DataVerifierError::MalformedKey { .. } => ("MalformedKey", None), DataVerifierError::MalformedSignature(_) => ("MalformedSignature", None),
                DataVerifierError::PeerIdNotFound(p) => ("PeerIdNotFound", Some(p.clone())), DataVerifierError::SignatureMismatch { peer_id, .. } => ("SignatureMismatch", Some(peer_id.clone())),
                DataVerifierError::MergeMismatch { peer_id, .. } => ("MergeMismatch", Some(peer_id.clone())),
                DataVerifierError::CidNotFound(_) => ("CidNotFound", None) };
            json!({"result": "error", "code": codes::prep("DataSignatureCheckError"), "sub": sub, "peer": peer, "text": e.to_string().chars().take(300).collect::<String>()})
        };
        let pv = match DataVerifier::new(prev, salt) { Ok(v) => v, Err(e) => return ver_err(&e) };
        let cv = match DataVerifier::new(cur, salt) { Ok(v) => v, Err(e) => return ver_err(&e) };
        if let Err(e) = cv.verify() { return ver_err(&e); }
        match pv.merge(cv) { Ok(store) => { let mut m = serde_json::Map::new(); for (pk, sig) in store.iter() { if let Ok(p) = pk.to_peer_id() { m.insert(p, serde_json::to_value(sig).unwrap()); } } json!({"result": "ok", "merged": m}) }
                             Err(e) => ver_err(&e) }
    }));
    r.unwrap_or_else(|_| json!({"result": "panic"}))
}

/// compare the model's verdict with the component-level real verdict and with the return code of the whole run
fn compare_verification(model: &Value, real: &Value, run_code: Option<i64>, reg: &mut SigRegistry) -> Option<String> {
    let (mr, rr) = (model["result"].as_str().unwrap_or("?"), real["result"].as_str().unwrap_or("?"));
    if mr != rr { return Some(format!("model says {mr}, the implementation's verification functions say {rr}")); }
    if mr == "error" {
        if model["code"] != real["code"] { return Some(format!("error code: model {} vs implementation {}", model["code"], real["code"])); }
        if model["sub"] != real["sub"] { return Some(format!("error variant: model {} vs implementation {}", model["sub"], real["sub"])); }
        let sub = model["sub"].as_str().unwrap_or("");
        if matches!(sub, "ValueMismatch" | "MissingReference") && model["cid"] != real["cid"] { return Some(format!("offending cid: model {} vs implementation {}", model["cid"], real["cid"])); }
        if sub == "PeerIdNotFound" && model["peer"] != real["peer"] { return Some(format!("peer: model {} vs implementation {}", model["peer"], real["peer"])); }
        if sub == "SignatureMismatch" {
            let failing: Vec<&str> = model["failing_peers"].as_array().map(|a| a.iter().filter_map(|x| x.as_str()).collect()).unwrap_or_default();
            if !failing.contains(&real["peer"].as_str().unwrap_or("")) { return Some(format!("the implementation reports a signature mismatch for {} but the model finds failing peers {failing:?}", real["peer"])); }
        }
    }
    if mr == "ok" {
        // merged signature store: same peers, same signature terms
        let mm = model["merged"].as_object().cloned().unwrap_or_default();
        let rm = real["merged"].as_object().cloned().unwrap_or_default();
        if mm.len() != rm.len() { return Some(format!("merged signature store: model has {} entries, implementation {}", mm.len(), rm.len())); }
        for (peer, sig) in &rm {
            let term = reg.term(sig.as_str().unwrap_or(""));
            let expect = match (term.get("sig"), term.get("junk")) { (Some(t), _) => format!("sig({},{})", t[0].as_str().unwrap_or(""), t[1].as_str().unwrap_or("")), (_, Some(n)) => format!("junk({n})"), _ => "?".into() };
            if mm.get(peer).and_then(|v| v.as_str()) != Some(expect.as_str()) { return Some(format!("merged signature of {peer}: model {:?} vs implementation {expect}", mm.get(peer))); }
        }
    }
    // the glue: the whole run must fail in the same stage with the same code
    match (mr, run_code) {
        ("error", Some(c)) => if Some(c) != model["code"].as_i64() { return Some(format!("model rejects in the verification step with code {}, execute_air returned {c}", model["code"])); },
        ("ok", Some(c)) => if c == codes::prep("CidStoreVerificationError") || c == codes::prep("DataSignatureCheckError") { return Some(format!("model accepts in the verification step, execute_air returned {c}")); },
        ("panic", Some(c)) => return Some(format!("model predicts a panic in the verification step, execute_air returned {c}")),
        (_, None) => if mr != "panic" { return None /* a panic elsewhere: counted by the caller */ },
        _ => {}
    }
    None
}

/// per peer: (cid, failed?) of every result it produced
struct Truth { produced: HashMap<String, BTreeSet<(String, bool)>>,
    /// cid -> what it stands for in the owner's own output: call result (value text, tetraplet, argument hash) or canon (tetraplet, elements)
    content: HashMap<String, Value> }

/// ground truth: what every peer really produced (and signed) in the honest history = the results attributed to it in its OWN outputs;
/// cross-checked against the host's invocation log for call results
fn ground_truth(net: &Net, rep: &mut Report) -> Truth {
    let mut produced: HashMap<String, BTreeSet<(String, bool)>> = HashMap::new();
    let mut content: HashMap<String, Value> = HashMap::new();
    for st in &net.log {
        if !accepted(st.outcome.ret_code) { continue; }
        let me = &net.peer_ids[st.peer];
        if let Some(t) = tp::decode(&st.outcome.data) {
            for (pos, owner, cid, kind) in tp::attributed(&t.j) { if &owner == me { content.entry(cid.clone()).or_insert_with(|| content_of(&t.j, pos)); produced.entry(owner).or_default().insert((cid, kind == Kind::Failed)); } }
        }
    }
    // cross-check: every produced call result corresponds to a service invocation recorded by that peer's host (value and function)
    for (pi, ps) in net.peers.iter().enumerate() {
        let me = &net.peer_ids[pi];
        let Some(t) = tp::decode(&ps.prev) else { continue };
        for (pos, owner, cid, kind) in tp::attributed(&t.j) {
            if &owner != me || kind == Kind::Canon { continue; }
            let _ = pos;
            let Some(agg) = tp::store(&t.j, "service_result_store").get(&cid) else { continue };
            let tet = &tp::store(&t.j, "tetraplet_store")[agg["tetraplet_cid"].as_str().unwrap_or("")];
            let ok = ps.invocations.iter().any(|inv| Some(inv.function_name.as_str()) == tet["function_name"].as_str() && Some(inv.service_id.as_str()) == tet["service_id"].as_str());
            rep.stat(if ok { "truth_call_result_matches_invocation_log" } else { "truth_call_result_WITHOUT_invocation" });
        }
    }
    Truth { produced, content }
}

/// what the result at `pos` stands for, resolved through the stores of `j`
fn content_of(j: &Value, pos: usize) -> Value {
    let s = &j["trace"][pos];
    let Some(cid) = tp::state_cid(s) else { return Value::Null };
    if tp::state_kind(s) == Kind::Canon {
        let cr = &tp::store(j, "canon_result_store")[&cid];
        let els: Vec<Value> = cr["values"].as_array().map(|v| v.iter().map(|e| { let el = &tp::store(j, "canon_element_store")[e.as_str().unwrap_or("")];
            json!({"value": tp::store(j, "value_store")[el["value"].as_str().unwrap_or("")], "tetraplet": tp::store(j, "tetraplet_store")[el["tetraplet"].as_str().unwrap_or("")], "provenance": el["provenance"]}) }).collect()).unwrap_or_default();
        json!({"tetraplet": tp::store(j, "tetraplet_store")[cr["tetraplet"].as_str().unwrap_or("")], "elements": els})
    } else {
        let a = &tp::store(j, "service_result_store")[&cid];
        json!({"value": tp::store(j, "value_store")[a["value_cid"].as_str().unwrap_or("")], "tetraplet": tp::store(j, "tetraplet_store")[a["tetraplet_cid"].as_str().unwrap_or("")], "argument_hash": a["argument_hash"]})
    }
}

fn shape(trace: &[St]) -> Vec<String> {
    trace.iter().map(|s| match s { St::Par(l, r) => format!("par({l},{r})"), St::Fold(l) => format!("fold{l:?}"), St::Ap(_) => "ap".into(), St::Canon(_) | St::CanonSent(_) => "canon".into(), St::Unknown(x) => x.clone(), _ => "call".into() }).collect()
}

/// structural path of every state: index among its siblings, below the par branch / fold iteration it lies in ("" if the trace is not well nested)
fn paths(trace: &[St]) -> Vec<String> {
    fn walk(t: &[St], from: usize, to: usize, prefix: &str, out: &mut Vec<String>, depth: usize) -> bool {
        if depth > 200 || to > t.len() { return false; }
        let (mut p, mut k) = (from, 0usize);
        while p < to {
            out[p] = format!("{prefix}/{k}");
            let here = out[p].clone();
            match &t[p] {
                St::Par(l, r) => { let (l, r) = (*l as usize, *r as usize);
                    if p + 1 + l + r > to { return false; }
                    if !walk(t, p + 1, p + 1 + l, &format!("{here}L"), out, depth + 1) || !walk(t, p + 1 + l, p + 1 + l + r, &format!("{here}R"), out, depth + 1) { return false; }
                    p += 1 + l + r; }
                St::Fold(lore) => { let total: usize = lore.iter().map(|(_, b, a)| (b.1 + a.1) as usize).sum();
                    if p + 1 + total > to { return false; }
                    for (j, (_, b, a)) in lore.iter().enumerate() {
                        let (bb, bl, ab, al) = (b.0 as usize, b.1 as usize, a.0 as usize, a.1 as usize);
                        if bb + bl > t.len() || ab + al > t.len() { return false; }
                        if !walk(t, bb, bb + bl, &format!("{here}i{j}b"), out, depth + 1) || !walk(t, ab, ab + al, &format!("{here}i{j}a"), out, depth + 1) { return false; }
                    }
                    p += 1 + total; }
                _ => p += 1,
            }
            k += 1;
        }
        true
    }
    let mut out = vec![String::new(); trace.len()];
    if !walk(trace, 0, trace.len(), "", &mut out, 0) { return vec![String::new(); trace.len()]; }
    out
}

fn cid_of_state(s: &St) -> Option<&String> { match s { St::Scalar(c) | St::Stream(c, _) | St::Failed(c) | St::Canon(c) => Some(c), _ => None } }

/// expected result CIDs of the calls pending for `owner` in `data`, by position: the real interpreter is run AS the owner
/// (request emission does not involve the parameter check); CIDs recomputed from the host-side service and the real CID functions
fn expected_as_owner(net: &Net, owner: &Peer, data: &[u8]) -> Option<(Vec<St>, HashMap<usize, String>)> {
    let o = run_catch(&RunArgs { air: &net.air, prev: &[], cur: data, init_peer_id: &net.peer_ids[net.init], peer: owner, particle_id: &net.particle, timestamp: net.timestamp, ttl: net.ttl,
                                 results: &CallResults::new(), limits: Limits::unlimited() }).ok()?;
    if !accepted(o.ret_code) { return None; }
    let f = facts(&o.data)?;
    let reqs = decode_requests(&o.call_requests)?;
    let mut m = HashMap::new();
    for (i, s) in f.trace.iter().enumerate() {
        if let St::Sent(p, Some(id)) = s { if p == &owner.id { if let Some(r) = reqs.get(&(*id as u32)) {
            let args = decode_args(r);
            let res = service(&net.peer_ids, &owner.id, &r.service_id, &r.function_name, &args);
            let text = if res.ret_code == 0 { match serde_json::from_str::<Value>(&res.result) { Ok(v) => v.to_string(), Err(_) => continue } } else { json!({"ret_code": res.ret_code, "message": res.result}).to_string() };
            let tet = json!({"peer_pk": owner.id, "service_id": r.service_id, "function_name": r.function_name, "lens": ""});
            let ah = match air_interpreter_cid::value_to_json_cid(&args) { Ok(c) => c.get_inner().to_string(), Err(_) => continue };
            let agg = json!({"value_cid": tp::cid_of_raw(&text), "argument_hash": ah, "tetraplet_cid": tp::cid_of_tetraplet(&tet)?});
            m.insert(i, tp::cid_of_service_result(&agg)?);
        } } }
    }
    Some((f.trace, m))
}

/// known genuine defects are listed once per class (with their stable key) and counted; everything else is listed as it comes
fn fail(rep: &mut Report, key: Option<&str>, v: Value) {
    match key {
        Some(k) => { let stat = format!("known_finding[{k}]"); let first = !rep.stats.contains_key(&stat); rep.stat(&stat);
                     if first { let mut v = v; v["finding_key"] = json!(k); rep.oracle_fail(v); } }
        None => rep.oracle_fail(v),
    }
}

#[derive(Clone, Copy)]
struct CaseEnv<'a> { particle: &'a str, sig_known: &'a HashMap<String, (String, Vec<u8>)>, tampered_cur: &'a [u8], net: &'a Net, peers: &'a [Peer], victim: usize, attacker: usize, prev: &'a [u8], honest_cur: &'a [u8], base: &'a InterpreterOutcome, truth: &'a Truth, observer: &'a Peer, base_c03_ok: bool }

fn replay_input(e: &CaseEnv, cur: &[u8], particle: &str, what: &[String]) -> Value {
    json!({"air": e.net.air, "particle": particle, "peer": e.peers[e.victim].name, "init_peer": e.peers[e.net.init].name, "attacker": e.peers[e.attacker].name,
           "prev_hex": hex(e.prev), "cur_hex": hex(cur), "honest_cur_hex": hex(e.honest_cur), "results": {}, "tampering": what,
           "peers": e.peers.iter().map(|p| p.name.clone()).collect::<Vec<_>>()})
}

/// the direct oracle on an ACCEPTED run; returns the reason of a violation
fn oracle_accepted(e: &CaseEnv, out: &InterpreterOutcome, rep: &mut Report, owner_cache: &mut HashMap<String, Option<(Vec<St>, HashMap<usize, String>)>>) -> Option<String> {
    let t = match tp::decode(&out.data) { Some(t) => t, None => return Some("the run is reported as successful but its data does not decode".into()) };
    let attacker_id = &e.peers[e.attacker].id;
    let victim_id = &e.peers[e.victim].id;
    // O1: every result attributed to an honest peer is one that peer really produced
    for (pos, owner, cid, kind) in tp::attributed(&t.j) {
        // (the receiver's own results — also the ones it produces in this very run — are not another peer's results)
        if &owner == attacker_id || &owner == victim_id { continue; }
        if !e.peers.iter().any(|p| p.id == owner) { return Some(format!("output state {pos} is attributed to {owner}, which is not a participant")); }
        let failed = kind == Kind::Failed;
        let set = e.truth.produced.get(&owner);
        if !set.map(|s| s.contains(&(cid.clone(), failed))).unwrap_or(false) {
            if set.map(|s| s.contains(&(cid.clone(), !failed))).unwrap_or(false) {
                return Some(format!("KIND: output state {pos} presents the result {cid} of the honest peer {owner} as {}, but {owner} produced it as {}", if failed { "a FAILED call" } else { "a SUCCESSFUL call" }, if failed { "a successful one" } else { "a failed one" }));
            }
            return Some(format!("output state {pos} carries result {cid} attributed to the honest peer {owner}, which never produced it"));
        }
        // the same content id must stand for the same content (value, tetraplet, argument hash / canon elements)
        if let Some(want) = e.truth.content.get(&cid) { let got = content_of(&t.j, pos); if &got != want {
            return Some(format!("output state {pos}: the content stored under the result {cid} of the honest peer {owner} is {got}, the owner produced {want}")); } }
    }
    // O5: every honest peer's entry of the ACCEPTED current data is that peer's own signature over exactly its results in that data, for this particle
    // (re-checked with the harness's own encoding and the registry of signatures honest peers really made)
    if let Some(c) = tp::decode(e.tampered_cur) {
        for p in e.peers.iter().filter(|p| p.id != *attacker_id) {
            let pk = p.kp.public().to_string();
            let cids = tp::peer_cids(&c.j, &p.id);
            match c.j["signatures"].get(&pk).and_then(|s| s.as_str()) {
                None => if !cids.is_empty() { return Some(format!("accepted current data holds results of the honest peer {} but no signature of it", p.id)); },
                Some(sig) => { let want = tp::salted_bytes(&cids, e.particle);
                    if e.sig_known.get(sig).map(|(k, m)| k == &pk && m == &want) != Some(true) {
                        return Some(format!("accepted current data carries for the honest peer {} a signature that is not its signature over its {} results in this data for particle '{}'", p.id, cids.len(), e.particle)); } }
            }
        }
    }
    // O6: a canon result is accepted only from the peer its canon instruction names (checked when every canon of the script names its peer literally)
    {
        let air = &e.net.air;
        let mut lits: Vec<&str> = vec![]; let mut all_literal = true; let mut rest = air.as_str();
        while let Some(i) = rest.find("(canon ") { rest = &rest[i + 7..];
            if let Some(r) = rest.strip_prefix('"') { if let Some(j) = r.find('"') { lits.push(&r[..j]); } } else if rest.starts_with("%init_peer_id%") { lits.push(e.net.peer_ids[e.net.init].as_str()); } else { all_literal = false; } }
        if all_literal { for (pos, owner, cid, kind) in tp::attributed(&t.j) { if kind == Kind::Canon && !lits.contains(&owner.as_str()) {
            return Some(format!("output state {pos}: canon result {cid} executed by {owner} accepted, but no canon instruction of the script names that peer")); } } }
    }
    // O4: elements of canon results that claim to be service results of an honest peer must be results that peer produced
    for (pos, canon_owner, peer, ptype, pcid) in tp::canon_elements(&t.j) {
        if ptype != "service_result" || &peer == attacker_id || !e.peers.iter().any(|p| p.id == peer) { continue; }
        if !e.truth.produced.get(&peer).map(|s| s.contains(&(pcid.clone(), false)) || s.contains(&(pcid.clone(), true))).unwrap_or(false) {
            return Some(format!("CANON-ELEMENT: the canon result at {pos} (executed by {canon_owner}) holds an element presented as the service result {pcid} of the honest peer {peer}, which never produced it"));
        }
    }
    // O2: use site. The call instance a state belongs to is named by its structural path in the trace (par branch / fold iteration /
    // index among siblings), which does not depend on how far other subtrees have progressed. Align with the honest baseline
    // (same receiver, same previous data, untampered current data) by path.
    let (fo, fb) = (facts(&out.data)?, facts(&e.base.data));
    if let Some(fb) = fb {
        let (po, pb) = (paths(&fo.trace), paths(&fb.trace));
        let base_by_path: HashMap<&String, usize> = pb.iter().enumerate().filter(|(_, p)| !p.is_empty()).map(|(i, p)| (p, i)).collect();
        let base_t = tp::decode(&e.base.data);
        for (pos, owner, cid, kind) in tp::attributed(&t.j) {
            if &owner == attacker_id || &owner == victim_id || kind == Kind::Canon { continue; }
            let path = &po[pos];
            if path.is_empty() { rep.stat("use_site_unjudged(no path)"); continue; }
            let bpos = base_by_path.get(path).cloned();
            if let Some(bp) = bpos {
                if cid_of_state(&fb.trace[bp]) == Some(&cid) { rep.stat("use_site_same_as_honest_run"); continue; }
                // inside a stream / map fold the iteration index of a path is the index in the fold's lore, and the lore order is not the
                // same in every run (it follows the generations of the data): the same result at the same place of ANOTHER iteration of
                // the same fold in the honest run is the same call instance listed at another index, not a relocation
                if path.contains('i') {
                    let norm = |p: &str| { let b = p.as_bytes(); let mut o = String::new(); let mut k = 0; while k < b.len() { o.push(b[k] as char); if b[k] == b'i' { while k + 1 < b.len() && b[k + 1].is_ascii_digit() { k += 1; } o.push('*'); } k += 1; } o };
                    let np = norm(path);
                    if pb.iter().enumerate().any(|(i, q)| !q.is_empty() && norm(q) == np && cid_of_state(&fb.trace[i]) == Some(&cid)) { rep.stat("use_site_same_as_honest_run(other lore index of the same fold)"); continue; }
                }
                if let Some(cb) = cid_of_state(&fb.trace[bp]) {
                    if !matches!(fb.trace[bp], St::Canon(_)) { if let Some(ob) = base_t.as_ref().and_then(|b| tp::state_owner(&b.j, &b.j["trace"][bp])) { if &ob != attacker_id {
                        return Some(format!("output state {pos} (path {path}): result {cid} of {owner} accepted where the honest run holds the result {cb} of the same call (relocated result accepted)")); } } }
                    continue;
                }
            }
            // the honest run has no result there (request pending / not reached): what would the owner itself compute for the calls pending for it?
            let Some(op) = e.peers.iter().find(|p| p.id == owner) else { continue };
            let exp = owner_cache.entry(owner.clone()).or_insert_with(|| expected_as_owner(e.net, op, &e.base.data));
            match exp { Some((tr, m)) => { let pq = paths(tr);
                    match pq.iter().position(|p| p == path).and_then(|i| m.get(&i)) {
                        Some(want) => if want != &cid { return Some(format!("output state {pos} (path {path}): result {cid} of {owner} accepted at a call whose own parameters give {want} (result of another call accepted)")); } else { rep.stat("use_site_early_delivery_same_parameters"); },
                        None => rep.stat("use_site_unjudged(call not pending for owner)") } }
                None => rep.stat("use_site_unjudged(no owner run)") }
        }
    }
    // O3: the produced data is itself well-formed, verifiable and accepted by another peer (C03 checks)
    if e.base_c03_ok { if let Some(why) = check_c03_data(e.net, &out.data, e.observer) {
        // explained by an inherited signature? the output keeps another peer's signature exactly as it came with the (verified) current
        // or the previous data, while the output trace holds a different multiset of that peer's results (states of the current data
        // that the run did not visit are dropped; a relocated copy is added to what the previous data already holds)
        let prev_t = tp::decode(e.prev);
        let ms = |j: &Value, id: &str| { let mut v = tp::peer_cids(j, id); v.sort(); v };
        let stale = tp::decode(e.tampered_cur).map(|c| e.peers.iter().filter(|p| p.id != *victim_id).any(|p| {
            let pk = p.kp.public().to_string();
            let so = t.j["signatures"].get(&pk);
            if so.is_none() { return false; }
            let from_cur = c.j["signatures"].get(&pk) == so && ms(&c.j, &p.id) != ms(&t.j, &p.id);
            let from_prev = prev_t.as_ref().map(|pt| pt.j["signatures"].get(&pk) == so && ms(&pt.j, &p.id) != ms(&t.j, &p.id)).unwrap_or(false);
            let in_cur = c.j["signatures"].get(&pk) == so; let in_prev = prev_t.as_ref().map(|pt| pt.j["signatures"].get(&pk) == so).unwrap_or(false);
            (from_cur && !(in_prev && !from_prev)) || (from_prev && !(in_cur && !from_cur)) })).unwrap_or(false);
        return Some(format!("{}accepted run, but its output fails the produced-data checks: {why}", if stale { "STALE-SIGNATURE: " } else { "" })); } }
    None
}


/// scripts that make sure every run sees: a failed call whose failure selects the xor branch, a canon of a stream filled by two peers,
/// two calls of one peer with identical parameters (a relocation that is semantically void), independent results in par
fn targeted_scripts() -> Vec<String> {
    let p = peers_for(5);
    let (a, b, c, d, e) = (&p[0].id, &p[1].id, &p[2].id, &p[3].id, &p[4].id);
    vec![
        format!(r#"(seq (xor (call "{b}" ("svc" "fail_1") [] v) (call "{c}" ("svc" "str_2") [] v)) (seq (call "{d}" ("svc" "echo_3") [v] w) (call "{a}" ("svc" "echo_4") [w] z)))"#),
        format!(r#"(seq (seq (call "{b}" ("svc" "str_1") [] $s) (call "{c}" ("svc" "str_2") [] $s)) (seq (canon "{d}" $s #c) (seq (call "{e}" ("svc" "echo_3") [#c] w) (call "{a}" ("svc" "echo_4") [w] z))))"#),
        format!(r#"(seq (call "{b}" ("svc" "str_1") [] x) (seq (call "{b}" ("svc" "str_1") [] y) (seq (call "{c}" ("svc" "echo_2") [x y] z) (call "{a}" ("svc" "echo_4") [z] u))))"#),
        format!(r#"(seq (par (call "{b}" ("svc" "num_1") [] x) (par (call "{c}" ("svc" "str_2") [] y) (call "{d}" ("svc" "obj_3") [] o))) (call "{e}" ("svc" "echo_5") [x y o] r))"#),
        format!(r#"(seq (call "{b}" ("svc" "obj_1") [] o) (seq (xor (call "{c}" ("svc" "fail_2") [o.$.n] v) (call "{c}" ("svc" "num_3") [] v)) (call "{d}" ("svc" "echo_4") [v o.$.s] w)))"#),
    ]
}

#[allow(clippy::too_many_arguments)]
fn attack_history(ctx: &mut Ctx, rep: &mut Report, rng: &mut Rng, air: &str, net: &Net, seed: u64, observer: &Peer, max_cases_per_msg: usize, max_msgs: usize) {
    let air = air.to_string();
        let peers: Vec<Peer> = net.peers.iter().map(|p| p.peer.clone()).collect();
        if net.sent_messages.is_empty() { rep.stat("histories_without_messages"); return; }
        rep.stat("histories");
        // the same history (script, schedule) under another particle id: donor of replayed signatures
        let other_particle = format!("{}-other", net.particle);
        let mut net2 = Net::new(&air, &peers, &other_particle);
        let mut r2 = Rng::new(seed); net2.run_random(&mut r2, 60);
        let truth = ground_truth(net, rep);
        let mut reg = SigRegistry::default();
        for st in &net.log { if let Some(t) = tp::decode(&st.outcome.data) { reg.learn(&t.j, &net.particle, &peers, rep); } }
        for st in &net2.log { if let Some(t) = tp::decode(&st.outcome.data) { reg.learn(&t.j, &other_particle, &peers, rep); } }
        // older signatures per key (same particle)
        let mut older: HashMap<String, Vec<Value>> = HashMap::new();
        for st in &net.log { if let Some(t) = tp::decode(&st.outcome.data) { if let Some(s) = t.j["signatures"].as_object() { for (k, v) in s { let e = older.entry(k.clone()).or_default(); if !e.contains(v) { e.push(v.clone()); } } } } }
        // messages with the most attributed results first
        let mut msgs: Vec<usize> = (0..net.sent_messages.len()).collect();
        msgs.sort_by_key(|&i| std::cmp::Reverse(tp::decode(&net.sent_messages[i].1).map(|t| tp::attributed(&t.j).len()).unwrap_or(0)));
        msgs.dedup_by_key(|i| net.sent_messages[*i].1.clone());
        for &mi in msgs.iter().take(max_msgs) {
            let (victim, data) = (net.sent_messages[mi].0, net.sent_messages[mi].1.clone());
            let Some(t0d) = tp::decode(&data) else { continue };
            let att = tp::attributed(&t0d.j);
            if att.is_empty() { rep.stat("messages_without_results"); continue; }
            // previous data of the receiver: what it held when the message first arrived in the honest history (or nothing)
            let prev: Vec<u8> = if rng.chance(1, 5) { vec![] } else { net.log.iter().find(|s| s.peer == victim && s.cur == data).map(|s| s.prev.clone()).unwrap_or_default() };
            let run_victim = |cur: &[u8], particle: &str| run_catch(&RunArgs { air: &net.air, prev: &prev, cur, init_peer_id: &net.peer_ids[net.init], peer: &peers[victim], particle_id: particle,
                timestamp: net.timestamp, ttl: net.ttl, results: &CallResults::new(), limits: Limits::unlimited() });
            // the honest delivery itself: correspondence with the model on untampered data; a verification-stage rejection of honest data is a failure
            {
                let prev_d: InterpreterData = decode_data(&prev).map(|x| x.1).unwrap_or_default();
                if let Some((_, cur_d)) = decode_data(&data) {
                    let real = real_verification(&prev_d, &cur_d, &net.particle);
                    let (cf, pf) = (facts_json(&cur_d, &mut reg), facts_json(&prev_d, &mut reg));
                    let req = json!({"op": "verify_data", "salt": net.particle, "non_json_values": non_json_values(&[&cf, &pf]), "cur": cf, "prev": pf});
                    let m = ctx.driver.ask(&req);
                    rep.model_compared += 1; rep.stat(&format!("honest_delivery_model_verdict_{}", m["result"].as_str().unwrap_or("?")));
                    let code = run_victim(&data, &net.particle).ok().map(|o| o.ret_code);
                    if let Some(why) = compare_verification(&m, &real, code, &mut reg) { rep.disagree(json!({"op": "verify_data", "why": why, "tampering": ["none (honest delivery)"], "request": req, "model": m, "implementation": real, "run_code": code})); }
                }
            }
            let base = match run_victim(&data, &net.particle) { Ok(o) if accepted(o.ret_code) => o,
                Ok(o) => { rep.stat(&format!("baseline_not_accepted_{}", codes::name_of(o.ret_code)));
                    if o.ret_code == codes::prep("CidStoreVerificationError") || o.ret_code == codes::prep("DataSignatureCheckError") {
                        rep.oracle_fail(json!({"why": format!("honest data in flight is rejected by the verification step of its honest addressee: code {} {}", o.ret_code, o.error_message.chars().take(300).collect::<String>()),
                            "input": {"air": net.air, "particle": net.particle, "peer": peers[victim].name, "init_peer": peers[net.init].name, "prev_hex": hex(&prev), "cur_hex": hex(&data), "results": {}, "tampering": ["none (honest delivery)"]}})); }
                    continue; }
                Err(_) => { rep.stat("baseline_panic"); continue; } };
            let base_c03_ok = check_c03_data(net, &base.data, observer).is_none();
            if !base_c03_ok { rep.stat("baseline_output_fails_c03(skipping O3)"); }
            // the attacker: a participant other than the receiver, preferably one that owns none of the results (more targets)
            let cands: Vec<usize> = (0..peers.len()).filter(|&p| p != victim).collect();
            // (half of the time the participant owning the fewest results of this message, so that most results are targets)
            let owned = |p: usize| att.iter().filter(|(_, o, _, _)| o == &peers[p].id).count();
            let attacker = if rng.chance(1, 2) { *cands.iter().min_by_key(|&&p| owned(p)).unwrap() } else { *rng.pick(&cands) };
            let honest: Vec<(String, String)> = peers.iter().enumerate().filter(|(i, _)| *i != attacker).map(|(_, p)| (p.id.clone(), p.kp.public().to_string())).collect();
            let replay_sigs: HashMap<String, Value> = net2.sent_messages.get(mi).and_then(|(_, d)| tp::decode(d)).and_then(|t| t.j["signatures"].as_object().map(|s| s.iter().map(|(k, v)| (k.clone(), v.clone())).collect())).unwrap_or_default();
            let tctx = TamperCtx { attacker: &peers[attacker], peers: honest, replay_sigs, older_sigs: older.clone() };
            let empty_known = HashMap::new();
            let env = CaseEnv { particle: &net.particle, sig_known: &empty_known, tampered_cur: &[], net, peers: &peers, victim, attacker, prev: &prev, honest_cur: &data, base: &base, truth: &truth, observer, base_c03_ok };
            let prev_data: InterpreterData = decode_data(&prev).map(|x| x.1).unwrap_or_default();
            let targets: Vec<(usize, String, String, Kind)> = att.iter().filter(|(_, o, _, _)| o != &peers[attacker].id).cloned().collect();
            rep.stat_n("targets", targets.len() as u64);
            if targets.is_empty() { rep.stat("messages_without_honest_targets"); continue; }
            let mut owner_cache = HashMap::new();
            // ---- the plan: singles exhaustively, pairs sampled
            let mut plan: Vec<Vec<(Op, usize)>> = vec![];
            for (ti, (_, _, _, kind)) in targets.iter().enumerate() { for op in tp::catalog(*kind) { plan.push(vec![(op, ti)]); } }
            let singles = plan.len();
            let n_pairs = if ctx.thorough { singles } else { singles / 3 + 4 };
            for _ in 0..n_pairs {
                let (t1, t2) = (rng.below(targets.len()), rng.below(targets.len()));
                let (c1, c2) = (tp::catalog(targets[t1].3), tp::catalog(targets[t2].3));
                plan.push(vec![(rng.pick(&c1).clone(), t1), (rng.pick(&c2).clone(), t2)]);
            }
            if plan.len() > max_cases_per_msg { let keep: Vec<Vec<(Op, usize)>> = { let mut idx: Vec<usize> = (0..plan.len()).collect(); rng.shuffle(&mut idx); idx.truncate(max_cases_per_msg); idx.sort(); idx.into_iter().map(|i| plan[i].clone()).collect() }; plan = keep; rep.stat("messages_with_sampled_plan"); }
            for ops in plan {
                let mut t: TData = t0d.clone();
                let mut what = vec![]; let mut names = vec![];
                let mut case_rng = rng.fork();
                for (op, ti) in &ops {
                    let (pos, owner, _, _) = &targets[*ti];
                    // an earlier operation may have changed the state: skip inapplicable ones
                    if let Some(w) = tp::apply(op, &mut t, *pos, owner, &tctx, &mut case_rng) { what.push(format!("{}: {w}", op.name())); names.push(op.name()); }
                }
                if what.is_empty() { rep.stat("op_not_applicable"); continue; }
                tp::resign(&mut t.j, &peers[attacker], &net.particle);
                // the attacker's fresh signature is a known term
                { let pk = peers[attacker].kp.public().to_string(); if let Some(s) = t.j["signatures"].get(&pk).and_then(|s| s.as_str()) {
                    let msg = tp::salted_bytes(&tp::peer_cids(&t.j, &peers[attacker].id), &net.particle); reg.known.insert(s.to_string(), (pk, msg)); } }
                let label = names.join("+");
                let Some(bytes) = tp::encode(&t) else { rep.stat(&format!("unencodable[{}]", if ops.len() == 1 { label.as_str() } else { "PAIR" })); continue };
                if same_data(&bytes, &data) { rep.stat(&format!("noop[{}]", if ops.len() == 1 { label.as_str() } else { "PAIR" })); continue; }
                run_case(ctx, rep, &env, &mut reg, &prev_data, &bytes, &net.particle, &label, &what, &format!("{}|{mi}|{:?}", air, ops.iter().map(|(o, t)| (o.name(), targets[*t].0)).collect::<Vec<_>>()), &mut owner_cache, ops.len());
            }
            // ---- the canon executor as attacker: it lies about the provenance of a stream element
            for (pos, owner, _, kind) in att.iter() {
                if *kind != Kind::Canon || owner == &peers[victim].id { continue; }
                let Some(x) = peers.iter().position(|p| &p.id == owner) else { continue };
                let Some(hp) = peers.iter().enumerate().find(|(i, _)| *i != x && *i != victim).map(|(_, p)| p.id.clone()) else { continue };
                let mut t = t0d.clone();
                let Some(w) = tp::forge_own_canon_element(&mut t, *pos, &hp) else { continue };
                tp::resign(&mut t.j, &peers[x], &net.particle);
                { let pk = peers[x].kp.public().to_string(); if let Some(s) = t.j["signatures"].get(&pk).and_then(|s| s.as_str()) {
                    let msg = tp::salted_bytes(&tp::peer_cids(&t.j, &peers[x].id), &net.particle); reg.known.insert(s.to_string(), (pk, msg)); } }
                let Some(bytes) = tp::encode(&t) else { continue };
                run_case(ctx, rep, &CaseEnv { attacker: x, ..env }, &mut reg, &prev_data, &bytes, &net.particle, "own_canon_element_forgery", &[format!("own_canon_element_forgery: {w}")], &format!("{}|{mi}|owncanon{pos}", air), &mut owner_cache, 1);
            }
            // ---- whole-data cases: the honest data under another particle id; the other particle's data under this particle id
            run_case(ctx, rep, &CaseEnv { prev: &[], base_c03_ok: false, ..env },
                     &mut reg, &InterpreterData::default(), &data, &other_particle, "particle_id_change", &["honest data delivered under another particle id".to_string()], &format!("{}|{mi}|pid", air), &mut owner_cache, 1);
            if let Some((_, d2)) = net2.sent_messages.get(mi) { if !same_data(d2, &data) {
                run_case(ctx, rep, &env, &mut reg, &prev_data, d2, &net.particle, "other_particle_data", &["data of the same history run under another particle id".to_string()], &format!("{}|{mi}|replay", air), &mut owner_cache, 1); } }
        }
    }

pub fn run(ctx: &mut Ctx, rep: &mut Report) {
    rep.rule = "case = one tampered delivery: honest history of a generated script over 3-5 peers with real keypairs; a message in flight is decoded, one (single, exhaustive over every result attributed to an honest peer x catalog) \
        or two (pairs, sampled) tampering operations are applied, the attacker (a participant) re-signs only its own entry, the data is re-encoded and delivered to the honest addressee via execute_air; \
        plus whole-data replays (other particle id / other particle's data); no-op tamperings (data unchanged after canonical re-encoding) are recognised and skipped; \
        non-trivial = the tampered data differs from the honest data; distinct by hash of (script, message, operations, positions)".into();
    // remember where a caught panic happened (the payload alone does not say)
    std::panic::set_hook(Box::new(|info| { if let (Ok(mut s), Some(l)) = (LAST_PANIC_AT.lock(), info.location()) { *s = format!("{}:{}", l.file().rsplit("/repo/").next().unwrap_or(l.file()), l.line()); } }));
    let mut rng = Rng::new(ctx.seed ^ 0xC14);
    let n_hist = if ctx.thorough { 9000 } else { 120 };
    let max_cases_per_msg = if ctx.thorough { 400 } else { 140 };
    let max_msgs = if ctx.thorough { 8 } else { 4 };
    let observer = Peer::new("observer");
    let budget_s = if ctx.thorough { 840.0 } else { 55.0 };
    let t0 = std::time::Instant::now();
    // targeted histories first: a failed call inside xor, a canon, two calls with identical parameters, results of several peers in par
    for (ti, air) in targeted_scripts().into_iter().enumerate() {
        let peers = peers_for(5);
        let seed = 0x7A26E7 + ti as u64 + ctx.seed;
        let mut net = Net::new(&air, &peers, &format!("particle-t{ti}-{seed:x}"));
        let mut r2 = Rng::new(seed); net.run_random(&mut r2, 60);
        rep.stat("histories_targeted");
        attack_history(ctx, rep, &mut rng, &air, &net, seed, &observer, usize::MAX, 8);
    }
    for hi in 0..n_hist {
        if t0.elapsed().as_secs_f64() > budget_s { rep.stat("histories_cut_by_time_budget"); break; }
        let streams = hi % 2 == 1;
        let budget = 6 + rng.below(10); let h = gen_history(&mut rng, streams, false, budget, 60);
        attack_history(ctx, rep, &mut rng, &h.air, &h.net, h.seed, &observer, max_cases_per_msg, max_msgs);
    }
}

#[allow(clippy::too_many_arguments)]
fn run_case(ctx: &mut Ctx, rep: &mut Report, e: &CaseEnv, reg: &mut SigRegistry, prev_data: &InterpreterData, cur: &[u8], particle: &str, label: &str, what: &[String], canonical: &str,
            owner_cache: &mut HashMap<String, Option<(Vec<St>, HashMap<usize, String>)>>, n_ops: usize) {
    let net = e.net;
    let prev_bytes: &[u8] = if particle == net.particle { e.prev } else { &[] };
    let out = run_catch(&RunArgs { air: &net.air, prev: prev_bytes, cur, init_peer_id: &net.peer_ids[net.init], peer: &e.peers[e.victim], particle_id: particle, timestamp: net.timestamp, ttl: net.ttl,
                                   results: &CallResults::new(), limits: Limits::unlimited() });
    rep.case(canonical, true, || json!({"air": net.air, "tampering": what, "outcome": out.as_ref().map(|o| o.ret_code).unwrap_or(PANIC_CODE)}));
    rep.stat(if n_ops == 1 { "cases_single" } else { "cases_pair" });
    let code = out.as_ref().ok().map(|o| o.ret_code);
    let stage = match code { None => "PANIC".to_string(), Some(c) if accepted(c) => "accepted".into(), Some(c) if is_prep(c) => format!("prep:{}", codes::name_of(c)),
        Some(c) if is_uncatchable(c) => format!("exec:{}", codes::name_of(c)), Some(c) => format!("code{c}") };
    let slabel = if n_ops == 1 { label.to_string() } else { "PAIR".to_string() };
    rep.stat(&format!("stage[{slabel}] {stage}"));
    // ---- correspondence with the model of the verification step
    if let Some((_, cur_data)) = decode_data(cur) {
        let real = real_verification(prev_data, &cur_data, particle);
        let (cf, pf) = (facts_json(&cur_data, reg), facts_json(prev_data, reg));
        let req = json!({"op": "verify_data", "salt": particle, "non_json_values": non_json_values(&[&cf, &pf]), "cur": cf, "prev": pf});
        let m = ctx.driver.ask(&req);
        rep.model_compared += 1;
        rep.stat(&format!("model_verdict_{}{}", m["result"].as_str().unwrap_or("?"), m["sub"].as_str().map(|s| format!(":{s}")).unwrap_or_default()));
        if let Some(why) = compare_verification(&m, &real, code, reg) {
            rep.disagree(json!({"op": "verify_data", "why": why, "tampering": what, "request": req, "model": m, "implementation": real, "run_code": code}));
        }
        if m["result"] == "ok" && code.is_none() { rep.stat("panic_after_verification(C01)"); }
    } else { rep.stat("tampered_data_does_not_decode"); }
    // ---- direct oracle
    match &out {
        Err(msg) => {
            // a panic is a rejection of sorts, but never acceptable behaviour: reported (C01 owns the site inventory)
            rep.stat("interpreter_panics");
            let at = last_panic_at();
            rep.stat(&format!("panic_at[{at}]"));
            // the `argument_hash.unwrap()` of handle_prev_state: an Executed/Failed state offered to a call whose arguments are not resolvable yet
            let key = if at.contains("call/prev_result_handler.rs") && msg.contains("Option::unwrap()") { Some("panic-result-state-at-call-with-unresolved-arguments") } else { None };
            fail(rep, key, json!({"why": format!("the receiving peer's interpreter panicked on tampered (but verified) data at {at}: {msg}"), "input": replay_input(e, cur, particle, what)}));
        }
        Ok(o) if accepted(o.ret_code) => {
            rep.stat(&format!("accepted[{label}]"));
            let known_now = reg.known.clone();
            let env2 = CaseEnv { particle, sig_known: &known_now, tampered_cur: cur, prev: prev_bytes, base_c03_ok: e.base_c03_ok && particle == net.particle, ..*e };
            if let Some(why) = oracle_accepted(&env2, o, rep, owner_cache) {
                let key = if why.starts_with("KIND:") { Some("call-result-kind-not-authenticated") } else if why.starts_with("CANON-ELEMENT:") { Some("canon-element-provenance-not-authenticated") } else if why.starts_with("STALE-SIGNATURE:") { Some("inherited-signature-does-not-cover-output-trace") } else { None };
                fail(rep, key, json!({"why": why, "input": replay_input(e, cur, particle, what), "outcome": outcome_brief(o)}));
            }
        }
        Ok(o) => {
            // rejected: the previous data must come back untouched (C02) — cheap to check here
            if o.data != prev_bytes { rep.oracle_fail(json!({"why": format!("tampered data rejected with code {} but the returned data is not the previous data", o.ret_code), "input": replay_input(e, cur, particle, what)})); }
        }
    }
}

