//! C22 — size limits: implementation under a grid of limits vs (a) the model `executeAir (stagedStages ref)`
//! and (b) a direct oracle of the property statement.
use crate::host::*;
use crate::props::common::*;
use crate::util::*;
use crate::Ctx;
use air_interpreter_interface::{CallResults, CallServiceResult, InterpreterOutcome};
use serde_json::{json, Value};

fn around(n: u64) -> Vec<u64> {
    let mut v = vec![n.saturating_sub(1), n, n.saturating_add(1), 0, u64::MAX];
    v.sort(); v.dedup(); v
}

pub fn run(ctx: &mut Ctx, rep: &mut Report) {
    rep.rule = "case = (script, prev, cur, call results, key, limits grid point); limits range over {size-1,size,size+1,0,max}^3 x {soft,hard}; non-trivial = at least one limit strictly exceeded or exactly met; distinct by hash of (case shape, limit relation vector, mode)".to_string();
    let mut rng = Rng::new(ctx.seed ^ 0xC22);
    let n_cases = if ctx.thorough { 400 } else { 24 };
    let a = Peer::new("a");
    let b = Peer::new("b");
    let scripts: Vec<String> = vec![
        format!(r#"(call "{}" ("svc" "f") [] x)"#, a.id),
        format!(r#"(seq (call "{}" ("svc" "f") [] x) (call "{}" ("svc" "g") [x] y))"#, a.id, b.id),
        format!(r#"(xor (call "{}" ("svc" "fail") [] x) (call "{}" ("svc" "g") [:error:] y))"#, a.id, a.id),
        "(null)".to_string(),
        "(seq (null)".to_string(),              // parse error
        r#"(call %init_peer_id% ("" "") [undefined_var])"#.to_string(),   // validator error
        format!(r#"(seq (call "{}" ("svc" "f") [] x) (fail x))"#, a.id), // catchable error at run time
    ];
    // real data to use as prev / cur
    let base = &scripts[1];
    let outs_a = run_to_quiescence(base, &a, &a.id, "pid", &[], &echo_service, 8);
    let data_a = outs_a.last().unwrap().data.clone();
    let outs_b = run_to_quiescence(base, &b, &a.id, "pid", &data_a, &echo_service, 8);
    let data_b = outs_b.last().unwrap().data.clone();

    for case_no in 0..n_cases {
        let si = rng.below(scripts.len());
        let mut air = scripts[si].clone();
        if rng.chance(1, 3) { air.push_str(&" ".repeat(rng.below(40))); }
        if rng.chance(1, 6) { air.push_str("; héllo ✓ comment"); } // multi-byte: limit is in bytes
        let peer = if rng.chance(1, 2) { &a } else { &b };
        let prev: Vec<u8> = match rng.below(3) { 0 => vec![], 1 => data_a.clone(), _ => outs_a[0].data.clone() };
        let cur: Vec<u8> = match rng.below(5) { 0 => vec![], 1 => data_b.clone(), 2 => data_a.clone(), 3 => vec![1, 2, 3, 4, 5], _ => { let mut d = data_b.clone(); let i = rng.below(d.len()); d[i] ^= 0x41; d } };
        // call results
        let mut results = CallResults::new();
        let mut raw_results: Option<Vec<u8>> = None;
        match rng.below(5) {
            0 => {}
            1 => { results.insert("1".into(), CallServiceResult::ok(&json!("x".repeat(rng.below(30))))); }
            2 => { results.insert("1".into(), CallServiceResult::ok(&json!([1, 2, 3]))); results.insert("77".into(), CallServiceResult::err(3, &json!("boom boom boom"))); }
            3 => { raw_results = Some(vec![0xde, 0xad, 0xbe, 0xef]); }
            _ => { results.insert("2".into(), CallServiceResult { ret_code: 0, result: "é".repeat(rng.below(6) + 1) }); }
        }
        let bad_key = rng.chance(1, 8);
        let raw = raw_results.clone().unwrap_or_else(|| encode_results(&results));
        let result_lens: Option<Vec<u64>> = if raw_results.is_some() { None } else { Some(results.values().map(|r| r.result.len() as u64).collect()) };
        let max_len = result_lens.as_ref().and_then(|v| v.iter().max().cloned()).unwrap_or(0);

        let do_run = |limits: Limits| -> InterpreterOutcome {
            let args = RunArgs { air: &air, prev: &prev, cur: &cur, init_peer_id: &a.id, peer, particle_id: "pid", timestamp: 1, ttl: 1, results: &results, limits };
            if bad_key {
                let params = air_interpreter_interface::RunParameters {
                    init_peer_id: a.id.clone(), current_peer_id: peer.id.clone(), timestamp: 1, ttl: 1, key_format: 200, secret_key_bytes: vec![1, 2, 3],
                    particle_id: "pid".into(), air_size_limit: limits.air, particle_size_limit: limits.particle, call_result_size_limit: limits.call_result, hard_limit_enabled: limits.hard };
                air::execute_air(air.clone(), prev.clone(), cur.clone(), params, raw.clone().into())
            } else { run_raw(&args, raw.clone()) }
        };
        let reference = do_run(Limits::unlimited());
        rep.stat(&format!("ref_code_{}", reference.ret_code));
        let ref_json = json!({"code": reference.ret_code, "msg": reference.error_message, "next": reference.next_peer_pks, "requests": hex(&reference.call_requests)});

        for &la in &around(air.len() as u64) { for &lp in &around(cur.len() as u64) { for &lc in &around(max_len) { for &hard in &[false, true] {
            let limits = Limits { air: la, particle: lp, call_result: lc, hard };
            let actual = do_run(limits);
            let ex_a = air.len() as u64 > la;
            let ex_p = cur.len() as u64 > lp;
            let ex_c = result_lens.as_ref().map(|v| v.iter().any(|&n| n > lc)).unwrap_or(false);
            let rel = |size: u64, l: u64| if size > l { 2 } else if size == l { 1 } else { 0 };
            let canon = format!("{si}|{}|{}|{}|{}|{}|{}|{}|{}", prev.len() > 0, cur.len(), results.len(), raw_results.is_some(), bad_key,
                                rel(air.len() as u64, la), rel(cur.len() as u64, lp), format!("{}{}", rel(max_len, lc), hard));
            let nontrivial = ex_a || ex_p || ex_c || air.len() as u64 == la || cur.len() as u64 == lp || (max_len == lc && result_lens.is_some());
            let case_json = || json!({"case": case_no, "air": air, "prev_len": prev.len(), "cur_len": cur.len(), "result_lens": result_lens,
                                      "limits": {"air": la, "particle": lp, "call_result": lc, "hard": hard}, "ref_code": reference.ret_code,
                                      "actual": outcome_brief(&actual)});
            rep.case(&canon, nontrivial, case_json);

            // (a) model
            let req = json!({"op": "staged_run", "air": air, "cur_len": cur.len(), "result_lens": result_lens.clone().unwrap_or_default(),
                             "ref": ref_json, "limits": {"air": la, "particle": lp, "call_result": lc, "hard": hard}});
            let m = ctx.driver.ask(&req);
            rep.model_compared += 1;
            let data_kind = if actual.data == prev && same_data(&actual.data, &reference.data) { "both" } else if actual.data == prev { "prev" }
                            else if same_data(&actual.data, &reference.data) { "ref" } else if actual.data.is_empty() { "empty" } else { "other" };
            let model_data = m["data"].as_str().unwrap_or("?");
            let data_ok = data_kind == model_data || (data_kind == "both" && (model_data == "prev" || model_data == "ref"))
                || (model_data == "empty" && actual.data.is_empty()) || (model_data == "prev" && prev.is_empty() && actual.data.is_empty());
            let mut next_sorted = actual.next_peer_pks.clone(); next_sorted.sort();
            let mut mnext: Vec<String> = m["next"].as_array().map(|x| x.iter().map(|s| s.as_str().unwrap_or("").to_string()).collect()).unwrap_or_default(); mnext.sort();
            let flags = json!([actual.air_size_limit_exceeded, actual.particle_size_limit_exceeded, actual.call_result_size_limit_exceeded]);
            let agree = m["code"].as_i64() == Some(actual.ret_code) && m["msg"].as_str().map(canon_msg) == Some(canon_msg(&actual.error_message)) && data_ok
                && mnext == next_sorted && m["requests"].as_str() == Some(hex(&actual.call_requests).as_str()) && m["flags"] == flags;
            if !agree { rep.disagree(json!({"op": "staged_run", "request": req, "model": m, "implementation": outcome_brief(&actual), "impl_data_kind": data_kind, "impl_requests": hex(&actual.call_requests)})); }

            // (b) direct oracle of the property statement
            let early_ref_failure = reference.ret_code >= 1 && reference.ret_code <= 9999;
            let is_prev_shape = actual.data == prev && actual.next_peer_pks.is_empty() && decode_requests(&actual.call_requests).map(|r| r.is_empty()).unwrap_or(false);
            let size_err = |needle: &str| actual.ret_code >= 1 && actual.ret_code <= 9999 && actual.error_message.contains(needle) && is_prev_shape;
            let same_as_ref = actual.ret_code == reference.ret_code && canon_msg(&actual.error_message) == canon_msg(&reference.error_message) && same_data(&actual.data, &reference.data)
                && { let mut r = reference.next_peer_pks.clone(); r.sort(); r == next_sorted } && actual.call_requests == reference.call_requests;
            let mut fail: Option<String> = None;
            if hard {
                if ex_a { if !size_err("air size") { fail = Some("hard mode: script over its limit not rejected with the air size error + prev data".into()); } }
                else if ex_p { if !size_err("particle size") { fail = Some("hard mode: current data over its limit not rejected with the particle size error + prev data".into()); } }
                else if ex_c {
                    if !(size_err("Call result size") || (early_ref_failure && same_as_ref)) { fail = Some("hard mode: call result over its limit not rejected with the call result size error + prev data".into()); }
                } else if !same_as_ref || flags != json!([false, false, false]) { fail = Some("hard mode: nothing exceeds but the outcome differs from the unlimited run or a flag is raised".into()); }
            } else {
                if !same_as_ref { fail = Some("soft mode: outcome differs from the unlimited run".into()); }
                let exp_c_ok = if ex_c { actual.call_result_size_limit_exceeded || early_ref_failure } else { !actual.call_result_size_limit_exceeded };
                if actual.air_size_limit_exceeded != ex_a || actual.particle_size_limit_exceeded != ex_p || !exp_c_ok {
                    fail = Some(format!("soft mode: flags {flags} do not match exceeded = [{ex_a},{ex_p},{ex_c}]"));
                }
            }
            if let Some(why) = fail { rep.oracle_fail(json!({"why": why, "input": case_json(), "prev_hex": hex(&prev), "cur_hex": hex(&cur), "results_hex": hex(&raw), "bad_key": bad_key, "peer": peer.name})); }
        }}}}
    }
}
