//! Small shared pieces: a pool of scripts and helpers producing real interpreter data.
use crate::host::*;
use air_interpreter_interface::{CallResults, CallServiceResult, InterpreterOutcome};
use serde_json::{json, Value};

/// Drive one peer to quiescence on a script: every call request is answered by `service`.
/// Returns the successive outcomes; the last `data` is the peer's final data.
pub fn run_to_quiescence(air: &str, peer: &Peer, init: &str, particle: &str, cur: &[u8],
                         service: &dyn Fn(&str, &str, &[Value]) -> CallServiceResult, max_steps: usize) -> Vec<InterpreterOutcome> {
    let mut prev: Vec<u8> = vec![];
    let mut results = CallResults::new();
    let mut cur = cur.to_vec();
    let mut outs = vec![];
    for _ in 0..max_steps {
        let o = run(&RunArgs { air, prev: &prev, cur: &cur, init_peer_id: init, peer, particle_id: particle, timestamp: 1, ttl: 1,
                               results: &results, limits: Limits::unlimited() });
        cur = vec![];
        results = CallResults::new();
        prev = o.data.clone();
        let reqs = decode_requests(&o.call_requests).unwrap_or_default();
        let done = reqs.is_empty() || o.ret_code != 0;
        for (id, r) in reqs {
            let args: Vec<Value> = air_interpreter_sede::FromSerialized::deserialize(&air_interpreter_interface::CallArgumentsRepr, &r.arguments).unwrap_or_default();
            results.insert(id.to_string(), service(&r.service_id, &r.function_name, &args));
        }
        outs.push(o);
        if done { break; }
    }
    outs
}

pub fn echo_service(svc: &str, func: &str, args: &[Value]) -> CallServiceResult {
    match func {
        "fail" => CallServiceResult::err(1, &json!("service failed")),
        "id" => CallServiceResult::ok(args.get(0).unwrap_or(&Value::Null)),
        _ => CallServiceResult::ok(&json!({"svc": svc, "fn": func, "args": args})),
    }
}
