//! C01 — adversarial interpreter data: honest data of a participant is decoded, edited in its serde (JSON)
//! form and re-encoded with the real codecs.  All content-id stores stay CONSISTENT (every key is the
//! CID of its entry, aggregates reference present entries) and the data is RE-SIGNED with the attacker's own
//! key only: new results are attributed to the attacker (tetraplet.peer_pk = attacker), the signatures of
//! every other peer are left untouched.  Verification therefore passes and the execution stage is reached.
use crate::host::*;
use crate::util::Rng;
use air_interpreter_data::{InterpreterData, ServiceResultCidAggregate, RawValue};
use serde_json::{json, Value};
use std::rc::Rc;

pub const BIG: [u64; 12] = [0, 1, 2, 3, 7, 0x7fff_ffff, 0x8000_0000, 0xCAFEBABE, 0xffff_fffe, 0xffff_ffff, 3_000_000, 100];

/// decoded data in serde form + the interpreter version of its envelope
pub struct Craft { pub j: Value, pub version: semver::Version }

pub fn empty_data_json() -> Value {
    json!({"trace": [], "lcid": 0, "cid_info": {"value_store": {}, "tetraplet_store": {}, "canon_element_store": {}, "canon_result_store": {}, "service_result_store": {}}, "signatures": {}})
}

impl Craft {
    pub fn from_bytes(bytes: &[u8]) -> Option<Craft> {
        let (v, d) = decode_data(bytes)?;
        Some(Craft { j: serde_json::to_value(&d).ok()?, version: v.interpreter_version })
    }
    pub fn empty() -> Craft {
        Craft { j: empty_data_json(), version: air::interpreter_version().clone() }
    }
    pub fn trace(&mut self) -> &mut Vec<Value> { self.j["trace"].as_array_mut().expect("trace") }
    pub fn trace_len(&self) -> usize { self.j["trace"].as_array().map(|a| a.len()).unwrap_or(0) }
    fn store(&mut self, name: &str) -> &mut serde_json::Map<String, Value> { self.j["cid_info"][name].as_object_mut().expect("store") }

    /// value store entry for arbitrary text (not necessarily JSON); the key is the CID of the text
    pub fn add_raw_value(&mut self, raw: &str) -> String {
        let cid = air_interpreter_cid::raw_value_to_json_cid::<RawValue>(raw.as_bytes()).get_inner().to_string();
        self.store("value_store").insert(cid.clone(), Value::String(raw.to_string()));
        cid
    }
    pub fn add_tetraplet(&mut self, peer: &str, service: &str, function: &str, lens: &str) -> String {
        let t: polyplets::SecurityTetraplet = serde_json::from_value(json!({"peer_pk": peer, "service_id": service, "function_name": function, "lens": lens})).expect("tetraplet");
        let cid = air_interpreter_cid::value_to_json_cid(&t).expect("cid").get_inner().to_string();
        self.store("tetraplet_store").insert(cid.clone(), serde_json::to_value(&t).unwrap());
        cid
    }
    pub fn add_service_result(&mut self, value_cid: &str, argument_hash: &str, tetraplet_cid: &str) -> String {
        let a: ServiceResultCidAggregate = serde_json::from_value(json!({"value_cid": value_cid, "argument_hash": argument_hash, "tetraplet_cid": tetraplet_cid})).expect("aggregate");
        let cid = air_interpreter_cid::value_to_json_cid(&a).expect("cid").get_inner().to_string();
        self.store("service_result_store").insert(cid.clone(), serde_json::to_value(&a).unwrap());
        cid
    }
    /// a complete, consistent service result of `attacker` for call `(service, function)` with the given argument values
    pub fn forge_result(&mut self, attacker: &Peer, service: &str, function: &str, args: &[Value], raw_value: &str) -> String {
        let v = self.add_raw_value(raw_value);
        let t = self.add_tetraplet(&attacker.id, service, function, "");
        let ah = argument_hash(args);
        self.add_service_result(&v, &ah, &t)
    }

    /// content ids of the trace that the stores attribute to `peer_id` (what its signature covers)
    pub fn cids_of(&self, peer_id: &str) -> Vec<Rc<str>> {
        let mut out: Vec<Rc<str>> = vec![];
        let ci = &self.j["cid_info"];
        for s in self.j["trace"].as_array().cloned().unwrap_or_default() {
            let call_cid = s.get("call").and_then(|c| c.get("failed").and_then(|f| f.as_str())
                .or_else(|| c.get("executed").and_then(|e| e.get("scalar").and_then(|x| x.as_str()).or_else(|| e.get("stream").and_then(|x| x["cid"].as_str())))));
            if let Some(cid) = call_cid {
                let tc = ci["service_result_store"][cid]["tetraplet_cid"].as_str().unwrap_or("");
                if ci["tetraplet_store"][tc]["peer_pk"].as_str() == Some(peer_id) { out.push(cid.into()); }
            }
            if let Some(cid) = s.get("canon").and_then(|c| c.get("executed")).and_then(|e| e.as_str()) {
                let tc = ci["canon_result_store"][cid]["tetraplet"].as_str().unwrap_or("");
                if ci["tetraplet_store"][tc]["peer_pk"].as_str() == Some(peer_id) { out.push(cid.into()); }
            }
        }
        out
    }

    /// (re)sign the results attributed to `attacker` with its own key
    pub fn resign(&mut self, attacker: &Peer, salt: &str) {
        let cids = self.cids_of(&attacker.id);
        let sig = air_interpreter_signatures::sign_cids(cids, salt, attacker.kp.as_inner()).expect("sign");
        let sig: air_interpreter_signatures::Signature = sig.into();
        self.j["signatures"].as_object_mut().expect("signatures").insert(attacker.kp.public().to_string(), serde_json::to_value(&sig).unwrap());
    }

    pub fn encode(&self) -> Option<Vec<u8>> {
        let d: InterpreterData = serde_json::from_value(self.j.clone()).ok()?;
        Some(crate::tamper::reencode(d, self.version.clone()))
    }
}

pub fn argument_hash(args: &[Value]) -> String {
    let args: Vec<air_interpreter_value::JValue> = args.iter().map(|a| a.clone().into()).collect();
    air_interpreter_cid::value_to_json_cid(&args).expect("cid").get_inner().to_string()
}

pub fn st_scalar(cid: &str) -> Value { json!({"call": {"executed": {"scalar": cid}}}) }
pub fn st_stream(cid: &str, generation: u64) -> Value { json!({"call": {"executed": {"stream": {"cid": cid, "generation": generation}}}}) }
pub fn st_unused(cid: &str) -> Value { json!({"call": {"executed": {"unused": cid}}}) }
pub fn st_failed(cid: &str) -> Value { json!({"call": {"failed": cid}}) }
pub fn st_sent(peer: &str) -> Value { json!({"call": {"sent_by": {"PeerId": peer}}}) }
pub fn st_sent_id(peer: &str, id: u64) -> Value { json!({"call": {"sent_by": {"PeerIdWithCallId": {"peer_id": peer, "call_id": id}}}}) }
pub fn st_par(l: u64, r: u64) -> Value { json!({"par": [l, r]}) }
pub fn st_ap(gens: &[u64]) -> Value { json!({"ap": {"gens": gens}}) }
pub fn st_fold(lore: &[(u64, (u64, u64), (u64, u64))]) -> Value {
    json!({"fold": {"lore": lore.iter().map(|(p, b, a)| json!({"pos": p, "desc": [{"pos": b.0, "len": b.1}, {"pos": a.0, "len": a.1}]})).collect::<Vec<_>>()}})
}

/// One random structure-aware edit; returns a description.  Every edit keeps the stores consistent; edits that
/// introduce results attribute them to the attacker.
pub fn mutate(c: &mut Craft, attacker: &Peer, rng: &mut Rng) -> String {
    let n = c.trace_len();
    let big = |rng: &mut Rng| *rng.pick(&BIG);
    let kind = rng.below(17);
    if n == 0 && kind < 12 { c.trace().push(st_par(big(rng), big(rng))); return "push hostile par on an empty trace".into(); }
    let i = if n == 0 { 0 } else { rng.below(n) };
    match kind {
        0 => { // par sizes
            let pars: Vec<usize> = c.trace().iter().enumerate().filter(|(_, s)| s.get("par").is_some()).map(|(i, _)| i).collect();
            let (l, r) = (big(rng), big(rng));
            if pars.is_empty() { c.trace()[i] = st_par(l, r); return format!("state {i} := par({l},{r})"); }
            let j = pars[rng.below(pars.len())];
            let old = c.trace()[j].clone();
            let (ol, or) = (old["par"][0].as_u64().unwrap_or(0), old["par"][1].as_u64().unwrap_or(0));
            let (nl, nr) = match rng.below(5) { 0 => (l, or), 1 => (ol, r), 2 => (ol + 1, or.saturating_sub(1)), 3 => (l, r), _ => (0xffff_ffff - or, or) };
            c.trace()[j] = st_par(nl, nr);
            format!("par at {j}: ({ol},{or}) -> ({nl},{nr})")
        }
        1 | 2 | 3 => { // fold lore
            let folds: Vec<usize> = c.trace().iter().enumerate().filter(|(_, s)| s.get("fold").is_some()).map(|(i, _)| i).collect();
            if folds.is_empty() {
                let f = st_fold(&[(big(rng), (big(rng), big(rng)), (big(rng), big(rng)))]);
                c.trace()[i] = f; return format!("state {i} := hostile fold");
            }
            let fi = folds[rng.below(folds.len())];
            let tl = n as u64;
            let lore = c.trace()[fi]["fold"]["lore"].as_array_mut().unwrap();
            if lore.is_empty() { lore.push(json!({"pos": 0, "desc": [{"pos": 0, "len": 0}, {"pos": 0, "len": 0}]})); }
            let li = rng.below(lore.len());
            let v = match rng.below(4) { 0 => tl, 1 => tl.saturating_sub(1), 2 => tl + 1, _ => big(rng) };
            match rng.below(7) {
                0 => { lore[li]["pos"] = json!(v); format!("fold {fi} entry {li}: value_pos := {v}") }
                1 | 2 | 3 => {
                    let di = rng.below(2);
                    let which = rng.below(3);
                    // an earlier edit may have dropped descriptors
                    match lore[li]["desc"].as_array_mut().and_then(|d| d.get_mut(di)) {
                        Some(d) => match which { 0 => { d["len"] = json!(v); format!("fold {fi} entry {li} desc {di}: len := {v}") }
                                                 1 => { d["pos"] = json!(v); format!("fold {fi} entry {li} desc {di}: begin := {v}") }
                                                 _ => { *d = json!({"pos": v, "len": 0}); format!("fold {fi} entry {li} desc {di}: (begin {v}, len 0)") } },
                        None => { lore[li]["desc"] = json!([{"pos": v, "len": 0}, {"pos": v, "len": 0}]); format!("fold {fi} entry {li}: descriptors reset to (begin {v}, len 0)") }
                    }
                }
                4 => { if let Some(d) = lore[li]["desc"].as_array_mut() { d.pop(); } format!("fold {fi} entry {li}: one sub-trace descriptor dropped") }
                5 => { let e = lore[li].clone(); lore.push(e); format!("fold {fi} entry {li} duplicated") }
                _ => { lore.remove(li); format!("fold {fi} entry {li} removed") }
            }
        }
        4 => { // generations
            let g = big(rng);
            let s = c.trace()[i].clone();
            if let Some(x) = s.get("call").and_then(|c| c.get("executed")).and_then(|e| e.get("stream")) {
                c.trace()[i] = st_stream(x["cid"].as_str().unwrap_or(""), g); return format!("stream value at {i}: generation := {g}");
            }
            if s.get("ap").is_some() { c.trace()[i] = st_ap(&[g]); return format!("ap at {i}: generation := {g}"); }
            // turn a scalar result of anybody into a stream value of that generation (kind change, CID kept: signatures stay valid)
            if let Some(cid) = s.get("call").and_then(|c| c.get("executed")).and_then(|e| e.get("scalar")).and_then(|x| x.as_str()) {
                c.trace()[i] = st_stream(cid, g); return format!("scalar result at {i} -> stream value with generation {g}");
            }
            c.trace()[i] = st_ap(&[g]); format!("state {i} := ap[{g}]")
        }
        5 => { let gens: Vec<u64> = match rng.below(3) { 0 => vec![], 1 => vec![big(rng), big(rng)], _ => vec![0, 0, 0] }; c.trace()[i] = st_ap(&gens); format!("state {i} := ap{gens:?}") }
        6 => { // CID reference to a missing store entry, in the trace
            let bogus = air_interpreter_cid::raw_value_to_json_cid::<RawValue>(format!("missing-{}", rng.next()).as_bytes()).get_inner().to_string();
            let st = match rng.below(4) { 0 => st_scalar(&bogus), 1 => st_stream(&bogus, 0), 2 => st_failed(&bogus), _ => st_unused(&bogus) };
            c.trace()[i] = st.clone(); format!("state {i} := {st} (content id absent from the stores)")
        }
        7 | 8 => { // a forged result of the attacker whose raw value is hostile text
            let raw = match rng.below(7) { 0 => "not json".to_string(), 1 => "".to_string(), 2 => "{\"a\":".to_string(), 3 => "[1,2".to_string(), 4 => "1e999999".to_string(),
                5 => format!("{}1{}", "[".repeat(200), "]".repeat(200)), _ => "{\"error_code\":18446744073709551615,\"message\":\"\"}".to_string() };
            let cid = c.forge_result(attacker, "s", "f", &[], &raw);
            let st = match rng.below(4) { 0 => st_scalar(&cid), 1 => st_stream(&cid, big(rng)), 2 => st_failed(&cid), _ => st_scalar(&cid) };
            c.trace()[i] = st; format!("state {i} := forged result of the attacker with raw value {:?}", raw.chars().take(24).collect::<String>())
        }
        9 => { // value of an existing result replaced (stores kept consistent up the chain, attributed to the attacker)
            let s = c.trace()[i].clone();
            let cid = s.get("call").and_then(|c| c.get("executed")).and_then(|e| e.get("scalar")).and_then(|x| x.as_str()).map(|s| s.to_string());
            if let Some(cid) = cid {
                let agg = c.j["cid_info"]["service_result_store"][&cid].clone();
                let ah = agg["argument_hash"].as_str().filter(|h| !h.is_empty()).unwrap_or("h").to_string();   // (an empty string would abort the decoder: finding rkyv NonNull)
                let tet = c.j["cid_info"]["tetraplet_store"][agg["tetraplet_cid"].as_str().unwrap_or("")].clone();
                let v = c.add_raw_value(match rng.below(3) { 0 => "not json", 1 => "{\"error_code\":18446744073709551615,\"message\":\"m\"}", _ => "[[[[" });
                let t = c.add_tetraplet(&attacker.id, tet["service_id"].as_str().unwrap_or("s"), tet["function_name"].as_str().unwrap_or("f"), "");
                let ncid = c.add_service_result(&v, &ah, &t);
                c.trace()[i] = st_scalar(&ncid);
                return format!("result at {i} replaced by an attacker result with a hostile raw value (same argument hash)");
            }
            c.trace()[i] = st_sent(&attacker.id); format!("state {i} := sent_by(attacker)")
        }
        10 => { // aggregate pointing at an entry of the wrong kind: the value cid names a tetraplet's text, etc.
            let t = c.add_tetraplet(&attacker.id, "s", "f", "");
            let traw = serde_json::to_string(&c.j["cid_info"]["tetraplet_store"][&t]).unwrap();
            let v = c.add_raw_value(&traw);   // a value whose text is a tetraplet
            let cid = c.add_service_result(&v, "not-a-hash", &t);
            c.trace()[i] = if rng.chance(1, 2) { st_failed(&cid) } else { st_scalar(&cid) };
            format!("state {i} := attacker result whose value is a tetraplet text and whose argument hash is junk")
        }
        11 => { // state kind change keeping content ids
            let s = c.trace()[i].clone();
            let cid = s.get("call").and_then(|c| c.get("executed")).and_then(|e| e.get("scalar").and_then(|x| x.as_str()).or_else(|| e.get("stream").and_then(|x| x["cid"].as_str()))).map(|s| s.to_string());
            match cid {
                Some(cid) => { let st = match rng.below(3) { 0 => st_failed(&cid), 1 => st_stream(&cid, big(rng)), _ => st_scalar(&cid) }; c.trace()[i] = st.clone(); format!("state {i} kind changed to {st}") }
                None => { c.trace()[i] = st_sent_id(&attacker.id, big(rng)); format!("state {i} := sent_by(attacker, id)") }
            }
        }
        12 => { let l = big(rng); c.j["lcid"] = json!(l); format!("lcid := {l}") }
        13 => { if n > 0 { c.trace().remove(i); } format!("dropped state {i}") }
        14 => { if n > 0 { let s = c.trace()[i].clone(); c.trace().insert(i, s); } format!("duplicated state {i}") }
        15 => { if n > 1 { let j = rng.below(n); c.trace().swap(i, j); format!("swapped states {i},{j}") } else { "no-op".into() } }
        _ => { // executed state for a call of the receiver (unresolved-argument calls are hit when the script has them)
            let cid = c.forge_result(attacker, "s", "f", &[], "\"forged\"");
            if n == 0 { c.trace().push(st_scalar(&cid)); } else { c.trace()[i] = st_scalar(&cid); }
            format!("state {i} := forged executed result of the attacker")
        }
    }
}
