//! C25 — content ids are canonical and verification accepts exactly the matching pairs.
//! Real `air_interpreter_cid::{value_to_json_cid, raw_value_to_json_cid, verify_value, verify_raw_value}` against
//! (a) the Lean model (driver ops `cid`, `cid_verify`: same id text, same parse, same verdict and error variant) and
//! (b) direct oracles that do not use the model: ids recomputed with the `blake3`/`sha2` crates and an own base32
//! writer from an own canonical JSON text; acceptance decided from how the id was assembled (version, codec, hash
//! code, declared length, digest bytes) and, for arbitrary text, from what the `cid` crate says the text decodes to.
use crate::util::*;
use crate::Ctx;
use air_interpreter_cid::{raw_value_to_json_cid, value_to_json_cid, verify_raw_value, verify_value, CidVerificationError, CID};
use air_interpreter_value::{JValue, JsonString, Map};
use cid::multibase::{self, Base};
use serde_json::{json, Value};
use sha2::Digest;
use std::collections::{BTreeMap, HashMap};
use std::convert::TryFrom;

const JSON_CODEC: u64 = 0x0200;
const SHA2_256: u64 = 0x12;
const BLAKE3: u64 = 0x1e;

// ---------------------------------------------------------------- values

#[derive(Clone, Debug, PartialEq)]
enum V { Null, Bool(bool), I(i64), U(u64), F(f64), S(String), A(Vec<V>), O(Vec<(String, V)>) }

fn float_text(f: f64) -> String { serde_json::to_string(&f).unwrap() }

/// the tagged tree the model driver reads (insertion order and duplicates kept, floats as printed text)
fn tagged(v: &V) -> Value {
    match v {
        V::Null => json!({"t": "null"}),
        V::Bool(b) => json!({"t": "bool", "v": b}),
        V::I(i) => json!({"t": "int", "v": i.to_string()}),
        V::U(u) => json!({"t": "int", "v": u.to_string()}),
        V::F(f) => json!({"t": "float", "v": float_text(*f)}),
        V::S(s) => json!({"t": "str", "h": hex(s.as_bytes())}),
        V::A(a) => json!({"t": "arr", "v": a.iter().map(tagged).collect::<Vec<_>>()}),
        V::O(o) => json!({"t": "obj", "v": o.iter().map(|(k, x)| json!([hex(k.as_bytes()), tagged(x)])).collect::<Vec<_>>()}),
    }
}

/// own canonical text: objects as the final key→value map (later duplicate wins) in byte order of the keys
fn canon_text(v: &V, out: &mut String) {
    match v {
        V::Null => out.push_str("null"),
        V::Bool(b) => out.push_str(if *b { "true" } else { "false" }),
        V::I(i) => out.push_str(&i.to_string()),
        V::U(u) => out.push_str(&u.to_string()),
        V::F(f) => out.push_str(&float_text(*f)),
        V::S(s) => out.push_str(&serde_json::to_string(s).unwrap()),
        V::A(a) => { out.push('['); for (i, x) in a.iter().enumerate() { if i > 0 { out.push(','); } canon_text(x, out); } out.push(']'); }
        V::O(o) => {
            let mut m: BTreeMap<&[u8], (&String, &V)> = BTreeMap::new();
            for (k, x) in o { m.insert(k.as_bytes(), (k, x)); }
            out.push('{');
            for (i, (_, (k, x))) in m.iter().enumerate() { if i > 0 { out.push(','); } out.push_str(&serde_json::to_string(k).unwrap()); out.push(':'); canon_text(x, out); }
            out.push('}');
        }
    }
}

/// JSON source text in insertion order, duplicate keys kept
fn source_text(v: &V, out: &mut String) {
    match v {
        V::A(a) => { out.push('['); for (i, x) in a.iter().enumerate() { if i > 0 { out.push_str(", "); } source_text(x, out); } out.push(']'); }
        V::O(o) => { out.push('{'); for (i, (k, x)) in o.iter().enumerate() { if i > 0 { out.push(','); } out.push_str(&serde_json::to_string(k).unwrap()); out.push_str(": "); source_text(x, out); } out.push('}'); }
        _ => canon_text(v, out),
    }
}

fn number(v: &V) -> serde_json::Number {
    match v { V::I(i) => (*i).into(), V::U(u) => (*u).into(), V::F(f) => serde_json::Number::from_f64(*f).unwrap(), _ => unreachable!() }
}

/// final pairs of an object (later duplicate wins), in first-occurrence order
fn final_pairs(o: &[(String, V)]) -> Vec<(String, V)> {
    let mut out: Vec<(String, V)> = vec![];
    for (k, x) in o { if let Some(p) = out.iter_mut().find(|p| &p.0 == k) { p.1 = x.clone(); } else { out.push((k.clone(), x.clone())); } }
    out
}

/// the same value with the sign of every float zero flipped (`0.0 == -0.0` for `serde_json::Number`, hence for `JValue`)
fn flip_zero_signs(v: &V) -> V {
    match v {
        V::F(f) if *f == 0.0 => V::F(-*f),
        V::A(a) => V::A(a.iter().map(flip_zero_signs).collect()),
        V::O(o) => V::O(o.iter().map(|(k, x)| (k.clone(), flip_zero_signs(x))).collect()),
        _ => v.clone(),
    }
}

fn has_float_zero(v: &V) -> bool {
    match v { V::F(f) => *f == 0.0, V::A(a) => a.iter().any(has_float_zero), V::O(o) => final_pairs(o).iter().any(|(_, x)| has_float_zero(x)), _ => false }
}

#[derive(Clone, Copy, Debug, PartialEq)]
enum Build { Insert, Collect, ViaSerde, ParseText, Reversed, Shuffled, FromPairsApi }

fn build(v: &V, how: Build, rng: &mut Rng) -> JValue {
    match v {
        V::Null => JValue::Null,
        V::Bool(b) => JValue::Bool(*b),
        V::I(_) | V::U(_) | V::F(_) => JValue::Number(number(v)),
        V::S(s) => JValue::string(s.as_str()),
        V::A(a) => JValue::array(a.iter().map(|x| build(x, how, rng)).collect::<Vec<_>>()),
        V::O(o) => {
            let mut pairs: Vec<(String, V)> = match how { Build::Reversed | Build::Shuffled => final_pairs(o), _ => o.clone() };
            if how == Build::Reversed { pairs.reverse(); }
            if how == Build::Shuffled { rng.shuffle(&mut pairs); }
            match how {
                Build::Collect => pairs.iter().map(|(k, x)| (k.as_str(), build(x, how, rng))).collect::<Vec<_>>().into_iter().collect(),
                Build::FromPairsApi => { let built: Vec<(String, JValue)> = pairs.iter().map(|(k, x)| (k.clone(), build(x, how, rng))).collect(); JValue::object_from_pairs(built) }
                _ => { let mut m: Map<JsonString, JValue> = Map::new(); for (k, x) in &pairs { m.insert(k.as_str().into(), build(x, how, rng)); } JValue::object(m) }
            }
        }
    }
}

fn build_serde(v: &V) -> Value {
    match v {
        V::Null => Value::Null,
        V::Bool(b) => Value::Bool(*b),
        V::I(_) | V::U(_) | V::F(_) => Value::Number(number(v)),
        V::S(s) => Value::String(s.clone()),
        V::A(a) => Value::Array(a.iter().map(build_serde).collect()),
        V::O(o) => { let mut m = serde_json::Map::new(); for (k, x) in o { m.insert(k.clone(), build_serde(x)); } Value::Object(m) }
    }
}

const STRINGS: &[&str] = &["", "a", "b", "aa", "ab", "a\u{0}", "A", "key", "\"", "\\", "/", "\u{8}\u{c}\n\r\t", "\u{1}\u{1f}", "\u{7f}", "\u{80}", "é", "ß",
    "日本", "\u{ffff}", "\u{10000}", "😀", "\u{e000}", "\u{d7ff}", "a\"b\\c", "\u{2028}\u{2029}", "null", "1", " ", "\u{feff}", "z"];
const FLOATS: &[f64] = &[0.0, -0.0, 1.0, -1.0, 1.5, 0.1, 1e21, 1e-7, 1e20, 123456789.125, 9007199254740992.0, 9007199254740993.0, 1.7976931348623157e308, 2.2250738585072014e-308, 5e-324, 0.30000000000000004, 100.0, 1e15, 1e16];
const INTS_U: &[u64] = &[0, 1, 2, 9, 10, 42, 255, 256, 9007199254740991, 9007199254740992, 9007199254740993, 9223372036854775807, 9223372036854775808, 18446744073709551615, 1000000];
const INTS_I: &[i64] = &[-1, -2, -10, -9007199254740993, -9007199254740992, -9007199254740991, i64::MIN, i64::MIN + 1, -255];

struct ValGen { exotic_float: bool }
impl ValGen {
    fn string(&mut self, rng: &mut Rng) -> String {
        match rng.below(4) {
            0 | 1 => rng.pick(STRINGS).to_string(),
            2 => { let n = rng.below(4); (0..n).map(|_| *rng.pick(STRINGS)).collect::<Vec<_>>().join("") }
            _ => { let n = rng.below(12); (0..n).map(|_| { let c = match rng.below(6) { 0 => rng.below(0x20) as u32, 1 => 0x20 + rng.below(0x5f) as u32, 2 => 0x80 + rng.below(0x780) as u32, 3 => 0x800 + rng.below(0xd000) as u32, 4 => 0xe000 + rng.below(0x2000) as u32, _ => 0x10000 + rng.below(0x100000) as u32 }; char::from_u32(c).unwrap_or('?') }).collect() }
        }
    }
    fn scalar(&mut self, rng: &mut Rng) -> V {
        match rng.below(9) {
            0 => V::Null,
            1 => V::Bool(rng.chance(1, 2)),
            2 => V::U(*rng.pick(INTS_U)),
            3 => V::I(*rng.pick(INTS_I)),
            4 => { if rng.chance(1, 2) { V::U(rng.next() >> rng.below(64)) } else { let x = (rng.next() >> rng.below(64)) as i64; if x < 0 { V::I(x) } else { V::I(-x - 1) } } }
            5 => V::F(*rng.pick(FLOATS)),
            6 => { if rng.chance(1, 3) { let f = f64::from_bits(rng.next()); if f.is_finite() { self.exotic_float = true; V::F(f) } else { V::F(2.5) } } else { V::F((rng.range(-100000, 100000) as f64) / 8.0) } }
            _ => V::S(self.string(rng)),
        }
    }
    fn value(&mut self, rng: &mut Rng, depth: usize) -> V {
        if depth == 0 || rng.chance(2, 5) { return self.scalar(rng); }
        if rng.chance(1, 3) {
            let n = rng.below(5);
            V::A((0..n).map(|_| self.value(rng, depth - 1)).collect())
        } else {
            let n = rng.below(6);
            let mut o: Vec<(String, V)> = vec![];
            for _ in 0..n {
                let k = if !o.is_empty() && rng.chance(1, 6) { o[rng.below(o.len())].0.clone() } else { self.string(rng) };
                o.push((k, self.value(rng, depth - 1)));
            }
            V::O(o)
        }
    }
}

// ---------------------------------------------------------------- independent id computation

fn base32_lower(bytes: &[u8]) -> String {
    const A: &[u8] = b"abcdefghijklmnopqrstuvwxyz234567";
    let (mut acc, mut bits, mut out) = (0u32, 0u32, String::new());
    for b in bytes { acc = (acc << 8) | *b as u32; bits += 8; while bits >= 5 { out.push(A[((acc >> (bits - 5)) & 31) as usize] as char); bits -= 5; } acc &= (1 << bits) - 1; }
    if bits > 0 { out.push(A[((acc << (5 - bits)) & 31) as usize] as char); }
    out
}
fn varint(mut n: u64) -> Vec<u8> { let mut o = vec![]; loop { if n < 128 { o.push(n as u8); return o; } o.push((n % 128) as u8 | 0x80); n /= 128; } }
fn sha256(b: &[u8]) -> Vec<u8> { let mut h = sha2::Sha256::new(); h.update(b); h.finalize().to_vec() }
fn blake3_256(b: &[u8]) -> Vec<u8> { blake3::hash(b).as_bytes().to_vec() }
fn hash_of(code: u64, b: &[u8]) -> Option<Vec<u8>> { match code { SHA2_256 => Some(sha256(b)), BLAKE3 => Some(blake3_256(b)), _ => None } }
fn expected_cid(text: &[u8]) -> String {
    let mut bytes = vec![0x01];
    bytes.extend(varint(JSON_CODEC)); bytes.extend(varint(BLAKE3)); bytes.push(32); bytes.extend(blake3_256(text));
    format!("b{}", base32_lower(&bytes))
}

// ---------------------------------------------------------------- verdicts

fn cid_err_name(e: &cid::Error) -> &'static str {
    use cid::Error::*;
    match e { UnknownCodec => "UnknownCodec", InputTooShort => "InputTooShort", ParsingError => "ParsingError", InvalidCidVersion => "InvalidCidVersion",
        InvalidCidV0Codec => "InvalidCidV0Codec", InvalidCidV0Multihash => "InvalidCidV0Multihash", InvalidCidV0Base => "InvalidCidV0Base",
        VarIntDecodeError => "VarIntDecodeError", Io(_) => "Io", InvalidExplicitCidV0 => "InvalidExplicitCidV0" }
}
fn kind(r: &Result<(), CidVerificationError>) -> String {
    match r {
        Ok(()) => "Ok".into(),
        Err(CidVerificationError::ValueMismatch { .. }) => "ValueMismatch".into(),
        Err(CidVerificationError::InvalidJson(_)) => "InvalidJson".into(),
        Err(CidVerificationError::MalformedCid(e)) => format!("MalformedCid({})", cid_err_name(e)),
        Err(CidVerificationError::UnsupportedCidCodec(c)) => format!("UnsupportedCidCodec({c})"),
        Err(CidVerificationError::UnsupportedHashCode(c)) => format!("UnsupportedHashCode({c})"),
    }
}
fn guarded<T>(f: impl FnOnce() -> T) -> Result<T, String> {
    std::panic::catch_unwind(std::panic::AssertUnwindSafe(f)).map_err(|e| if let Some(s) = e.downcast_ref::<String>() { s.clone() } else if let Some(s) = e.downcast_ref::<&str>() { s.to_string() } else { "panic".into() })
}
fn real_verify_value(text: &str, jv: &JValue) -> String { match guarded(|| verify_value(&CID::<JValue>::new(text), jv)) { Ok(r) => kind(&r), Err(p) => format!("PANIC: {p}") } }
fn real_verify_raw(text: &str, raw: &[u8]) -> String { match guarded(|| verify_raw_value(&CID::<JValue>::new(text), raw)) { Ok(r) => kind(&r), Err(p) => format!("PANIC: {p}") } }

/// what the property statement says about a text, given what the `cid` crate decodes it to
fn statement_verdict(text: &str, value_bytes: &[u8]) -> (bool, Value) {
    match cid::Cid::try_from(text) {
        Err(e) => (false, json!(cid_err_name(&e))),
        Ok(c) => {
            let parsed = json!({"version": u64::from(c.version()), "codec": c.codec(), "code": c.hash().code(), "digest": hex(c.hash().digest())});
            let ok = c.version() == cid::Version::V1 && c.codec() == JSON_CODEC && hash_of(c.hash().code(), value_bytes).map(|h| h == c.hash().digest()).unwrap_or(false);
            (ok, parsed)
        }
    }
}

// ---------------------------------------------------------------- assembled ids

#[derive(Clone, Debug)]
enum VarStyle { Minimal, TrailingZero, TenByteWrap }
#[derive(Clone, Debug)]
enum Form { Multi(Base), V0Bare, Raw(String) }
#[derive(Clone, Debug)]
struct IdSpec { version: u64, codec: u64, code: u64, declared: u64, digest: Vec<u8>, trailing: Vec<u8>, codec_style: VarStyle, form: Form, ipfs_prefix: Option<String>, swap_case: bool, label: String }

fn styled(n: u64, s: &VarStyle) -> Vec<u8> {
    match s {
        VarStyle::Minimal => varint(n),
        VarStyle::TrailingZero => { let mut v = varint(n); let l = v.len(); v[l - 1] |= 0x80; v.push(0); v }
        VarStyle::TenByteWrap => { let mut v = varint(n); let l = v.len(); v[l - 1] |= 0x80; while v.len() < 9 { v.push(0x80); } v.push(0x02); v } // bit 64: shifted out
    }
}
impl IdSpec {
    fn bytes(&self) -> Vec<u8> {
        let mut b = varint(self.version);
        b.extend(styled(self.codec, &self.codec_style)); b.extend(varint(self.code)); b.extend(varint(self.declared));
        b.extend(&self.digest); b.extend(&self.trailing);
        b
    }
    fn text(&self) -> Option<String> {
        let core = match &self.form {
            Form::Multi(Base::Identity) => String::from_utf8(self.bytes()).ok().map(|s| format!("\u{0}{s}"))?,
            Form::Multi(b) => multibase::encode(*b, self.bytes()),
            Form::V0Bare => { let mut mh = vec![0x12, 0x20]; mh.extend(&self.digest); bs58::encode(mh).into_string() }
            Form::Raw(s) => s.clone(),
        };
        let core = if self.swap_case { let mut cs: Vec<char> = core.chars().collect(); for c in cs.iter_mut().skip(1) { *c = if c.is_ascii_lowercase() { c.to_ascii_uppercase() } else { c.to_ascii_lowercase() }; } cs.into_iter().collect() } else { core };
        Some(match &self.ipfs_prefix { Some(p) => format!("{p}{core}"), None => core })
    }
    /// verdict from how the id was put together — the property statement, no parser involved.
    /// `None`: the assembly does not determine it (case-swapped case-sensitive bases, raw text).
    fn expected(&self, value_bytes: &[u8]) -> Option<String> {
        let case_insensitive = |b: &Base| matches!(b, Base::Base16Lower | Base::Base16Upper | Base::Base32Lower | Base::Base32Upper | Base::Base32PadLower | Base::Base32PadUpper
            | Base::Base32HexLower | Base::Base32HexUpper | Base::Base32HexPadLower | Base::Base32HexPadUpper | Base::Base36Lower | Base::Base36Upper);
        match &self.form {
            Form::Raw(_) => return None,
            Form::V0Bare => return if self.swap_case { None } else if self.digest.len() == 32 { Some(format!("UnsupportedCidCodec({})", 0x70)) } else { None },
            Form::Multi(b) => { if self.swap_case && !case_insensitive(b) { return None; } }
        }
        if let Some(p) = &self.ipfs_prefix {
            // everything up to and including the first "/ipfs/" is dropped; other prefixes are left to the parser-based oracle
            if !(p.ends_with("/ipfs/") && !p[..p.len() - 1].contains("/ipfs/")) { return None; }
        }
        if matches!(self.codec_style, VarStyle::TrailingZero) { return Some("MalformedCid(VarIntDecodeError)".into()); }
        if self.version == 0x12 && self.codec == 0x20 { return None; }
        if self.version == 0 { return Some("MalformedCid(InvalidExplicitCidV0)".into()); }
        if self.version != 1 { return Some("MalformedCid(InvalidCidVersion)".into()); }
        if self.declared > 64 || (self.digest.len() + self.trailing.len()) < self.declared as usize { return Some("MalformedCid(ParsingError)".into()); }
        if self.codec != JSON_CODEC { return Some(format!("UnsupportedCidCodec({})", self.codec)); }
        let all: Vec<u8> = self.digest.iter().chain(self.trailing.iter()).cloned().collect();
        let read = &all[..self.declared as usize];
        match hash_of(self.code, value_bytes) {
            None => Some(format!("UnsupportedHashCode({})", self.code)),
            Some(h) => Some(if h == read { "Ok".into() } else { "ValueMismatch".into() }),
        }
    }
}

const BASES: &[Base] = &[Base::Identity, Base::Base2, Base::Base8, Base::Base10, Base::Base16Lower, Base::Base16Upper, Base::Base32Lower, Base::Base32Upper,
    Base::Base32PadLower, Base::Base32PadUpper, Base::Base32HexLower, Base::Base32HexUpper, Base::Base32HexPadLower, Base::Base32HexPadUpper, Base::Base32Z,
    Base::Base36Lower, Base::Base36Upper, Base::Base58Flickr, Base::Base58Btc, Base::Base64, Base::Base64Pad, Base::Base64Url, Base::Base64UrlPad];

fn specs_for(value_bytes: &[u8], rng: &mut Rng, thorough: bool) -> Vec<IdSpec> {
    let good = |code: u64| IdSpec { version: 1, codec: JSON_CODEC, code, declared: 32, digest: hash_of(code, value_bytes).unwrap(), trailing: vec![], codec_style: VarStyle::Minimal,
        form: Form::Multi(Base::Base32Lower), ipfs_prefix: None, swap_case: false, label: String::new() };
    let mut out: Vec<IdSpec> = vec![];
    let mut push = |label: &str, s: IdSpec| { let mut s = s; s.label = label.to_string(); out.push(s); };
    for code in [SHA2_256, BLAKE3] {
        let g = good(code);
        push("good", g.clone());
        // every multibase (quick: a random third of them plus the four named in the property)
        for b in BASES { if thorough || matches!(b, Base::Base58Btc | Base::Base32Lower | Base::Base16Lower | Base::Base64 | Base::Base32Upper | Base::Base16Upper) || rng.chance(1, 4) { push("base", IdSpec { form: Form::Multi(*b), ..g.clone() }); } }
        for b in [Base::Base32Lower, Base::Base32Upper, Base::Base16Lower, Base::Base36Lower, Base::Base58Btc, Base::Base64, Base::Base32PadUpper, Base::Base32HexLower] {
            if thorough || rng.chance(1, 2) { push("swapped-case", IdSpec { form: Form::Multi(b), swap_case: true, ..g.clone() }); } }
        // other codecs
        for codec in [0u64, 0x55, 0x70, 0x71, 0x78, 0x0129, 0x0201, 0x01ff, 0x0200 + (1 << 32), u64::MAX, 0x12] { if thorough || rng.chance(1, 2) { push("codec", IdSpec { codec, ..g.clone() }); } }
        // other hash codes with the right digest bytes
        for c in [0u64, 0x11, 0x13, 0x14, 0x16, 0x1b, 0x18, 0x1d, 0x1f, 0xb220, 0x1053, 0x12 + 128, u64::MAX, if code == SHA2_256 { BLAKE3 } else { SHA2_256 }] { if thorough || rng.chance(1, 2) { push("hash-code", IdSpec { code: c, ..g.clone() }); } }
        // sha2-512 / identity with plausible contents
        { let mut h = sha2::Sha512::new(); h.update(value_bytes); push("sha2-512", IdSpec { code: 0x13, declared: 64, digest: h.finalize().to_vec(), ..g.clone() }); }
        push("identity-hash", IdSpec { code: 0, declared: value_bytes.len().min(64) as u64, digest: value_bytes[..value_bytes.len().min(64)].to_vec(), ..g.clone() });
        // truncated digests: declared length shorter (bytes all there = they become trailing), bytes shorter, both shorter
        for n in [0usize, 1, 16, 20, 28, 31] {
            if thorough || rng.chance(1, 2) {
                push("declared-short", IdSpec { declared: n as u64, ..g.clone() });
                push("truncated", IdSpec { declared: n as u64, digest: g.digest[..n].to_vec(), ..g.clone() });
                push("bytes-short", IdSpec { digest: g.digest[..n].to_vec(), ..g.clone() });
            }
        }
        // longer than the digest
        push("declared-33", IdSpec { declared: 33, trailing: vec![0], ..g.clone() });
        push("declared-64", IdSpec { declared: 64, trailing: vec![7; 32], ..g.clone() });
        push("declared-65", IdSpec { declared: 65, trailing: vec![7; 33], ..g.clone() });
        push("declared-255", IdSpec { declared: 255, trailing: vec![7; 223], ..g.clone() });
        push("declared-huge", IdSpec { declared: u64::MAX, ..g.clone() });
        push("trailing-bytes", IdSpec { trailing: vec![rng.next() as u8; 1 + rng.below(5)], ..g.clone() });
        // one flipped digest bit (every position in thorough, a few in quick)
        let nflips = if thorough { 256 } else { 6 };
        for i in 0..nflips { let bit = if thorough { i } else { rng.below(256) }; let mut d = g.digest.clone(); d[bit / 8] ^= 1 << (bit % 8);
            push("flipped-bit", IdSpec { digest: d, form: Form::Multi(if rng.chance(1, 2) { Base::Base32Lower } else { Base::Base58Btc }), ..g.clone() }); }
        { let mut d = g.digest.clone(); d.rotate_left(1); push("rotated-digest", IdSpec { digest: d, ..g.clone() }); }
        push("zero-digest", IdSpec { digest: vec![0; 32], ..g.clone() });
        // versions
        for v in [0u64, 2, 3, 0x12, 127, 128, u64::MAX] { push("version", IdSpec { version: v, ..g.clone() }); }
        push("v0-binary", IdSpec { version: 0x12, codec: 0x20, ..g.clone() });
        // CIDv0 text of the sha2-256 digest, also behind multibase prefixes
        push("cidv0", IdSpec { form: Form::V0Bare, digest: sha256(value_bytes), ..g.clone() });
        push("cidv0-swapped", IdSpec { form: Form::V0Bare, digest: sha256(value_bytes), swap_case: true, ..g.clone() });
        // varint encodings of the codec
        push("varint-trailing-zero", IdSpec { codec_style: VarStyle::TrailingZero, ..g.clone() });
        push("varint-10-bytes", IdSpec { codec_style: VarStyle::TenByteWrap, ..g.clone() });
        // /ipfs/ prefixes
        for p in ["/ipfs/", "https://gw.example/ipfs/", "/ipfs//ipfs/", "x/ipfs/", "/ipfs/ /ipfs/", "/IPFS/", "é/ipfs/"] { if thorough || rng.chance(1, 2) { push("ipfs-prefix", IdSpec { ipfs_prefix: Some(p.to_string()), ..g.clone() }); } }
        // identity multibase: only ids whose bytes are text
        push("identity-base", IdSpec { form: Form::Multi(Base::Identity), codec: 0x55, digest: vec![0x41; 32], ..g.clone() });
        push("identity-base-json?", IdSpec { form: Form::Multi(Base::Identity), digest: vec![0x41; 32], ..g.clone() });
    }
    out
}

/// malformed stream: garbage, damaged valid ids, empty, non-ASCII
fn garbage(valid: &[String], rng: &mut Rng, n: usize) -> Vec<String> {
    let mut out: Vec<String> = vec!["".into(), "b".into(), "z".into(), "Qm".into(), "garbage".into(), "\u{0}".into(), "\u{0}\u{0}".into(), "é".into(), "日本語".into(), "bé".into(), " ".into(), "  ".into(),
        "/ipfs/".into(), "/ipfs/b".into(), "ba".into(), "f0".into(), "f00".into(), "f01".into(), "f017012".into(), "m".into(), "mAQ".into(), "u".into(), "9".into(), "90".into(), "91".into(), "k0".into(), "00".into(), "7".into(),
        "bafybeigdyrzt5sfp7udm7hu76uh7y26nf3efuylqabf3oclgtqy55fbzdi".into(), "QmdfTbBqBPQ7VNxZEYEj14VmRuZBkqFbiwReogJgS1zR1n".into(), "Qm111111111111111111111111111111111111111111".into(),
        "bagaaierajwlhumardpzj6dv2ahcerm3vyfrjwl7nahg7zq5o3eprwv6v3vpa\n".into(), " bagaaierajwlhumardpzj6dv2ahcerm3vyfrjwl7nahg7zq5o3eprwv6v3vpa".into(), "c========".into(), "cmy======".into(), "MAQ==".into(), "M".into()];
    let alph: Vec<char> = "abcdefghijklmnopqrstuvwxyzABCDEFGHIJKLMNOPQRSTUVWXYZ0123456789+/-_=".chars().collect();
    let prefixes: Vec<char> = "\u{0}079fFbBcCvVtThkKZzmMuUQ/é!".chars().collect();
    for _ in 0..n {
        match rng.below(8) {
            0 => { let l = rng.below(70); let mut s = String::new(); s.push(*rng.pick(&prefixes)); for _ in 0..l { s.push(*rng.pick(&alph)); } out.push(s); }
            1 => { let mut s = String::from("Qm"); for _ in 0..44 { s.push(*rng.pick(&alph[..62])); } out.push(s); }
            2 | 3 if !valid.is_empty() => { // one character changed / removed / inserted / the text cut
                let mut cs: Vec<char> = rng.pick(valid).chars().collect();
                if cs.is_empty() { continue; }
                let i = rng.below(cs.len());
                match rng.below(5) { 0 => cs[i] = *rng.pick(&alph), 1 => { cs.remove(i); } 2 => cs.insert(i, *rng.pick(&alph)), 3 => cs.truncate(i), _ => cs[i] = *rng.pick(&['é', '\u{0}', ' ', '😀', '=']) }
                out.push(cs.into_iter().collect());
            }
            4 => { let l = 1 + rng.below(24); let mut s = String::new(); s.push(*rng.pick(&['c', 'C', 't', 'T', 'M', 'U'])); for _ in 0..l { s.push(if rng.chance(1, 4) { '=' } else { *rng.pick(&alph[..26]) }); } out.push(s); }
            5 => { let l = rng.below(20); out.push((0..l).map(|_| char::from_u32(rng.below(0x250) as u32).unwrap_or('?')).collect()); }
            6 if !valid.is_empty() => { let a = rng.pick(valid).clone(); let b = rng.pick(valid).clone(); out.push(format!("{a}{}", &b[1.min(b.len())..])); }
            _ => { // a multibase prefix on short binary contents
                let b = *rng.pick(&BASES[1..]); let l = rng.below(8); let bytes: Vec<u8> = (0..l).map(|_| *rng.pick(&[0u8, 1, 0x12, 0x20, 0x80, 0x04, 0x1e, 0xff, 0x55])).collect();
                out.push(multibase::encode(b, bytes));
            }
        }
    }
    out
}

// ---------------------------------------------------------------- the run

/// ask the model; when the driver is not there (the model or the proofs no longer build) the direct oracles still run
fn ask_model(ctx: &mut Ctx, rep: &mut Report, req: &Value) -> Option<Value> {
    static DEAD: std::sync::atomic::AtomicBool = std::sync::atomic::AtomicBool::new(false);
    if DEAD.load(std::sync::atomic::Ordering::Relaxed) { rep.unmodelled += 1; return None; }
    match std::panic::catch_unwind(std::panic::AssertUnwindSafe(|| ctx.driver.ask(req))) {
        Ok(v) if v.get("protocol_error").is_none() => { rep.model_compared += 1; Some(v) }
        _ => { DEAD.store(true, std::sync::atomic::Ordering::Relaxed); rep.unmodelled += 1; rep.stat("model-driver-unavailable"); None }
    }
}

fn check_text(ctx: &mut Ctx, rep: &mut Report, label: &str, text: &str, expected: Option<String>, v: &V, jv: &JValue, raw: &[u8], origin: &Value) {
    let rv = real_verify_value(text, jv);
    let rr = real_verify_raw(text, raw);
    let (stmt_ok, parsed) = statement_verdict(text, raw);
    let nontrivial = !rv.starts_with("MalformedCid");
    rep.case(&format!("{label}|{text}|{}", hex(&sha256(raw)[..8])), nontrivial, || json!({"label": label, "cid": text, "value_json": String::from_utf8_lossy(raw), "verify_value": rv, "verify_raw_value": rr}));
    rep.stat(&format!("verdict:{}", rv.split('(').next().unwrap_or("")));
    rep.stat(&format!("id:{label}"));
    let input = json!({"label": label, "cid": text, "cid_hex": hex(text.as_bytes()), "value_json": String::from_utf8_lossy(raw), "assembled_from": origin});
    // direct oracle 1: the statement, with the `cid` crate as the reading of "decodes as"
    for (which, r) in [("verify_value", &rv), ("verify_raw_value", &rr)] {
        if r.starts_with("PANIC") { rep.oracle_fail(json!({"why": format!("{which} panicked"), "input": input, "observed": r})); continue; }
        if (r == "Ok") != stmt_ok {
            rep.oracle_fail(json!({"why": format!("{which} {} a pair that {} a JSON-codec CIDv1 with the full SHA2-256/BLAKE3-256 digest of the value", if r == "Ok" { "accepts" } else { "rejects" }, if stmt_ok { "is" } else { "is not" }),
                "input": input, "observed": r, "cid_crate_decodes": parsed}));
        }
    }
    // direct oracle 2: the statement on the parts the id was assembled from (no parser)
    if let Some(e) = &expected {
        for (which, r) in [("verify_value", &rv), ("verify_raw_value", &rr)] {
            if r != e { rep.oracle_fail(json!({"why": format!("{which}: an id assembled as described must give {e}"), "input": input, "observed": r})); }
        }
    }
    if rv != rr { rep.oracle_fail(json!({"why": "verify_value and verify_raw_value (on the serialised value) disagree", "input": input, "verify_value": rv, "verify_raw_value": rr})); }
    // model
    let req = json!({"op": "cid_verify", "cid_hex": hex(text.as_bytes()), "value": tagged(v), "raw_hex": hex(raw)});
    let Some(m) = ask_model(ctx, rep, &req) else { return; };
    let real_mb = match multibase::decode(text) { Ok((b, d)) => json!({"base": format!("{b:?}"), "hex": hex(&d)}), Err(_) => Value::Null };
    if m["value"].as_str() != Some(rv.as_str()) || m["raw"].as_str() != Some(rr.as_str()) || m["parsed"] != parsed || m["multibase"] != real_mb {
        rep.disagree(json!({"op": "cid_verify", "label": label, "request": req, "model": m,
            "implementation": {"value": rv, "raw": rr, "parsed": parsed, "multibase": real_mb}}));
    }
}

/// a value whose serialisation fails partway (after some output has been produced)
struct Poison(u8);
impl serde::Serialize for Poison {
    fn serialize<S: serde::Serializer>(&self, s: S) -> Result<S::Ok, S::Error> {
        use serde::ser::{Error, SerializeSeq};
        let mut seq = s.serialize_seq(None)?;
        seq.serialize_element(&1u8)?; seq.serialize_element("x")?;
        if self.0 == 0 { return Err(S::Error::custom("poisoned element")); }
        // a map with a non-string key: serde_json refuses it after `[1,"x",{` has been written
        let mut m = std::collections::BTreeMap::new(); m.insert((1u8, 2u8), 3u8);
        seq.serialize_element(&m)?;
        seq.end()
    }
}

/// ids are a function of the value alone: a refused computation (a value that fails to serialise partway) in between
/// must not change what the next computation or verification on the same thread returns
fn statefulness_probe(rep: &mut Report) {
    let samples: Vec<JValue> = ["null", "1", "\"s\"", "[1,2,3]", "{\"a\":{\"b\":[true,null]}}", "18446744073709551615", "\"é\""].iter().filter_map(|t| serde_json::from_str::<JValue>(t).ok()).collect();
    for (i, jv) in samples.iter().enumerate() {
        let before = guarded(|| value_to_json_cid(jv).map(|c| c.get_inner().to_string()).map_err(|e| e.to_string()));
        for which in 0..2u8 {
            let refused = guarded(|| value_to_json_cid(&Poison(which)).map(|c| c.get_inner().to_string()).map_err(|e| e.to_string()));
            let after = guarded(|| value_to_json_cid(jv).map(|c| c.get_inner().to_string()).map_err(|e| e.to_string()));
            rep.case(&format!("stateful|{i}|{which}"), true, || json!({"statefulness_probe": i, "poison": which}));
            rep.stat("statefulness_probes");
            if !matches!(refused, Ok(Err(_))) { rep.stat("poison_value_not_refused"); }
            if after != before { rep.oracle_fail(json!({"why": format!("the id of the same value changed after a refused id computation in between: {before:?} then {after:?}"), "input": {"value_json": serde_json::to_string(jv).unwrap_or_default(), "poison": which}})); return; }
            let _ = guarded(|| verify_value(&CID::<Poison>::new("bagaaihra"), &Poison(which)));
            if let Ok(Ok(id)) = &before {
                let v = real_verify_value(id, jv);
                if v != "Ok" { rep.oracle_fail(json!({"why": format!("verify_value rejects the matching (id, value) pair after a refused verification in between: {v}"), "input": {"cid": id, "value_json": serde_json::to_string(jv).unwrap_or_default(), "poison": which}})); return; }
            }
        }
    }
}

pub fn run(ctx: &mut Ctx, rep: &mut Report) {
    rep.rule = "case = (a) one construction of a generated JSON value (nested arrays/objects with duplicate and permuted keys, unicode and escaped strings, boundary integers, floats as printed text): its id by value_to_json_cid / raw_value_to_json_cid vs the model and vs an id recomputed with the blake3 crate from an own canonical text; \
        (b) one (id text, value) pair given to verify_value and verify_raw_value: ids assembled from (version, codec, hash code, declared length, digest bytes, trailing bytes, varint style) in each of the 23 multibases, CIDv0, /ipfs/ prefixes, case swaps, plus a malformed stream (garbage, damaged ids, empty, non-ASCII); \
        non-trivial = (a) containers or strings needing escapes / (b) the id text decodes to a CID; distinct by hash of the id text and value".into();
    statefulness_probe(rep);
    let mut rng = Rng::new(ctx.seed ^ 0xC25);
    let thorough = ctx.thorough;
    let n_values = if thorough { 100000 } else { 4000 };
    let n_verify_values = if thorough { 4000 } else { 200 };
    let mut seen_ids: HashMap<String, String> = HashMap::new();
    let mut valid_texts: Vec<String> = vec![];
    let mut fixed: Vec<V> = vec![V::Null, V::Bool(true), V::U(0), V::U(1), V::F(1.0), V::I(-1), V::I(i64::MIN), V::U(u64::MAX), V::U(9007199254740991), V::U(9007199254740993), V::F(9007199254740993.0), V::F(-0.0), V::F(0.0),
        V::S("".into()), V::S("test".into()), V::A(vec![]), V::O(vec![]), V::A(vec![V::U(1), V::U(2), V::U(3)]), V::O(vec![("key".into(), V::U(42))]),
        V::O(vec![("b".into(), V::U(1)), ("a".into(), V::U(2)), ("b".into(), V::U(3))]), V::O(vec![("\u{10000}".into(), V::U(1)), ("\u{ffff}".into(), V::U(2)), ("é".into(), V::Null), ("".into(), V::Null)]),
        V::A(vec![V::O(vec![("x".into(), V::A(vec![V::O(vec![("z".into(), V::Null), ("y".into(), V::Null)])])), ("a".into(), V::F(1.5))])]),
        V::O(vec![("zero".into(), V::A(vec![V::F(0.0), V::U(0)]))])];
    for i in 0..n_values {
        let mut g = ValGen { exotic_float: false };
        let v = if i < fixed.len() { std::mem::replace(&mut fixed[i], V::Null) } else { let d = 1 + rng.below(if thorough { 5 } else { 4 }); g.value(&mut rng, d) };
        let mut canon = String::new(); canon_text(&v, &mut canon);
        let want = expected_cid(canon.as_bytes());
        let nontrivial = matches!(v, V::A(_) | V::O(_)) || canon.contains('\\');
        rep.stat(match &v { V::A(_) => "value:array", V::O(_) => "value:object", V::S(_) => "value:string", V::F(_) => "value:float", V::I(_) | V::U(_) => "value:integer", _ => "value:other" });
        rep.stat(&format!("value:text-len<{}", [8usize, 32, 128, 512, 1 << 30].iter().find(|b| canon.len() < **b).unwrap()));
        // model
        let req = json!({"op": "cid", "value": tagged(&v)});
        let m = ask_model(ctx, rep, &req);
        // all constructions of the same value
        let hows: &[Build] = &[Build::Insert, Build::Collect, Build::FromPairsApi, Build::ViaSerde, Build::ParseText, Build::Reversed, Build::Shuffled, Build::Shuffled];
        let mut first: Option<JValue> = None;
        for how in hows {
            if *how == Build::ParseText && g.exotic_float { rep.stat("skipped:parse-text-with-random-float"); continue; }
            let built = guarded(|| match how {
                Build::ViaSerde => JValue::from(build_serde(&v)),
                Build::ParseText => { let mut s = String::new(); source_text(&v, &mut s); serde_json::from_str::<JValue>(&s).expect("own JSON text parses") }
                _ => build(&v, *how, &mut rng),
            });
            let jv = match built { Ok(j) => j, Err(p) => { rep.oracle_fail(json!({"why": "constructing the value panicked", "input": {"value_json": canon, "construction": format!("{how:?}")}, "observed": p})); continue; } };
            let real = guarded(|| value_to_json_cid(&jv).map(|c| c.get_inner().to_string()).map_err(|e| e.to_string()));
            let raw_bytes = serde_json::to_vec(&jv).unwrap_or_default();
            let real_raw = guarded(|| raw_value_to_json_cid::<JValue>(&raw_bytes).get_inner().to_string());
            let via_serde_generic = if *how == Build::ViaSerde { guarded(|| value_to_json_cid(&build_serde(&v)).map(|c| c.get_inner().to_string()).map_err(|e| e.to_string())).ok().and_then(|r| r.ok()) } else { None };
            rep.case(&format!("{how:?}|{canon}"), nontrivial, || json!({"construction": format!("{how:?}"), "value_json": canon, "cid": format!("{real:?}")}));
            rep.stat(&format!("construction:{how:?}"));
            let input = json!({"value_json": canon, "construction": format!("{how:?}"), "tagged": tagged(&v)});
            let real_s = match &real { Ok(Ok(s)) => s.clone(), other => { rep.oracle_fail(json!({"why": "value_to_json_cid failed or panicked on a JSON value", "input": input, "observed": format!("{other:?}")})); continue; } };
            // oracle: a function of the value only, equal to the independently recomputed id
            if real_s != want { rep.oracle_fail(json!({"why": "the id differs from the BLAKE3-256 JSON CIDv1 of the value's canonical text (own serialiser + blake3 crate + own base32)", "input": input, "observed": real_s, "expected": want, "serialised_as": String::from_utf8_lossy(&raw_bytes)})); }
            if raw_bytes != canon.as_bytes() { rep.oracle_fail(json!({"why": "the value's serialisation is not its canonical text (key order / duplicates / number text)", "input": input, "observed": String::from_utf8_lossy(&raw_bytes), "expected": canon})); }
            if real_raw.as_ref().ok() != Some(&real_s) { rep.oracle_fail(json!({"why": "raw_value_to_json_cid of the serialised value differs from value_to_json_cid", "input": input, "observed": format!("{real_raw:?}"), "expected": real_s})); }
            if let Some(g) = via_serde_generic { if g != real_s { rep.oracle_fail(json!({"why": "value_to_json_cid on serde_json::Value and on JValue differ", "input": input, "observed": g, "expected": real_s})); } }
            if let Some(f) = &first { if *f != jv { rep.oracle_fail(json!({"why": "two constructions of the same key→value map are different JValues", "input": input})); } } else { first = Some(jv.clone()); }
            // correspondence
            if let Some(m) = &m { if m["cid"]["ok"].as_str() != Some(real_s.as_str()) || m["raw_cid"]["ok"].as_str() != real_raw.as_ref().ok().map(|s| s.as_str()) || m["json_hex"].as_str() != Some(hex(&raw_bytes).as_str()) {
                rep.disagree(json!({"op": "cid", "construction": format!("{how:?}"), "request": req, "model": m, "implementation": {"cid": real_s, "raw_cid": format!("{real_raw:?}"), "json_hex": hex(&raw_bytes)}}));
            } }
            // own id verifies
            let (rv, rr) = (real_verify_value(&real_s, &jv), real_verify_raw(&real_s, &raw_bytes));
            if rv != "Ok" || rr != "Ok" { rep.oracle_fail(json!({"why": "the id produced for a value does not verify against it", "input": input, "verify_value": rv, "verify_raw_value": rr})); }
        }
        // values equal under the interpreter's own `==` (used by match/mismatch) must have equal ids
        let twin = flip_zero_signs(&v);
        if has_float_zero(&v) {
            let (a, b) = (build(&v, Build::Insert, &mut rng), build(&twin, Build::Insert, &mut rng));
            let (ca, cb) = (value_to_json_cid(&a).map(|c| c.get_inner().to_string()).ok(), value_to_json_cid(&b).map(|c| c.get_inner().to_string()).ok());
            let mut tc = String::new(); canon_text(&twin, &mut tc);
            rep.case(&format!("eq-twin|{canon}"), true, || json!({"value_json": canon, "twin_json": tc, "equal": a == b, "cids": [ca, cb]}));
            rep.stat("value:zero-sign-twin");
            if a == b && ca != cb {
                rep.oracle_fail(json!({"finding_key": "equal-jvalues-zero-sign-different-ids",
                    "why": "two JValues that are equal under JValue's own == (0.0 == -0.0, the comparison match/mismatch use) get different content ids, and the id of one is rejected for the other",
                    "input": {"a": canon, "b": tc}, "observed": {"a == b": true, "cid_a": ca, "cid_b": cb,
                        "verify_value(cid_a, b)": ca.as_ref().map(|c| real_verify_value(c, &b))}}));
            }
        }
        // equal ids iff equal values across the whole run (1 vs 1.0, -0.0 vs 0.0, "1" vs 1 …)
        if let Some(prev) = seen_ids.get(&want) { if *prev != canon { rep.oracle_fail(json!({"why": "two different values share an id", "input": {"a": prev, "b": canon, "cid": want}})); } } else { seen_ids.insert(want.clone(), canon.clone()); }
        if valid_texts.len() < 64 { valid_texts.push(want.clone()); }

        // (b) verification of assembled and damaged ids against this value (and an id of this value against another one)
        if i < n_verify_values || (thorough && i % 20 == 0) || (!thorough && i % 16 == 0) {
            let jv = build(&v, Build::Insert, &mut rng);
            let raw = canon.as_bytes().to_vec();
            let specs = specs_for(&raw, &mut rng, thorough && i < 40);
            for s in &specs {
                let Some(text) = s.text() else { rep.stat("skipped:identity-base-needs-utf8"); continue; };
                let origin = json!({"version": s.version, "codec": s.codec, "hash_code": s.code, "declared_len": s.declared, "digest": hex(&s.digest), "trailing": hex(&s.trailing),
                    "codec_varint": format!("{:?}", s.codec_style), "form": format!("{:?}", s.form), "prefix": s.ipfs_prefix, "swap_case": s.swap_case});
                check_text(ctx, rep, &s.label, &text, s.expected(&raw), &v, &jv, &raw, &origin);
                if s.label == "good" && valid_texts.len() < 64 { valid_texts.push(text.clone()); }
            }
            // the id of another value
            let other = V::A(vec![v.clone()]);
            let mut oc = String::new(); canon_text(&other, &mut oc);
            check_text(ctx, rep, "id-of-other-value", &expected_cid(oc.as_bytes()), Some("ValueMismatch".into()), &v, &jv, &raw, &json!("id of [value]"));
            let ng = if thorough { 120 } else { 40 };
            for t in garbage(&valid_texts, &mut rng, ng) { check_text(ctx, rep, "malformed-stream", &t, None, &v, &jv, &raw, &Value::Null); }
        }
    }
    rep.stat_n("distinct-ids-seen", seen_ids.len() as u64);
}
