//! debugging aid: run a history of a given script (file in env AQUA_PROBE_AIR) and print the traces
use crate::host::*; use crate::sim::*; use crate::util::*; use crate::Ctx; use crate::facts::*;
pub fn run(ctx: &mut Ctx, rep: &mut Report) {
    let air = std::fs::read_to_string(std::env::var("AQUA_PROBE_AIR").unwrap()).unwrap();
    let n: usize = std::env::var("AQUA_PROBE_PEERS").ok().and_then(|s| s.parse().ok()).unwrap_or(5);
    let peers: Vec<Peer> = ["a", "b", "c", "d", "e"].iter().take(n).map(|n| Peer::new(n)).collect();
    for (i, p) in peers.iter().enumerate() { println!("peer {} = {} {}", i, p.name, p.id); }
    let mut net = Net::new(air.trim(), &peers, "pid");
    let mut r2 = Rng::new(ctx.seed);
    net.run_random(&mut r2, 60);
    for st in &net.log {
        println!("step {} peer {} {} -> code {} msg {:?} next {:?} reqs {:?}", st.step, st.peer, st.event, st.outcome.ret_code, &st.outcome.error_message.chars().take(160).collect::<String>(), st.outcome.next_peer_pks.len(), st.new_request_ids);
        for (nm, d) in [("prev", &st.prev), ("cur", &st.cur), ("out", &st.outcome.data)] { if let Some(f) = facts(d) { println!("     {nm}: {:?}", f.trace.iter().map(|s| short(s)).collect::<Vec<_>>()); } }
    }
    rep.evaluations += 1;
}
fn short(s: &St) -> String { match s { St::Par(l, r) => format!("par({l},{r})"), St::Sent(p, i) => format!("sent({},{:?})", &p[p.len()-4..], i), St::Scalar(c) => format!("scalar({})", &c[c.len()-4..]),
    St::Stream(c, g) => format!("stream({},{g})", &c[c.len()-4..]), St::Unused(c) => format!("unused({})", &c[c.len()-4..]), St::Failed(c) => format!("failed({})", &c[c.len()-4..]),
    St::Fold(l) => format!("fold{:?}", l), St::Ap(g) => format!("ap{:?}", g), St::CanonSent(p) => format!("canon_sent({})", &p[p.len()-4..]), St::Canon(c) => format!("canon({})", &c[c.len()-4..]), St::Unknown(x) => x.clone() } }

/// re-execute one recorded step (the `input` object of an oracle failure) and print the three traces
pub fn replay_step(input: &serde_json::Value) {
    use air_interpreter_interface::{CallResults, CallServiceResult};
    let peer = Peer::new(input["peer"].as_str().unwrap());
    let init = Peer::new(input["init_peer"].as_str().unwrap());
    let prev = unhex(input["prev_hex"].as_str().unwrap_or(""));
    let cur = unhex(input["cur_hex"].as_str().unwrap_or(""));
    let mut results = CallResults::new();
    if let Some(m) = input["results"].as_object() { for (k, v) in m { results.insert(k.clone(), CallServiceResult { ret_code: v["ret_code"].as_i64().unwrap() as i32, result: v["result"].as_str().unwrap().to_string() }); } }
    println!("air: {}", input["air"].as_str().unwrap());
    for n in ["a", "b", "c", "d", "e"] { println!("peer {n} = {}", Peer::new(n).id); }
    let o = crate::host::run(&RunArgs { air: input["air"].as_str().unwrap(), prev: &prev, cur: &cur, init_peer_id: &init.id, peer: &peer, particle_id: input["particle"].as_str().unwrap(),
        timestamp: 1_700_000_000_000, ttl: 120_000, results: &results, limits: Limits::unlimited() });
    println!("peer {} results {:?} -> code {} msg {} next {:?}", peer.name, results, o.ret_code, o.error_message, o.next_peer_pks);
    for (nm, d) in [("prev", &prev), ("cur", &cur), ("out", &o.data)] { if let Some(f) = facts(d) { println!("  {nm}: lcid {}", f.lcid); for (i, s) in f.trace.iter().enumerate() { println!("     {i}: {}", short(s)); } } }
}

pub fn print_ast(air: &str) {
    match air_parser::parse(air) {
        Ok(i) => println!("{}", serde_json::to_string(&i).unwrap()),
        Err(e) => println!("ERR {e}"),
    }
}

/// canonical observation of an outcome (what the C20 property compares): code, message, decoded data, decoded requests, next-peer set
pub fn canon_outcome(o: &air_interpreter_interface::InterpreterOutcome) -> serde_json::Value {
    let mut next = o.next_peer_pks.clone(); next.sort();
    let reqs: std::collections::BTreeMap<String, serde_json::Value> = decode_requests(&o.call_requests).map(|m| m.iter().map(|(k, v)|
        (k.to_string(), serde_json::json!({"service_id": v.service_id, "function_name": v.function_name, "args": decode_args(v), "tetraplets": decode_tetraplets(v)}))).collect()).unwrap_or_default();
    serde_json::json!({"code": o.ret_code, "msg": o.error_message, "data": fnv(&canon_data(&o.data)), "next": next, "requests": reqs, "requests_decode": decode_requests(&o.call_requests).is_some()})
}

/// `aquaharness rerun-step <file>`: re-execute one recorded step in THIS (fresh) process and print its canonical observation
pub fn rerun_step(input: &serde_json::Value) {
    use air_interpreter_interface::{CallResults, CallServiceResult};
    let peer = Peer::new(input["peer"].as_str().unwrap());
    let init = Peer::new(input["init_peer"].as_str().unwrap());
    let prev = unhex(input["prev_hex"].as_str().unwrap_or(""));
    let cur = unhex(input["cur_hex"].as_str().unwrap_or(""));
    let mut results = CallResults::new();
    if let Some(m) = input["results"].as_object() { for (k, v) in m { results.insert(k.clone(), CallServiceResult { ret_code: v["ret_code"].as_i64().unwrap() as i32, result: v["result"].as_str().unwrap().to_string() }); } }
    let o = crate::host::run(&RunArgs { air: input["air"].as_str().unwrap(), prev: &prev, cur: &cur, init_peer_id: &init.id, peer: &peer, particle_id: input["particle"].as_str().unwrap(),
        timestamp: input["timestamp"].as_u64().unwrap_or(1_700_000_000_000), ttl: input["ttl"].as_u64().unwrap_or(120_000) as u32, results: &results, limits: Limits::unlimited() });
    println!("{}", serde_json::to_string(&canon_outcome(&o)).unwrap());
}
