//! Shared pieces of the stream properties C11 / C12 / C13: script-building helpers with unique values per append,
//! scripted / random / bounded-exhaustive schedules over `sim::Net`, a script-independent alignment of two traces of
//! one peer (previous/current data -> produced data), views of stream values, and the per-step model correspondence.
use crate::facts::*;
use crate::host::*;
use crate::props::execcorr::{compare_exec_projected, exec_request};
use crate::props::hist::step_json;
use crate::script::*;
use crate::sim::*;
use crate::util::*;
use crate::Ctx;
use air_interpreter_interface::CallResults;
use serde_json::{json, Value};
use std::collections::{BTreeMap, HashSet};

// ------------------------------------------------------------------------------------------------ script helpers

pub fn lit(s: &str) -> Val { Val::Lit(s.to_string()) }
pub fn sc(s: &str) -> Val { Val::Scalar(s.to_string()) }
pub fn seq(a: Instr, b: Instr) -> Instr { Instr::Seq(Box::new(a), Box::new(b)) }
pub fn par(a: Instr, b: Instr) -> Instr { Instr::Par(Box::new(a), Box::new(b)) }
pub fn xor(a: Instr, b: Instr) -> Instr { Instr::Xor(Box::new(a), Box::new(b)) }
pub fn seqs(mut v: Vec<Instr>) -> Instr { let mut acc = v.pop().expect("seqs of nothing"); while let Some(i) = v.pop() { acc = seq(i, acc); } acc }
pub fn pars(mut v: Vec<Instr>) -> Instr { let mut acc = v.pop().expect("pars of nothing"); while let Some(i) = v.pop() { acc = par(i, acc); } acc }
/// balanced sequence (depth log n): used for the long straight-line fills of the size-limit templates
pub fn seq_balanced(v: &[Instr]) -> Instr { if v.len() == 1 { v[0].clone() } else { let m = v.len() / 2; seq(seq_balanced(&v[..m]), seq_balanced(&v[m..])) } }
pub fn call(peer: Val, svc: &str, func: &str, args: Vec<Val>, out: Out) -> Instr { Instr::Call { peer, svc: lit(svc), func: lit(func), args, out } }
pub fn stream(s: &str) -> Out { Out::Stream(s.to_string()) }
pub fn ap(v: Val, s: &str) -> Instr { Instr::Ap { arg: v, out: Out::Stream(s.to_string()) } }
pub fn canon(peer: Val, s: &str, c: &str) -> Instr { Instr::Canon { peer, stream: s.to_string(), canon: c.to_string() } }
pub fn fold_stream(s: &str, it: &str, body: Instr, last: Option<Instr>) -> Instr { Instr::FoldStream { stream: s.to_string(), iter: it.to_string(), body: Box::new(body), last: last.map(Box::new) } }
pub fn fold_scalar(v: Val, it: &str, body: Instr) -> Instr { Instr::FoldScalar { iterable: v, iter: it.to_string(), body: Box::new(body), last: None } }
pub fn next(it: &str) -> Instr { Instr::Next(it.to_string()) }
pub fn new_stream(s: &str, body: Instr) -> Instr { Instr::New(NewVar::Stream(s.to_string()), Box::new(body)) }
pub fn new_canon(c: &str, body: Instr) -> Instr { Instr::New(NewVar::Canon(c.to_string()), Box::new(body)) }
pub fn matchv(a: Val, b: Val, body: Instr) -> Instr { Instr::Match(a, b, Box::new(body)) }

/// hands out unique values / function names: every append of a template carries a value that no other append carries
pub struct Uniq { pub n: usize }
impl Uniq {
    pub fn new() -> Uniq { Uniq { n: 0 } }
    pub fn val(&mut self) -> String { self.n += 1; format!("u{}", self.n) }
    /// `(call peer ("svc" "echo_k") ["u<k>"] $s)`: the deterministic service returns its first argument
    pub fn call_append(&mut self, peer: Val, s: &str) -> (Instr, String) { let v = self.val(); (call(peer, "svc", &format!("echo_{}", self.n), vec![lit(&v)], stream(s)), v) }
    pub fn ap_append(&mut self, s: &str) -> (Instr, String) { let v = self.val(); (ap(lit(&v), s), v) }
}

// ------------------------------------------------------------------------------------------------ histories

pub fn clone_net(n: &Net) -> Net {
    Net { air: n.air.clone(), particle: n.particle.clone(), init: n.init, timestamp: n.timestamp, ttl: n.ttl, peers: n.peers.clone(), inflight: n.inflight.clone(),
          log: n.log.clone(), peer_ids: n.peer_ids.clone(), sent_messages: n.sent_messages.clone() }
}

pub fn peers_named(n: usize) -> Vec<Peer> { ["a", "b", "c", "d", "e"].iter().take(n).map(|n| Peer::new(n)).collect() }

/// `next_peer_pks` comes out of a hash set (its order differs from run to run, see C20): one run of a peer followed by sorting the
/// messages it put on the wire, so that schedules drawn from a seed are reproducible
pub fn run_peer_det(net: &mut Net, p: usize, cur: &[u8], results: CallResults, event: String) {
    let (n0, m0) = (net.inflight.len(), net.sent_messages.len());
    net.run_peer(p, cur, results, event);
    net.inflight[n0..].sort_by_key(|m| m.0);
    net.sent_messages[m0..].sort_by_key(|m| m.0);
}
pub fn start_det(net: &mut Net) { let i = net.init; run_peer_det(net, i, &[], CallResults::new(), "start".into()); }

/// same event distribution as `Net::random_step` (deliver a random in-flight message, possibly kept for a duplicate delivery and with
/// piggy-backed results; or hand a peer a random non-empty subset of its pending results)
pub fn random_step_det(net: &mut Net, rng: &mut Rng, dup_chance: (u64, u64)) -> bool {
    if net.quiescent() { return false; }
    let answerable: Vec<usize> = (0..net.peers.len()).filter(|&p| !net.peers[p].pending.is_empty() && !net.peers[p].stuck).collect();
    let do_deliver = !net.inflight.is_empty() && (answerable.is_empty() || rng.chance(1, 2));
    if do_deliver {
        let i = rng.below(net.inflight.len());
        let keep = dup_chance.0 > 0 && rng.chance(dup_chance.0, dup_chance.1);
        let (q, data) = if keep { net.inflight[i].clone() } else { net.inflight.remove(i) };
        let mut results = CallResults::new();
        if !net.peers[q].pending.is_empty() && !net.peers[q].stuck && rng.chance(1, 4) {
            let ids: Vec<u32> = net.peers[q].pending.keys().cloned().collect();
            for id in ids { if rng.chance(1, 2) { let r = net.peers[q].pending.remove(&id).unwrap(); results.insert(id.to_string(), r); } }
        }
        run_peer_det(net, q, &data, results, format!("deliver{}", if keep { "+dup" } else { "" }));
    } else {
        let p = answerable[rng.below(answerable.len())];
        let ids: Vec<u32> = net.peers[p].pending.keys().cloned().collect();
        let mut chosen: Vec<u32> = ids.iter().cloned().filter(|_| rng.chance(1, 2)).collect();
        if chosen.is_empty() { chosen.push(ids[rng.below(ids.len())]); }
        let mut results = CallResults::new();
        for id in &chosen { let r = net.peers[p].pending.remove(id).unwrap(); results.insert(id.to_string(), r); }
        run_peer_det(net, p, &[], results, format!("answer{:?}", chosen));
    }
    true
}
pub fn run_random_det(net: &mut Net, rng: &mut Rng, max_steps: usize) { start_det(net); let mut n = 0; while n < max_steps && random_step_det(net, rng, (1, 8)) { n += 1; } }

/// scripted events: deliver the oldest in-flight message addressed to a peer / hand a peer all its pending results
#[derive(Clone, Debug)]
pub enum Ev { Deliver(usize), DeliverNth(usize, usize), Answer(usize), AnswerOne(usize) }

/// applies a scripted event; false when it is not enabled
pub fn apply(net: &mut Net, ev: &Ev) -> bool {
    match ev {
        Ev::Deliver(q) | Ev::DeliverNth(q, _) => {
            let nth = if let Ev::DeliverNth(_, n) = ev { *n } else { 0 };
            let idx: Vec<usize> = net.inflight.iter().enumerate().filter(|(_, m)| m.0 == *q).map(|(i, _)| i).collect();
            if nth >= idx.len() { return false; }
            let (q, data) = net.inflight.remove(idx[nth]);
            run_peer_det(net, q, &data, CallResults::new(), "deliver".into());
            true
        }
        Ev::Answer(p) | Ev::AnswerOne(p) => {
            if net.peers[*p].pending.is_empty() || net.peers[*p].stuck { return false; }
            let mut ids: Vec<u32> = net.peers[*p].pending.keys().cloned().collect();
            if matches!(ev, Ev::AnswerOne(_)) { ids.truncate(1); }
            let mut results = CallResults::new();
            for id in &ids { let r = net.peers[*p].pending.remove(id).unwrap(); results.insert(id.to_string(), r); }
            run_peer_det(net, *p, &[], results, format!("answer{:?}", ids));
            true
        }
    }
}

pub fn run_scripted(air: &str, peers: &[Peer], particle: &str, evs: &[Ev]) -> (Net, bool) {
    let mut net = Net::new(air, peers, particle);
    start_det(&mut net);
    let mut all = true;
    for e in evs { if !apply(&mut net, e) { all = false; } }
    (net, all)
}

/// drains a history: random events without duplication until quiescent (or the step budget is used up)
pub fn drain(net: &mut Net, rng: &mut Rng, max: usize) { let mut k = 0; while k < max && random_step_det(net, rng, (0, 1)) { k += 1; } }

/// every complete interleaving of {deliver in-flight message i, answer all pending results of peer p} from the start state,
/// depth-first, at most `max_leaves` complete histories and `max_runs` interpreter runs; returns (histories, truncated)
pub fn explore_all(air: &str, peers: &[Peer], particle: &str, init: usize, max_leaves: usize, max_runs: usize, max_depth: usize) -> (Vec<Net>, bool) {
    let mut net = Net::new(air, peers, particle);
    net.init = init;
    start_det(&mut net);
    let mut out = vec![];
    let mut runs = 1usize;
    let mut truncated = false;
    fn rec(net: &Net, depth: usize, out: &mut Vec<Net>, runs: &mut usize, truncated: &mut bool, max_leaves: usize, max_runs: usize, max_depth: usize) {
        if out.len() >= max_leaves || *runs >= max_runs { *truncated = true; return; }
        if net.quiescent() || depth >= max_depth { if !net.quiescent() { *truncated = true; } out.push(clone_net(net)); return; }
        // enabled events; identical in-flight messages to one peer are interchangeable: explore one of them
        let mut seen: HashSet<(usize, u64)> = HashSet::new();
        for i in 0..net.inflight.len() {
            let key = (net.inflight[i].0, fnv(&hex(&net.inflight[i].1)));
            if !seen.insert(key) { continue; }
            let mut n2 = clone_net(net);
            let (q, data) = n2.inflight.remove(i);
            run_peer_det(&mut n2, q, &data, CallResults::new(), "deliver".into());
            *runs += 1;
            rec(&n2, depth + 1, out, runs, truncated, max_leaves, max_runs, max_depth);
            if out.len() >= max_leaves || *runs >= max_runs { *truncated = true; return; }
        }
        for p in 0..net.peers.len() {
            if net.peers[p].pending.is_empty() || net.peers[p].stuck { continue; }
            let mut n2 = clone_net(net);
            apply(&mut n2, &Ev::Answer(p));
            *runs += 1;
            rec(&n2, depth + 1, out, runs, truncated, max_leaves, max_runs, max_depth);
            if out.len() >= max_leaves || *runs >= max_runs { *truncated = true; return; }
        }
    }
    rec(&net, 0, &mut out, &mut runs, &mut truncated, max_leaves, max_runs, max_depth);
    (out, truncated)
}

/// the schedule of a history in replayable form
pub fn schedule_json(net: &Net) -> Value {
    Value::Array(net.log.iter().map(|s| json!({"step": s.step, "peer": net.peers[s.peer].peer.name, "event": s.event, "code": s.outcome.ret_code,
        "cur_from": if s.cur.is_empty() { Value::Null } else { net.log.iter().find(|t| t.outcome.data == s.cur).map(|t| json!(format!("data produced at step {} by {}", t.step, net.peers[t.peer].peer.name))).unwrap_or(json!("?")) },
        "results": s.results.keys().cloned().collect::<Vec<_>>() })).collect())
}

pub fn history_json(net: &Net) -> Value {
    json!({"air": net.air, "particle": net.particle, "peers": net.peers.iter().map(|p| json!({"name": p.peer.name, "id": p.peer.id})).collect::<Vec<_>>(),
           "init_peer": net.peers[net.init].peer.name, "schedule": schedule_json(net)})
}

pub fn short(s: &St) -> String {
    let t = |c: &str| c[c.len().saturating_sub(4)..].to_string();
    match s { St::Par(l, r) => format!("par({l},{r})"), St::Sent(p, i) => format!("sent({},{:?})", t(p), i), St::Scalar(c) => format!("scalar({})", t(c)),
        St::Stream(c, g) => format!("stream({},{g})", t(c)), St::Unused(c) => format!("unused({})", t(c)), St::Failed(c) => format!("failed({})", t(c)),
        St::Fold(l) => format!("fold{:?}", l), St::Ap(g) => format!("ap{:?}", g), St::CanonSent(p) => format!("canon_sent({})", t(p)), St::Canon(c) => format!("canon({})", t(c)), St::Unknown(x) => x.clone() }
}
pub fn short_trace(f: &Facts) -> Vec<String> { f.trace.iter().map(short).collect() }

// ------------------------------------------------------------------------------------------------ views of values

/// the JSON value recorded by a call state with content id `cid` (service result aggregate -> value store)
pub fn value_of_call(f: &Facts, cid: &str) -> Option<Value> { f.service_result(cid).and_then(|(v, _, _)| serde_json::from_str(&v).ok()) }
/// (peer, service, function) that produced the call state
pub fn producer_of_call(f: &Facts, cid: &str) -> Option<(String, String, String)> { f.service_result(cid).map(|(_, _, t)| (t.0, t.1, t.2)) }

/// the values of a canon result, in order: (value JSON, provenance/tetraplet left aside)
pub fn canon_values(f: &Facts, canon_cid: &str) -> Option<Vec<Value>> {
    let agg = f.store("canon_result_store").get(canon_cid)?;
    let mut out = vec![];
    for vc in agg["values"].as_array()? {
        let el = f.store("canon_element_store").get(vc.as_str()?)?;
        let v = f.store("value_store").get(el["value"].as_str()?)?;
        out.push(match v { Value::String(s) => serde_json::from_str(s).unwrap_or(Value::String(s.clone())), v => v.clone() });
    }
    Some(out)
}
/// the JSON object a canon stream map turns into: key -> values in order (the elements of a canon map are {"key":..,"value":..} objects)
pub fn kv_object(vals: &[Value]) -> Value {
    let mut m = serde_json::Map::new();
    for kv in vals { let k = match &kv["key"] { Value::String(s) => s.clone(), other => other.to_string() }; m.entry(k).or_insert_with(|| json!([])).as_array_mut().unwrap().push(kv["value"].clone()); }
    Value::Object(m)
}
pub fn canon_peer(f: &Facts, canon_cid: &str) -> Option<String> {
    let agg = f.store("canon_result_store").get(canon_cid)?;
    f.tetraplet(agg["tetraplet"].as_str()?).map(|t| t.0)
}

// ------------------------------------------------------------------------------------------------ alignment

/// Aligns an older trace `a` of a peer (its previous data, or the current data it was given) with the trace `b` the run produced:
/// `map[i] = Some(j)` when state `a[i]` is the state `b[j]`. Script-independent; rests on the layout rules of the trace only:
/// a par node owns the next l + r states (left part, right part), a fold node owns the subtraces its lore lists, every interval
/// of `b` starts with the states of the corresponding interval of `a` in the same order (entries are only appended at interval ends,
/// `sent` entries may have turned into results). Iterations of a fold are matched through the already aligned position of their value.
/// Mismatches are collected in `problems` (the alignment continues where it can).
pub struct Alignment { pub map: Vec<Option<usize>>, pub problems: Vec<String> }
pub fn align(a: &[St], b: &[St]) -> Alignment {
    let mut al = Alignment { map: vec![None; a.len()], problems: vec![] };
    align_iv(a, b, 0, a.len(), 0, b.len(), &mut al, 0);
    al
}

fn fold_total(lore: &[(u64, (u64, u64), (u64, u64))]) -> usize { lore.iter().map(|(_, x, y)| (x.1 + y.1) as usize).sum() }

fn align_iv(a: &[St], b: &[St], mut i: usize, ae: usize, mut j: usize, be: usize, al: &mut Alignment, depth: usize) {
    if depth > 2000 { al.problems.push("nesting too deep".into()); return; }
    let (ae, be) = (ae.min(a.len()), be.min(b.len()));
    while i < ae {
        if j >= be { al.problems.push(format!("older state {i} ({}) has no counterpart: the produced interval ends at {be}", short(&a[i]))); return; }
        match (&a[i], &b[j]) {
            (St::Par(l, r), St::Par(l2, r2)) => {
                let (l, r, l2, r2) = (*l as usize, *r as usize, *l2 as usize, *r2 as usize);
                al.map[i] = Some(j);
                let (al_e, bl_e) = ((i + 1 + l).min(ae), (j + 1 + l2).min(be));
                align_iv(a, b, i + 1, al_e, j + 1, bl_e, al, depth + 1);
                let (ar_e, br_e) = ((i + 1 + l + r).min(ae), (j + 1 + l2 + r2).min(be));
                if i + 1 + l <= ae && j + 1 + l2 <= be { align_iv(a, b, (i + 1 + l).min(ar_e), ar_e, (j + 1 + l2).min(br_e), br_e, al, depth + 1); }
                i = ar_e; j = br_e;
            }
            (St::Fold(la), St::Fold(lb)) => {
                al.map[i] = Some(j);
                for (vp, before, after) in la {
                    let vpa = *vp as usize;
                    let target = match al.map.get(vpa).cloned().flatten() { Some(t) => t, None => { al.problems.push(format!("fold at {i}: the value position {vpa} of an iteration was not aligned")); continue; } };
                    let (_, before2, after2) = match lb.iter().find(|(vp2, _, _)| *vp2 as usize == target) { Some(x) => x,
                        None => { al.problems.push(format!("fold at {i}: the iteration over the value at {vpa} (produced position {target}) is missing from the produced fold at {j}")); continue; } };
                    align_iv(a, b, before.0 as usize, (before.0 + before.1) as usize, before2.0 as usize, (before2.0 + before2.1) as usize, al, depth + 1);
                    align_iv(a, b, after.0 as usize, (after.0 + after.1) as usize, after2.0 as usize, (after2.0 + after2.1) as usize, al, depth + 1);
                }
                i = (i + 1 + fold_total(la)).min(ae); j = (j + 1 + fold_total(lb)).min(be);
            }
            (St::Par(..), _) | (St::Fold(..), _) | (_, St::Par(..)) | (_, St::Fold(..)) => { al.problems.push(format!("older state {i} ({}) faces {} at {j}", short(&a[i]), short(&b[j]))); return; }
            _ => { al.map[i] = Some(j); i += 1; j += 1; }
        }
    }
}

/// generation of a stream-valued state
pub fn gen_of(s: &St) -> Option<u64> { match s { St::Stream(_, g) => Some(*g), St::Ap(g) if g.len() == 1 => Some(g[0]), _ => None } }

// ------------------------------------------------------------------------------------------------ model correspondence

pub struct Corr { pub seen: HashSet<u64>, pub ast_cache: BTreeMap<String, Option<Value>> }
impl Corr {
    pub fn new() -> Corr { Corr { seen: HashSet::new(), ast_cache: BTreeMap::new() } }
    /// every not yet compared step of the history goes to the model; projection = the property's observables
    pub fn history(&mut self, ctx: &mut Ctx, rep: &mut Report, net: &Net, fields: &[&str]) {
        let ast = self.ast_cache.entry(net.air.clone()).or_insert_with(|| air_parser::parse(&net.air).ok().map(|a| serde_json::to_value(&a).unwrap())).clone();
        let ast = match ast { Some(a) => a, None => { rep.stat("script_does_not_parse"); return; } };
        for st in &net.log {
            if st.outcome.ret_code == PANIC_CODE { continue; }
            let mut key = format!("{}|{}|{}|{}|", net.air.len(), fnv(&net.air), st.peer, fnv(&hex(&st.prev)));
            key.push_str(&format!("{}|", fnv(&hex(&st.cur))));
            for (k, v) in st.results.iter().collect::<BTreeMap<_, _>>() { key.push_str(&format!("{k}={}:{};", v.ret_code, v.result)); }
            if !self.seen.insert(fnv(&key)) { continue; }
            let req = exec_request(net, st, &ast);
            let m = ctx.driver.ask(&req);
            if let Some(u) = m.get("unmodelled") { rep.unmodelled += 1; rep.stat(&format!("unmodelled:{}", u.as_str().unwrap_or("?").chars().take(40).collect::<String>())); continue; }
            rep.model_compared += 1;
            if m.get("panic").is_some() || m.get("protocol_error").is_some() { rep.disagree(json!({"op": "exec", "why": "model panics / driver error, implementation does not", "model": m, "air": net.air, "step": step_json(net, st)})); continue; }
            if let Some(why) = compare_exec_projected(&m, net, st, fields) {
                rep.disagree(json!({"op": "exec", "projection": fields, "why": why, "air": net.air, "step": step_json(net, st), "model_code": m["code"], "model_msg": m["msg"]}));
            }
        }
    }
}

// ------------------------------------------------------------------------------------------------ locator
//
// Maps every state of a trace PRODUCED by a run to the instruction instance of the script that wrote it, for the template
// fragment {call, ap into a stream, canon, seq, par, xor, match on literals/iterators, stream fold (+last), fold over a canon stream,
// next, new $s / new #c, null}. It does not simulate completeness: an instruction is taken as executed iff the interval it runs in
// (par branch / fold iteration / whole trace) still has a state, which must then be of the instruction's kind. Rests on: every
// executed call/ap/canon/par/stream-fold writes exactly one state, in execution order; after an incomplete or failed instruction
// nothing else of the same interval runs unless an xor catches the failure.

#[derive(Clone, Debug)]
pub struct Loc {
    /// preorder index of the instruction in the script
    pub node: usize,
    /// values of the enclosing fold iterations (outermost first)
    pub path: Vec<String>,
    pub kind: &'static str,
    /// (stream name, scope instance) the state appends to / the canon reads
    pub stream: Option<(String, String)>,
    /// appended value (ap: from the instruction, call: from the CID stores when executed)
    pub value: Option<Value>,
    pub func: Option<String>,
    pub canon_name: Option<String>,
    /// resolved designated peer of a canon / target of a call
    pub peer: Option<String>,
}
impl Loc { pub fn instance(&self) -> String { format!("{}@{}", self.node, self.path.join("/")) } }

#[derive(PartialEq, Debug, Clone, Copy)]
enum Flow { Ok, Stopped, Err }

struct FoldCtx<'a> { iter: String, lore: Vec<(u64, (u64, u64), (u64, u64))>, idx: usize, consumed: usize, scalar_vals: Option<Vec<Value>>, body: &'a Instr, last: Option<&'a Instr> }

pub struct Locator<'a> {
    t: &'a [St], f: &'a Facts, init_peer: String,
    pub locs: Vec<Option<Loc>>,
    ids: BTreeMap<usize, usize>,
    scalars: BTreeMap<String, Value>, canons: BTreeMap<String, Vec<Value>>,
    scopes: BTreeMap<String, Vec<String>>, path: Vec<String>, folds: Vec<FoldCtx<'a>>,
    pub problem: Option<String>,
}

fn number(i: &Instr, n: &mut usize, ids: &mut BTreeMap<usize, usize>) {
    ids.insert(i as *const Instr as usize, *n); *n += 1;
    match i {
        Instr::Seq(l, r) | Instr::Par(l, r) | Instr::Xor(l, r) => { number(l, n, ids); number(r, n, ids); }
        Instr::Match(_, _, b) | Instr::Mismatch(_, _, b) | Instr::New(_, b) => number(b, n, ids),
        Instr::FoldScalar { body, last, .. } | Instr::FoldStream { body, last, .. } | Instr::FoldMap { body, last, .. } => { number(body, n, ids); if let Some(l) = last { number(l, n, ids); } }
        _ => {}
    }
}

/// node id -> instruction (same preorder numbering as the locator)
pub fn nodes_of(script: &Instr) -> Vec<&Instr> { let mut v = vec![]; fn go<'a>(i: &'a Instr, v: &mut Vec<&'a Instr>) { v.push(i); match i {
    Instr::Seq(l, r) | Instr::Par(l, r) | Instr::Xor(l, r) => { go(l, v); go(r, v); }
    Instr::Match(_, _, b) | Instr::Mismatch(_, _, b) | Instr::New(_, b) => go(b, v),
    Instr::FoldScalar { body, last, .. } | Instr::FoldStream { body, last, .. } | Instr::FoldMap { body, last, .. } => { go(body, v); if let Some(l) = last { go(l, v); } }
    _ => {} } } go(script, &mut v); v }

pub fn locate(script: &Instr, f: &Facts, init_peer: &str) -> Result<Vec<Option<Loc>>, String> {
    let mut ids = BTreeMap::new(); let mut n = 0; number(script, &mut n, &mut ids);
    let mut l = Locator { t: &f.trace, f, init_peer: init_peer.to_string(), locs: vec![None; f.trace.len()], ids, scalars: BTreeMap::new(), canons: BTreeMap::new(),
                          scopes: BTreeMap::new(), path: vec![], folds: vec![], problem: None };
    let mut p = 0usize;
    let end = f.trace.len();
    l.walk(script, &mut p, end);
    if let Some(pr) = l.problem { return Err(pr); }
    if p != end { return Err(format!("the walk over the script ends at state {p} of {end}")); }
    Ok(l.locs)
}

impl<'a> Locator<'a> {
    fn id(&self, i: &Instr) -> usize { self.ids[&(i as *const Instr as usize)] }
    fn fail(&mut self, m: String) -> Flow { if self.problem.is_none() { self.problem = Some(m); } Flow::Stopped }
    fn value(&self, v: &Val) -> Option<Value> {
        match v { Val::Lit(s) => Some(json!(s)), Val::Num(n) => Some(json!(n)), Val::Bool(b) => Some(json!(b)), Val::EmptyArr => Some(json!([])), Val::InitPeer => Some(json!(self.init_peer)),
            Val::Scalar(n) => self.scalars.get(n).cloned(), Val::Canon(n) => self.canons.get(n).map(|v| Value::Array(v.clone())), Val::CanonMap(n) => self.canons.get(n).map(|v| kv_object(v)), Val::Timestamp | Val::Ttl => Some(Value::Null), _ => None }
    }
    fn instance_of(&self, stream: &str) -> String { self.scopes.get(stream).and_then(|s| s.last().cloned()).unwrap_or_default() }
    fn loc(&mut self, p: usize, i: &Instr, kind: &'static str) -> Loc { let _ = p; Loc { node: self.id(i), path: self.path.clone(), kind, stream: None, value: None, func: None, canon_name: None, peer: None } }

    fn walk(&mut self, i: &'a Instr, p: &mut usize, end: usize) -> Flow {
        if self.problem.is_some() { return Flow::Stopped; }
        match i {
            Instr::Null => Flow::Ok,
            Instr::Never => Flow::Stopped,
            Instr::Call { peer, func, args, out, .. } => {
                if args.iter().any(|a| self.value(a).is_none()) || self.value(peer).is_none() { return Flow::Stopped; } // join behaviour: nothing written
                if *p >= end { return Flow::Stopped; }
                let st = self.t[*p].clone();
                let mut loc = self.loc(*p, i, "call");
                loc.func = if let Val::Lit(f) = func { Some(f.clone()) } else { None };
                loc.peer = self.value(peer).and_then(|v| v.as_str().map(|s| s.to_string()));
                if let Out::Stream(s) = out { loc.stream = Some((s.clone(), self.instance_of(s))); }
                let flow = match &st {
                    St::Sent(..) => Flow::Stopped,
                    St::Failed(_) => Flow::Err,
                    St::Scalar(c) | St::Stream(c, _) => {
                        // sanity: the state was produced by this very function
                        if let (Some((_, _, fnm)), Some(want)) = (producer_of_call(self.f, c), loc.func.clone()) { if fnm != want { return self.fail(format!("state {} was written by function {fnm}, the walk expected {want}", *p)); } }
                        loc.value = value_of_call(self.f, c);
                        if let (Out::Scalar(x), Some(v)) = (out, loc.value.clone()) { self.scalars.insert(x.clone(), v); }
                        if matches!(st, St::Stream(..)) != matches!(out, Out::Stream(_)) { return self.fail(format!("state {} ({}) does not fit the output kind of call {:?}", *p, short(&st), loc.func)); }
                        Flow::Ok
                    }
                    St::Unused(_) => Flow::Ok,
                    other => return self.fail(format!("state {} is {}, the walk expected a call state ({:?})", *p, short(other), loc.func)),
                };
                self.locs[*p] = Some(loc); *p += 1; flow
            }
            Instr::Ap { arg, out } => {
                let v = match self.value(arg) { Some(v) => v, None => return Flow::Err };
                match out {
                    Out::Stream(s) => {
                        if *p >= end { return Flow::Stopped; }
                        if !matches!(self.t[*p], St::Ap(_)) { return self.fail(format!("state {} is {}, the walk expected an ap state", *p, short(&self.t[*p]))); }
                        let mut loc = self.loc(*p, i, "ap"); loc.stream = Some((s.clone(), self.instance_of(s))); loc.value = Some(v);
                        self.locs[*p] = Some(loc); *p += 1; Flow::Ok
                    }
                    Out::Scalar(x) => { self.scalars.insert(x.clone(), v); if *p < end && matches!(&self.t[*p], St::Ap(g) if g.is_empty()) { let loc = self.loc(*p, i, "ap_scalar"); self.locs[*p] = Some(loc); *p += 1; } Flow::Ok }
                    Out::None => Flow::Ok,
                }
            }
            Instr::ApMap { key, val, map } => {
                let (k, v) = match (self.value(key), self.value(val)) { (Some(k), Some(v)) => (k, v), _ => return Flow::Err };
                if *p >= end { return Flow::Stopped; }
                if !matches!(self.t[*p], St::Ap(_)) { return self.fail(format!("state {} is {}, the walk expected an ap state (stream map)", *p, short(&self.t[*p]))); }
                let mut loc = self.loc(*p, i, "ap"); loc.stream = Some((map.clone(), self.instance_of(map))); loc.value = Some(json!({"key": k, "value": v}));
                self.locs[*p] = Some(loc); *p += 1; Flow::Ok
            }
            Instr::Canon { peer, stream, canon } | Instr::CanonMap { peer, map: stream, canon } => {
                let target = match self.value(peer).and_then(|v| v.as_str().map(|s| s.to_string())) { Some(t) => t, None => return Flow::Stopped };
                if *p >= end { return Flow::Stopped; }
                let st = self.t[*p].clone();
                let mut loc = self.loc(*p, i, "canon"); loc.stream = Some((stream.clone(), self.instance_of(stream))); loc.canon_name = Some(canon.clone()); loc.peer = Some(target);
                let flow = match &st {
                    St::CanonSent(_) => Flow::Stopped,
                    St::Canon(c) => { match canon_values(self.f, c) { Some(v) => { self.canons.insert(canon.clone(), v); Flow::Ok } None => return self.fail(format!("canon result {c} of state {} is not in the stores", *p)) } }
                    other => return self.fail(format!("state {} is {}, the walk expected a canon state", *p, short(other))),
                };
                self.locs[*p] = Some(loc); *p += 1; flow
            }
            Instr::Seq(l, r) => { let fl = self.walk(l, p, end); if fl == Flow::Ok { self.walk(r, p, end) } else { fl } }
            Instr::Xor(l, r) => { let fl = self.walk(l, p, end); if fl == Flow::Err { self.walk(r, p, end) } else { fl } }
            Instr::Match(a, b, body) | Instr::Mismatch(a, b, body) => {
                let (va, vb) = match (self.value(a), self.value(b)) { (Some(x), Some(y)) => (x, y), _ => return Flow::Stopped };
                let want = matches!(i, Instr::Match(..));
                if (va == vb) == want { self.walk(body, p, end) } else { Flow::Err }
            }
            Instr::Par(l, r) => {
                if *p >= end { return Flow::Stopped; }
                let (ls, rs) = match &self.t[*p] { St::Par(a, b) => (*a as usize, *b as usize), other => return self.fail(format!("state {} is {}, the walk expected a par state", *p, short(other))) };
                let loc = self.loc(*p, i, "par"); self.locs[*p] = Some(loc);
                let start = *p + 1; *p = start;
                let le = (start + ls).min(self.t.len());
                let fl = self.walk(l, p, le);
                if *p != start + ls { return self.fail(format!("par at {}: the left branch covers {ls} states, the walk consumed {}", start - 1, *p - start)); }
                let re = (start + ls + rs).min(self.t.len());
                let fr = self.walk(r, p, re);
                if *p != start + ls + rs { return self.fail(format!("par at {}: the right branch covers {rs} states, the walk consumed {}", start - 1, *p - start - ls)); }
                if fl == Flow::Err && fr == Flow::Err { Flow::Err } else { Flow::Ok }
            }
            Instr::New(v, body) => {
                match v {
                    NewVar::Stream(s) | NewVar::StreamMap(s) => { let key = format!("{}@{}", self.id(i), self.path.join("/")); self.scopes.entry(s.clone()).or_default().push(key); let fl = self.walk(body, p, end); self.scopes.get_mut(s).unwrap().pop(); fl }
                    NewVar::Canon(c) | NewVar::CanonMap(c) => { let saved = self.canons.remove(c); let fl = self.walk(body, p, end); match saved { Some(v) => { self.canons.insert(c.clone(), v); } None => { self.canons.remove(c); } } fl }
                    NewVar::Scalar(x) => { let saved = self.scalars.remove(x); let fl = self.walk(body, p, end); match saved { Some(v) => { self.scalars.insert(x.clone(), v); } None => { self.scalars.remove(x); } } fl }
                }
            }
            Instr::FoldStream { stream: _, iter, body, last } => {
                if *p >= end { return Flow::Stopped; }
                let lore = match &self.t[*p] { St::Fold(l) => l.clone(), other => return self.fail(format!("state {} is {}, the walk expected a fold state", *p, short(other))) };
                let loc = self.loc(*p, i, "fold"); self.locs[*p] = Some(loc); *p += 1;
                self.folds.push(FoldCtx { iter: iter.clone(), lore: lore.clone(), idx: 0, consumed: 0, scalar_vals: None, body, last: last.as_deref() });
                let depth = self.folds.len() - 1;
                let saved_it = self.scalars.get(iter).cloned();
                let mut any = false;
                while self.folds[depth].consumed < lore.len() && self.problem.is_none() {
                    let k = self.folds[depth].consumed;
                    if lore[k].1 .0 as usize != *p { self.fail(format!("fold at node {}: iteration {k} starts at {} in the lore, the walk is at {}", self.id(i), lore[k].1 .0, *p)); break; }
                    self.folds[depth].idx = k; self.folds[depth].consumed = k + 1;
                    let v = match self.iter_value(lore[k].0 as usize) { Some(v) => v, None => { self.fail(format!("fold: no value known for the stream state at {}", lore[k].0)); break; } };
                    self.scalars.insert(iter.clone(), v.clone()); self.path.push(v.to_string());
                    let fl = self.walk(body, p, end);
                    self.path.pop();
                    if fl == Flow::Ok { any = true; }
                }
                match saved_it { Some(v) => { self.scalars.insert(iter.clone(), v); } None => { self.scalars.remove(iter); } }
                self.folds.pop();
                let _ = any;
                Flow::Ok // whether the fold counts as complete shows in the states that follow
            }
            Instr::FoldScalar { iterable, iter, body, last } => {
                let vals = match self.value(iterable) { Some(Value::Array(v)) => v, Some(_) => return Flow::Err, None => return Flow::Stopped };
                if vals.is_empty() { return Flow::Ok; }
                self.folds.push(FoldCtx { iter: iter.clone(), lore: vec![], idx: 0, consumed: 1, scalar_vals: Some(vals.clone()), body, last: last.as_deref() });
                let saved_it = self.scalars.get(iter).cloned();
                self.scalars.insert(iter.clone(), vals[0].clone()); self.path.push(format!("0:{}", vals[0]));
                let fl = self.walk(body, p, end);
                self.path.pop();
                match saved_it { Some(v) => { self.scalars.insert(iter.clone(), v); } None => { self.scalars.remove(iter); } }
                self.folds.pop();
                fl
            }
            Instr::Next(it) => {
                let d = match self.folds.iter().rposition(|c| &c.iter == it) { Some(d) => d, None => return self.fail(format!("next {it} outside its fold")) };
                if let Some(vals) = self.folds[d].scalar_vals.clone() {
                    let k = self.folds[d].idx;
                    if k + 1 < vals.len() {
                        self.folds[d].idx = k + 1;
                        let saved = self.scalars.insert(it.clone(), vals[k + 1].clone());
                        let plen = self.path.len(); let last_path = self.path.pop(); self.path.push(format!("{}:{}", k + 1, vals[k + 1]));
                        let body = self.folds[d].body;
                        let fl = self.walk(body, p, end);
                        self.path.truncate(plen - 1); if let Some(lp) = last_path { self.path.push(lp); }
                        if let Some(s) = saved { self.scalars.insert(it.clone(), s); }
                        self.folds[d].idx = k;
                        fl
                    } else if let Some(l) = self.folds[d].last { self.walk(l, p, end) } else { Flow::Ok }
                } else {
                    let k = self.folds[d].idx;
                    let lore = self.folds[d].lore.clone();
                    let nested = self.folds[d].consumed < lore.len() && self.folds[d].consumed == self.max_reached(d) && {
                        let n = self.folds[d].consumed;
                        gen_of(&self.t[lore[n].0 as usize]).is_some() && gen_of(&self.t[lore[n].0 as usize]) == gen_of(&self.t[lore[k].0 as usize]) && lore[n].1 .0 as usize == *p };
                    if nested {
                        let n = self.folds[d].consumed;
                        self.folds[d].idx = n; self.folds[d].consumed = n + 1;
                        let v = match self.iter_value(lore[n].0 as usize) { Some(v) => v, None => return self.fail(format!("fold: no value known for the stream state at {}", lore[n].0)) };
                        let saved = self.scalars.insert(it.clone(), v.clone());
                        let plen = self.path.len(); let last_path = self.path.pop(); self.path.push(v.to_string());
                        let body = self.folds[d].body;
                        let fl = self.walk(body, p, end);
                        self.path.truncate(plen - 1); if let Some(lp) = last_path { self.path.push(lp); }
                        if let Some(s) = saved { self.scalars.insert(it.clone(), s); }
                        self.folds[d].idx = k;
                        fl
                    } else if let Some(l) = self.folds[d].last { self.walk(l, p, end) } else { Flow::Stopped }
                }
            }
            Instr::Fail(_) => Flow::Err,
            _ => self.fail("instruction outside the located fragment".into()),
        }
    }
    fn max_reached(&self, d: usize) -> usize { self.folds[d].consumed }
    fn iter_value(&self, pos: usize) -> Option<Value> { self.locs.get(pos).and_then(|l| l.as_ref()).and_then(|l| l.value.clone()) }
}

// ------------------------------------------------------------------------------------------------ templates

#[derive(Clone, Copy, Debug, PartialEq)]
pub enum Family { WritersCanon, FoldVisit, RecursiveFold, NewScopes, NestedFolds, ParCanons, StreamMap }

pub struct Tpl { pub family: Family, pub name: String, pub script: Instr, pub air: String, pub n_peers: usize, pub recursive: bool }

pub struct TB<'a> { pub rng: &'a mut Rng, pub ids: Vec<String>, pub u: Uniq, pub fcount: usize }
impl<'a> TB<'a> {
    pub fn new(rng: &'a mut Rng, ids: &[String]) -> TB<'a> { TB { rng, ids: ids.to_vec(), u: Uniq::new(), fcount: 0 } }
    pub fn peer_id(&mut self) -> String { self.ids[self.rng.below(self.ids.len())].clone() }
    pub fn peer(&mut self) -> Val { lit(&self.peer_id()) }
    pub fn fname(&mut self, kind: &str) -> String { self.fcount += 1; format!("{kind}_f{}", self.fcount) }
    pub fn obs(&mut self, peer: Val, kind: &str, args: Vec<Val>) -> Instr { let f = self.fname(kind); call(peer, "obs", &f, args, Out::None) }
    /// one append with a fresh value: a call on a random peer (2/3) or an ap (1/3)
    pub fn append(&mut self, s: &str) -> (Instr, String) { if self.rng.chance(2, 3) { let p = self.peer(); self.u.call_append(p, s) } else { self.u.ap_append(s) } }
    /// k appends combined by a random seq/par tree
    pub fn writers(&mut self, s: &str, k: usize) -> (Instr, Vec<String>) {
        let mut vals = vec![];
        let (mut acc, v) = self.append(s); vals.push(v);
        for _ in 1..k {
            let (w, v) = self.append(s); vals.push(v);
            acc = match self.rng.below(4) { 0 => seq(acc, w), 1 => par(acc, w), 2 => par(w, acc), _ => seq(w, acc) };
        }
        (acc, vals)
    }
}

/// several peers append to one stream; canonicalisation at a designated peer (literal / variable-selected / init peer); the canon
/// stream is used on the designated and on other peers and folded over; the stream grows after the canon (later instructions and,
/// with the late writers in a par, late-arriving data); optionally a second canon of the same stream elsewhere / later
pub fn t_writers_canon(rng: &mut Rng, ids: &[String]) -> Tpl {
    let mut b = TB::new(rng, ids);
    let k = 2 + b.rng.below(3);
    let (pre, _) = b.writers("$s", k);
    let kind = b.rng.below(4);
    let d = b.peer_id();
    let (canon1, dval): (Instr, Val) = match kind {
        0 | 1 => (canon(lit(&d), "$s", "#c"), lit(&d)),
        2 => { let x = b.peer(); let f = b.fname("peer"); (seq(call(x, "svc", &f, vec![], Out::Scalar("dv".into())), canon(sc("dv"), "$s", "#c")), sc("dv")) }
        _ => (canon(Val::InitPeer, "$s", "#c"), Val::InitPeer),
    };
    let mut main = vec![pre, canon1];
    // uses: first on the designated peer, then elsewhere, then a fold over the canon stream
    let seen_d = b.obs(dval.clone(), "seen", vec![Val::Canon("#c".into())]);
    let e = b.peer();
    let seen_e = b.obs(e, "seen", vec![Val::Canon("#c".into())]);
    let fp = b.peer();
    let elem = b.obs(fp, "elem", vec![sc("j")]);
    let fold_c = fold_scalar(Val::Canon("#c".into()), "j", seq(elem, next("j")));
    match b.rng.below(4) {
        0 => main.push(seq(seen_d, seen_e)),
        1 => main.push(par(seen_d, seen_e)),
        2 => main.push(seq(seen_d, par(seen_e, fold_c))),
        _ => main.push(par(seq(seen_d, seen_e), fold_c)),
    }
    // the stream grows after the canon
    let k2 = 1 + b.rng.below(2);
    let (post, _) = b.writers("$s", k2);
    let mut tail = vec![post];
    if b.rng.chance(1, 2) {
        // a second canon of the same stream at another (or the same) peer, at a later point
        let d2 = b.peer_id();
        tail.push(canon(lit(&d2), "$s", "#c2"));
        let s2 = b.obs(lit(&d2), "seen", vec![Val::Canon("#c2".into())]);
        let o = b.peer();
        let s3 = b.obs(o, "seen", vec![Val::Canon("#c".into()), Val::Canon("#c2".into())]);
        tail.push(if b.rng.chance(1, 2) { seq(s2, s3) } else { par(s2, s3) });
    }
    // the uses may be incomplete on most peers: keep the tail reachable through a par
    let uses = main.pop().unwrap();
    main.push(par(uses, seqs(tail)));
    let mut script = seqs(main);
    if b.rng.chance(1, 2) { let k3 = 1 + b.rng.below(2); let (late, _) = b.writers("$s", k3); script = if b.rng.chance(1, 2) { par(script, late) } else { par(late, script) }; }
    Tpl { family: Family::WritersCanon, name: format!("writers_canon(kind {kind})"), air: script.text(), script, n_peers: ids.len(), recursive: false }
}

/// two canons of one stream at different peers inside the two branches of a par, each observed locally
pub fn t_par_canons(rng: &mut Rng, ids: &[String]) -> Tpl {
    let mut b = TB::new(rng, ids);
    let k = 2 + b.rng.below(2);
    let (pre, _) = b.writers("$s", k);
    let (d1, d2) = (b.peer_id(), b.peer_id());
    let o1 = b.obs(lit(&d1), "seen", vec![Val::Canon("#c1".into())]);
    let o2 = b.obs(lit(&d2), "seen", vec![Val::Canon("#c2".into())]);
    let (w, _) = b.writers("$s", 1);
    let br1 = seq(canon(lit(&d1), "$s", "#c1"), o1);
    let br2 = seq(w, seq(canon(lit(&d2), "$s", "#c2"), o2));
    let script = seq(pre, par(br1, br2));
    Tpl { family: Family::ParCanons, name: "par_canons".into(), air: script.text(), script, n_peers: ids.len(), recursive: false }
}

/// guard of a recursive fold: `(xor (match i v1 (append c1)) (xor (match i v2 (append c2)) ... (null)))`; children carry fresh values
fn recursion_guard(b: &mut TB, s: &str, seeds: &[String], max_children: usize) -> Instr {
    let mut pool: Vec<(String, usize)> = seeds.iter().map(|v| (v.clone(), 0usize)).collect();
    let mut arms: Vec<(String, Instr)> = vec![];
    let n = 1 + b.rng.below(max_children);
    for _ in 0..n {
        // each value gets at most one child (one match arm per value); chains up to depth 3
        let cands: Vec<usize> = (0..pool.len()).filter(|&i| pool[i].1 < 3 && !arms.iter().any(|(v, _)| v == &pool[i].0)).collect();
        if cands.is_empty() { break; }
        let (parent, depth) = pool[cands[b.rng.below(cands.len())]].clone();
        let (app, child) = if b.rng.chance(2, 3) { b.u.ap_append(s) } else { let p = b.peer(); b.u.call_append(p, s) };
        pool.push((child, depth + 1));
        arms.push((parent, app));
    }
    let mut g = Instr::Null;
    for (v, app) in arms.into_iter().rev() { g = xor(matchv(sc("i"), lit(&v), app), g); }
    g
}

/// stream fold with a visit call per value on one peer; `recursive` adds guarded appends to the folded stream inside the body
pub fn t_fold_visit(rng: &mut Rng, ids: &[String], recursive: bool) -> Tpl {
    let mut b = TB::new(rng, ids);
    let k = 1 + b.rng.below(3);
    let (seeds, vals) = b.writers("$s", k);
    let p = b.peer();
    let visit = b.obs(p.clone(), "visit", vec![sc("i")]);
    let shape = b.rng.below(4);
    let body = if recursive {
        let g = recursion_guard(&mut b, "$s", &vals, 4);
        match shape {
            0 => seqs(vec![g, visit, next("i")]),
            1 => seqs(vec![visit, g, next("i")]),
            2 => par(seq(g, visit), next("i")),
            _ => par(visit, seq(g, next("i"))),
        }
    } else {
        match shape { 0 | 1 => seq(visit, next("i")), 2 => par(visit, next("i")), _ => { let q = b.peer(); let extra = b.obs(q, "side", vec![sc("i")]); par(seq(visit, extra), next("i")) } }
    };
    let last = if b.rng.chance(1, 3) { let q = b.peer(); Some(b.obs(q, "last", vec![])) } else { None };
    let fold = fold_stream("$s", "i", body, last);
    let script = match b.rng.below(3) {
        0 => seq(seeds, fold),
        1 => { let q = b.peer(); let t = b.obs(q, "tail", vec![]); seq(seeds, seq(par(fold, Instr::Null), t)) }
        _ => { let q = b.peer(); let t = b.obs(q, "side", vec![]); seq(seeds, par(fold, t)) }
    };
    Tpl { family: if recursive { Family::RecursiveFold } else { Family::FoldVisit }, name: format!("fold_visit(recursive {recursive}, shape {shape})"), air: script.text(), script, n_peers: ids.len(), recursive }
}

/// `new $t` inside a stream fold (each iteration a fresh instance) and inside the two branches of a par; each instance is
/// canonicalised locally and observed
pub fn t_new_scopes(rng: &mut Rng, ids: &[String]) -> Tpl {
    let mut b = TB::new(rng, ids);
    let k = 2 + b.rng.below(2);
    let (seeds, _) = b.writers("$s", k);
    let p = b.peer_id();
    let q = b.peer();
    let f1 = b.fname("echo");
    let inner_app = if b.rng.chance(1, 2) { ap(sc("i"), "$t") } else { call(q, "svc", &f1, vec![sc("i")], stream("$t")) };
    let (lit_app, _) = b.u.ap_append("$t");
    let o = b.obs(lit(&p), "scope", vec![sc("i"), Val::Canon("#ct".into())]);
    let scope = new_stream("$t", seqs(vec![inner_app, lit_app, canon(lit(&p), "$t", "#ct"), o]));
    let body = if b.rng.chance(1, 2) { seq(scope, next("i")) } else { par(scope, next("i")) };
    let fold = fold_stream("$s", "i", body, None);
    // two scopes of the same name in the branches of a par, plus the global stream of that name
    let (g0, _) = b.u.ap_append("$t");
    let (w1, _) = b.writers("$t", 2);
    let (w2, _) = b.writers("$t", 2);
    let (p1, p2) = (b.peer_id(), b.peer_id());
    let o1 = b.obs(lit(&p1), "seen", vec![Val::Canon("#p1".into())]);
    let o2 = b.obs(lit(&p2), "seen", vec![Val::Canon("#p2".into())]);
    let sc1 = new_stream("$t", seqs(vec![w1, canon(lit(&p1), "$t", "#p1"), o1]));
    let sc2 = new_stream("$t", seqs(vec![w2, canon(lit(&p2), "$t", "#p2"), o2]));
    let pg = b.peer_id();
    let og = b.obs(lit(&pg), "seen", vec![Val::Canon("#g".into())]);
    let global = seq(canon(lit(&pg), "$t", "#g"), og);
    let script = match b.rng.below(3) {
        0 => seq(seeds, par(fold, Instr::Null)),
        1 => seq(g0, seq(par(sc1, sc2), global)),
        _ => seq(seeds, par(fold, seq(g0, par(par(sc1, sc2), global)))),
    };
    Tpl { family: Family::NewScopes, name: "new_scopes".into(), air: script.text(), script, n_peers: ids.len(), recursive: false }
}

/// two streams, nested stream folds writing a third stream, `next` in seq and in par position, a `last` instruction
pub fn t_nested_folds(rng: &mut Rng, ids: &[String]) -> Tpl {
    let mut b = TB::new(rng, ids);
    let (fa, _) = b.writers("$a", 2);
    let kb = 1 + b.rng.below(2);
    let (fb, _) = b.writers("$b", kb);
    let q = b.peer();
    let f = b.fname("echo");
    let w = call(q, "svc", &f, vec![sc("j"), sc("i")], stream("$c"));
    let inner_body = if b.rng.chance(1, 2) { seq(w, next("j")) } else { par(w, next("j")) };
    let l = if b.rng.chance(1, 2) { let (a, _) = b.u.ap_append("$c"); Some(a) } else { None };
    let inner = fold_stream("$b", "j", inner_body, l);
    let outer_body = if b.rng.chance(1, 2) { par(inner, next("i")) } else { seq(par(inner, Instr::Null), next("i")) };
    let outer = fold_stream("$a", "i", outer_body, None);
    let p = b.peer_id();
    let o = b.obs(lit(&p), "seen", vec![Val::Canon("#cc".into())]);
    let script = seq(if b.rng.chance(1, 2) { par(fa, fb) } else { seq(fa, fb) }, seq(par(outer, Instr::Null), seq(canon(lit(&p), "$c", "#cc"), o)));
    Tpl { family: Family::NestedFolds, name: "nested_folds".into(), air: script.text(), script, n_peers: ids.len(), recursive: false }
}

/// a stream map appended from several peers (string keys from a small set, so keys repeat), canonicalised at a designated peer, the canon
/// map observed there and elsewhere, the map extended after the canon, optionally a second canon map and a new-scoped map
pub fn t_stream_map(rng: &mut Rng, ids: &[String]) -> Tpl {
    let mut b = TB::new(rng, ids);
    let mut one = |b: &mut TB| -> Instr {
        let key = lit(["ka", "kb", "kc"][b.rng.below(3)]);
        if b.rng.chance(1, 2) { let v = b.u.val(); Instr::ApMap { key, val: lit(&v), map: "%m".into() } }
        else { let v = b.u.val(); let x = format!("x{}", b.u.n); let p = b.peer(); seq(call(p, "svc", &format!("echo_{}", b.u.n), vec![lit(&v)], Out::Scalar(x.clone())), Instr::ApMap { key, val: sc(&x), map: "%m".into() }) }
    };
    let k = 2 + b.rng.below(3);
    let mut pre = one(&mut b);
    for _ in 1..k { let w = one(&mut b); pre = match b.rng.below(3) { 0 => seq(pre, w), 1 => par(pre, w), _ => par(w, pre) }; }
    let d = b.peer_id();
    let c1 = Instr::CanonMap { peer: lit(&d), map: "%m".into(), canon: "#%c".into() };
    let o1 = b.obs(lit(&d), "seenmap", vec![Val::CanonMap("#%c".into())]);
    let e = b.peer();
    let o2 = b.obs(e, "seenmap", vec![Val::CanonMap("#%c".into())]);
    let post = one(&mut b);
    let mut tail = vec![post];
    if b.rng.chance(1, 2) { let d2 = b.peer_id(); tail.push(Instr::CanonMap { peer: lit(&d2), map: "%m".into(), canon: "#%c2".into() }); tail.push(b.obs(lit(&d2), "seenmap", vec![Val::CanonMap("#%c2".into())])); }
    let uses = if b.rng.chance(1, 2) { seq(o1, o2) } else { par(o1, o2) };
    let mut script = seqs(vec![pre, c1, par(uses, seqs(tail))]);
    if b.rng.chance(1, 3) { script = Instr::New(NewVar::StreamMap("%m".into()), Box::new(script)); }
    if b.rng.chance(1, 3) { let late = one(&mut b); script = par(script, late); }
    Tpl { family: Family::StreamMap, name: "stream_map".into(), air: script.text(), script, n_peers: ids.len(), recursive: false }
}

/// A prelude that makes the SAME append sit at different trace positions in different peers' data: a call on another peer fills
/// `$early…`, and a fold over it (in the left branch of a par, so nobody waits for it) leaves a sub-trace only where that value
/// was known when the peer ran.  Merges then have to map positions (`new_to_prev_pos` / `new_to_current_pos`) for real.
fn with_shifting_prelude(rng: &mut Rng, ids: &[String], mut t: Tpl) -> Tpl {
    let k = rng.below(1000);
    let (p1, p2) = (lit(&ids[rng.below(ids.len())]), lit(&ids[rng.below(ids.len())]));
    let early = format!("$early{k}"); let ew = format!("$ew{k}");
    let fill = par(call(p1, "svc", &format!("str_early{k}"), vec![], stream(&early)), Instr::Null);
    let body = par(call(p2, "svc", &format!("echo_ew{k}"), vec![sc("je")], stream(&ew)), next("je"));
    let prelude = seq(fill, par(fold_stream(&early, "je", body, None), Instr::Null));
    t.script = seq(prelude, t.script);
    t.air = t.script.text();
    t.name = format!("{}+shifted", t.name);
    t
}

pub fn gen_template(rng: &mut Rng, fam: Family, ids: &[String]) -> Tpl {
    let t = gen_template_plain(rng, fam, ids);
    if rng.chance(1, 4) { with_shifting_prelude(rng, ids, t) } else { t }
}

fn gen_template_plain(rng: &mut Rng, fam: Family, ids: &[String]) -> Tpl {
    match fam {
        Family::StreamMap => t_stream_map(rng, ids),
        Family::WritersCanon => t_writers_canon(rng, ids),
        Family::ParCanons => t_par_canons(rng, ids),
        Family::FoldVisit => t_fold_visit(rng, ids, false),
        Family::RecursiveFold => t_fold_visit(rng, ids, true),
        Family::NewScopes => t_new_scopes(rng, ids),
        Family::NestedFolds => t_nested_folds(rng, ids),
    }
}

// ------------------------------------------------------------------------------------------------ per-history views

pub fn fnv_bytes(b: &[u8]) -> u64 { let mut h: u64 = 0xcbf29ce484222325; for x in b { h ^= *x as u64; h = h.wrapping_mul(0x100000001b3); } h ^ (b.len() as u64).wrapping_mul(0x9E3779B97F4A7C15) }

pub struct Blob { pub f: Facts, pub locs: Result<Vec<Option<Loc>>, String> }
/// decoded + located data blobs of the histories of ONE script (keyed by content)
pub struct Cache { pub map: BTreeMap<u64, std::rc::Rc<Blob>>, pub locate: bool }
impl Cache {
    pub fn new(locate: bool) -> Cache { Cache { map: BTreeMap::new(), locate } }
    pub fn get(&mut self, script: &Instr, init_peer: &str, bytes: &[u8]) -> Option<std::rc::Rc<Blob>> {
        if bytes.is_empty() { return None; }
        let k = fnv_bytes(bytes);
        if let Some(b) = self.map.get(&k) { return Some(b.clone()); }
        let f = facts(bytes)?;
        let locs = if self.locate { locate(script, &f, init_peer) } else { Err("not located (generated script)".into()) };
        let b = std::rc::Rc::new(Blob { f, locs });
        self.map.insert(k, b.clone());
        Some(b)
    }
}

pub fn run_ok(code: i64) -> bool { code == 0 || (10000..=19999).contains(&code) || code == 30000 }

/// a failure of a direct oracle: what, at which step (None: about the whole history), the class of a known defect if it belongs to one
pub struct Fail { pub why: String, pub step: Option<usize>, pub finding_key: Option<String> }

pub fn fail_json(net: &Net, tpl_name: &str, fl: &Fail) -> Value {
    let st = fl.step.and_then(|k| net.log.get(k));
    let mut input = match st { Some(st) => step_json(net, st), None => json!({"air": net.air}) };
    if let Some(st) = st {
        for (nm, d) in [("prev_trace", &st.prev), ("cur_trace", &st.cur), ("out_trace", &st.outcome.data)] { if let Some(f) = facts(d) { input[nm] = json!(short_trace(&f)); } }
    }
    let mut v = json!({"why": fl.why, "template": tpl_name, "input": input, "history": history_json(net),
        "invocations": net.peers.iter().map(|p| json!({"peer": p.peer.name, "calls": p.invocations.iter().map(|i| json!(format!("step {}: {} {} {}", i.step, i.service_id, i.function_name, Value::Array(i.args.clone())))).collect::<Vec<_>>()})).collect::<Vec<_>>()});
    if let Some(k) = &fl.finding_key { v["finding_key"] = json!(k); }
    v
}

/// generation sequence (in trace order) of the stream-valued states of one stream instance of a data blob; `None` instance: all stream-valued states
pub fn gen_sequence(b: &Blob, inst: Option<&(String, String)>) -> Vec<u64> {
    let mut out = vec![];
    for (i, s) in b.f.trace.iter().enumerate() {
        if let Some(g) = gen_of(s) {
            let same = match (inst, &b.locs) { (Some(want), Ok(l)) => l[i].as_ref().and_then(|x| x.stream.as_ref()) == Some(want), _ => true };
            if same { out.push(g); }
        }
    }
    out
}
/// "dense-monotone": replayed in trace order, every value lands in the last generation so far or opens the next one. When this fails, the
/// replay of the blob builds a values matrix with an empty generation or inserts below the top — the input class of the known defect
/// `recursive-fold-skips-value-below-generation-cursor`
pub fn dense_monotone(seq: &[u64]) -> bool { let mut top: i64 = -1; for g in seq { let g = *g as i64; if g == top || g == top + 1 { top = g; } else { return false; } } true }

// ------------------------------------------------------------------------------------------------ step views

/// where a stream-valued state of the produced data got its value from in this run
#[derive(Clone, Copy, Debug, PartialEq)]
pub enum Src { Prev(u64), Cur(u64), New, NotStream }

pub struct StepView {
    pub k: usize, pub out: std::rc::Rc<Blob>, pub prev: Option<std::rc::Rc<Blob>>, pub cur: Option<std::rc::Rc<Blob>>,
    pub al_prev: Option<Alignment>, pub al_cur: Option<Alignment>,
    /// per produced state
    pub src: Vec<Src>,
    /// the values taken from one source, in execution order, do not fill that source's generations densely from 0 upwards
    /// (the replay builds a values matrix with empty generations): input class of the known recursive-fold defect
    pub sparse: bool,
    /// this step is sparse or consumed data produced by (a descendant of) a sparse step
    pub tainted: bool,
}

/// stream instance of a produced state: from the locator when the script is located, else one bucket for all streams
pub fn inst_of(b: &Blob, i: usize) -> (String, String) { match &b.locs { Ok(l) => l[i].as_ref().and_then(|x| x.stream.clone()).unwrap_or(("?".into(), "".into())), Err(_) => ("*".into(), "".into()) } }

pub fn step_views(script: &Instr, net: &Net, cache: &mut Cache) -> Vec<Option<StepView>> {
    let init = net.peer_ids[net.init].clone();
    let mut tainted_blobs: HashSet<u64> = HashSet::new();
    let mut out = vec![];
    for st in &net.log {
        if !run_ok(st.outcome.ret_code) || st.outcome.ret_code == PANIC_CODE { out.push(None); continue; }
        let ob = match cache.get(script, &init, &st.outcome.data) { Some(b) => b, None => { out.push(None); continue; } };
        let (pb, cb) = (cache.get(script, &init, &st.prev), cache.get(script, &init, &st.cur));
        let al_prev = pb.as_ref().map(|p| align(&p.f.trace, &ob.f.trace));
        let al_cur = cb.as_ref().map(|c| align(&c.f.trace, &ob.f.trace));
        let mut src: Vec<Src> = ob.f.trace.iter().map(|s| if gen_of(s).is_some() { Src::New } else { Src::NotStream }).collect();
        if let (Some(c), Some(al)) = (&cb, &al_cur) { for (i, j) in al.map.iter().enumerate() { if let (Some(j), Some(g)) = (j, gen_of(&c.f.trace[i])) { if src[*j] != Src::NotStream { src[*j] = Src::Cur(g); } } } }
        if let (Some(p), Some(al)) = (&pb, &al_prev) { for (i, j) in al.map.iter().enumerate() { if let (Some(j), Some(g)) = (j, gen_of(&p.f.trace[i])) { if src[*j] != Src::NotStream { src[*j] = Src::Prev(g); } } } }
        // per stream instance and source: generation sequence in execution (= produced trace) order
        let mut seqs: BTreeMap<((String, String), u8), Vec<u64>> = BTreeMap::new();
        for (j, s) in src.iter().enumerate() { match s { Src::Prev(g) => seqs.entry((inst_of(&ob, j), 0)).or_default().push(*g), Src::Cur(g) => seqs.entry((inst_of(&ob, j), 1)).or_default().push(*g), _ => {} } }
        let sparse = seqs.values().any(|q| !dense_monotone(q));
        let tainted = sparse || tainted_blobs.contains(&fnv_bytes(&st.prev)) || tainted_blobs.contains(&fnv_bytes(&st.cur));
        if tainted { tainted_blobs.insert(fnv_bytes(&st.outcome.data)); }
        out.push(Some(StepView { k: st.step, out: ob, prev: pb, cur: cb, al_prev, al_cur, src, sparse, tainted }));
    }
    out
}

/// does the script fold over a stream that the fold's own body (or last instruction) appends to?
pub fn has_recursive_fold(script: &Instr) -> bool {
    let mut r = false;
    script.visit(&mut |i| if let Instr::FoldStream { stream, body, last, .. } = i {
        let mut hit = false;
        let mut chk = |x: &Instr| match x { Instr::Call { out: Out::Stream(s), .. } | Instr::Ap { out: Out::Stream(s), .. } if s == stream => hit = true, _ => {} };
        body.visit(&mut chk); if let Some(l) = last { l.visit(&mut chk); }
        if hit { r = true; }
    });
    r
}

pub const KEY_RECURSIVE_FOLD: &str = "recursive-fold-skips-value-below-generation-cursor";

// ------------------------------------------------------------------------------------------------ driver

pub struct Setup {
    pub prop: &'static str, pub fields: &'static [&'static str], pub families: Vec<Family>,
    /// template histories (quick, thorough); every 3rd template is also explored under all delivery orders when small
    pub histories: (usize, usize),
    /// histories of scripts of the general generator (`script::Gen`, streams on)
    pub generated: (usize, usize),
    pub seed_salt: u64,
    /// wall-clock guard in seconds (quick, thorough): generation stops early when exceeded (counted in the stats)
    pub time_guard: (u64, u64),
}

/// what a checker sees: the template (None for generated scripts), the script, the history, its step views
pub struct HistCtx<'a> { pub tpl: Option<&'a Tpl>, pub script: &'a Instr, pub net: &'a Net, pub views: &'a [Option<StepView>], pub recursive: bool, pub located: bool }

pub fn sched_sig(net: &Net) -> String { net.log.iter().map(|s| format!("{}:{}:{}", s.peer, s.event, s.outcome.ret_code)).collect::<Vec<_>>().join(",") }

/// a history of a script of the general generator (as `hist::gen_history`, streams on), with reproducible scheduling
pub fn gen_history_det(rng: &mut Rng, budget: usize, max_steps: usize) -> (Instr, Net) {
    let n_peers = 3 + rng.below(3);
    let peers = peers_named(n_peers);
    let ids: Vec<String> = peers.iter().map(|p| p.id.clone()).collect();
    let cfg = GenCfg { peers: ids.clone(), streams: true, fragment: false, budget, failing_services: true };
    let use_template = rng.chance(1, 2);
    let mut g = Gen::new(rng, cfg);
    let mut script = g.script();
    let mut tries = 0;
    while script.size() < 3 && tries < 5 { script = g.script(); tries += 1; }
    if use_template { script = template(rng, &ids); }
    let seed = rng.next();
    let mut net = Net::new(&script.text(), &peers, &format!("particle-{seed:x}"));
    let mut r2 = Rng::new(seed);
    run_random_det(&mut net, &mut r2, max_steps);
    (script, net)
}

pub fn drive(ctx: &mut Ctx, rep: &mut Report, setup: &Setup, check: &mut dyn FnMut(&HistCtx, &mut Report) -> Vec<Fail>) {
    let t0 = std::time::Instant::now();
    let guard = if ctx.thorough { setup.time_guard.1 } else { setup.time_guard.0 };
    let mut rng = Rng::new(ctx.seed ^ setup.seed_salt);
    let mut corr = Corr::new();
    let n_hist = if ctx.thorough { setup.histories.1 } else { setup.histories.0 };
    // failures outside the known classes are reported first (the report keeps 20 failures)
    let (mut plain_fails, mut known_fails): (Vec<Value>, Vec<Value>) = (vec![], vec![]);
    let mut one = |ctx: &mut Ctx, rep: &mut Report, corr: &mut Corr, tpl: Option<&Tpl>, script: &Instr, net: &Net, cache: &mut Cache, kind: &str| {
        corr.history(ctx, rep, net, setup.fields);
        let views = step_views(script, net, cache);
        let located = cache.locate && views.iter().flatten().all(|v| v.out.locs.is_ok());
        if cache.locate && !located { rep.stat("histories_not_located"); if let Some(e) = views.iter().flatten().find_map(|v| v.out.locs.as_ref().err()) { rep.stat(&format!("locator:{}", e.chars().take(60).collect::<String>())); } }
        let hc = HistCtx { tpl, script, net, views: &views, recursive: has_recursive_fold(script), located };
        let fails = check(&hc, rep);
        let n_steps = net.log.len();
        let has_stream = views.iter().flatten().any(|v| v.src.iter().any(|s| *s != Src::NotStream));
        rep.stat(&format!("histories_{kind}")); rep.stat_n("steps", n_steps as u64);
        if net.quiescent() { rep.stat("histories_quiescent"); } else { rep.stat("histories_cut_at_step_budget"); }
        if views.iter().flatten().any(|v| v.sparse) { rep.stat("histories_with_sparse_generation_replay"); }
        for st in &net.log { rep.stat(&format!("ret_{}", crate::gen_codes::name_of(st.outcome.ret_code))); }
        // debugging aid: AQUA_STRM_DUMP_PREP=<file> writes the first template history in which an honest run ends with a preparation error
        if let (Ok(path), Some(st)) = (std::env::var("AQUA_STRM_DUMP_PREP"), net.log.iter().find(|s| (1..=9999).contains(&s.outcome.ret_code))) {
            if tpl.is_some() && !std::path::Path::new(&path).exists() { let _ = std::fs::write(&path, serde_json::to_string_pretty(&json!({"input": step_json(net, st), "history": history_json(net), "sparse_steps": views.iter().flatten().filter(|v| v.sparse).map(|v| v.k).collect::<Vec<_>>() })).unwrap()); }
        }
        for _ in 1..n_steps.max(1) { rep.evaluations += 1; }
        let canon = format!("{}|{}", net.air, sched_sig(net));
        rep.case(&canon, n_steps >= 2 && has_stream, || json!({"template": tpl.map(|t| t.name.clone()), "air": net.air, "peers": net.peers.len(), "kind": kind,
            "steps": net.log.iter().map(|s| format!("{}:{}:{}", net.peers[s.peer].peer.name, s.event, s.outcome.ret_code)).collect::<Vec<_>>()}));
        let name = tpl.map(|t| t.name.clone()).unwrap_or("generated".into());
        // one failure per history and class is enough
        let mut seen: HashSet<String> = HashSet::new();
        for fl in fails { let cls = format!("{:?}|{}", fl.finding_key, fl.why.chars().take(40).collect::<String>()); if seen.insert(cls) {
            if fl.finding_key.is_some() { rep.stat("failures_in_known_class"); if known_fails.len() < 2 { known_fails.push(fail_json(net, &name, &fl)); } }
            else { rep.stat("failures_outside_known_classes"); if plain_fails.len() < 18 { plain_fails.push(fail_json(net, &name, &fl)); } } } }
    };
    for h in 0..n_hist {
        if t0.elapsed().as_secs() > guard * 3 / 4 { rep.stat("templates_stopped_by_time_guard"); break; }
        let n = 3 + rng.below(3);
        let peers = peers_named(n);
        let ids: Vec<String> = peers.iter().map(|p| p.id.clone()).collect();
        let fam = setup.families[h % setup.families.len()];
        let tpl = gen_template(&mut rng, fam, &ids);
        rep.stat(&format!("template_{:?}", fam));
        for k in tpl.script.kinds() { rep.stat(&format!("instr_{k}")); }
        let mut cache = Cache::new(true);
        let seed = rng.next();
        let mut net = Net::new(&tpl.air, &peers, &format!("particle-{seed:x}"));
        net.init = rng.below(n);
        let mut r2 = Rng::new(seed);
        run_random_det(&mut net, &mut r2, 60); drain(&mut net, &mut r2, 150);
        one(ctx, rep, &mut corr, Some(&tpl), &tpl.script, &net, &mut cache, "random_schedule");
        if h % 3 == 0 && net.sent_messages.len() <= 6 {
            let (leaves, truncated) = explore_all(&tpl.air, &peers, &format!("particle-{seed:x}"), net.init, if ctx.thorough { 400 } else { 60 }, if ctx.thorough { 6000 } else { 700 }, 40);
            rep.stat(if truncated { "exhaustive_truncated" } else { "exhaustive_complete" });
            for leaf in &leaves { one(ctx, rep, &mut corr, Some(&tpl), &tpl.script, leaf, &mut cache, "all_delivery_orders"); }
        }
    }
    let n_gen = if ctx.thorough { setup.generated.1 } else { setup.generated.0 };
    for _ in 0..n_gen {
        if t0.elapsed().as_secs() > guard { rep.stat("generated_scripts_stopped_by_time_guard"); break; }
        let budget = 6 + rng.below(12);
        let (script, net) = gen_history_det(&mut rng, budget, 50);
        for k in script.kinds() { rep.stat(&format!("instr_{k}")); }
        let mut cache = Cache::new(false);
        one(ctx, rep, &mut corr, None, &script, &net, &mut cache, "generated_script");
    }
    drop(one);
    for f in plain_fails { rep.oracle_fail(f); }
    for f in known_fails { rep.oracle_fail(f); }
}
