//! C14 tampering catalog: structure-aware edits of decoded interpreter data (as its serde JSON form),
//! CID recomputation with the real CID functions ("consistent" rewrites), re-signing of the attacker's
//! own entry with the real `sign_cids`, re-encoding with the real codecs.
use crate::host::Peer;
use crate::util::Rng;
use air_interpreter_cid::{raw_value_to_json_cid, value_to_json_cid};
use air_interpreter_data::{CanonCidAggregate, CanonResultCidAggregate, InterpreterData, ServiceResultCidAggregate};
use polyplets::SecurityTetraplet;
use serde_json::{json, Value};
use std::rc::Rc;

#[derive(Clone)]
pub struct TData { pub j: Value, pub interpreter_version: semver::Version }

pub fn decode(bytes: &[u8]) -> Option<TData> {
    let (versions, d) = crate::host::decode_data(bytes)?;
    let j = std::panic::catch_unwind(std::panic::AssertUnwindSafe(|| serde_json::to_value(&d).ok())).ok()??;
    Some(TData { j, interpreter_version: versions.interpreter_version })
}

pub fn to_data(t: &TData) -> Option<InterpreterData> { serde_json::from_value::<InterpreterData>(t.j.clone()).ok() }

pub fn encode(t: &TData) -> Option<Vec<u8>> {
    let d = to_data(t)?;
    let b = crate::tamper::reencode(d, t.interpreter_version.clone());
    if b.is_empty() { None } else { Some(b) }
}

// ---------------------------------------------------------------------------------------------- CIDs (real functions)
pub fn cid_of_raw(text: &str) -> String { raw_value_to_json_cid::<()>(text.as_bytes()).get_inner().to_string() }
pub fn cid_of_tetraplet(t: &Value) -> Option<String> {
    let t: SecurityTetraplet = serde_json::from_value(t.clone()).ok()?;
    Some(value_to_json_cid(&t).ok()?.get_inner().to_string())
}
pub fn cid_of_service_result(a: &Value) -> Option<String> {
    let a: ServiceResultCidAggregate = serde_json::from_value(a.clone()).ok()?;
    Some(value_to_json_cid(&a).ok()?.get_inner().to_string())
}
pub fn cid_of_canon_element(a: &Value) -> Option<String> {
    let a: CanonCidAggregate = serde_json::from_value(a.clone()).ok()?;
    Some(value_to_json_cid(&a).ok()?.get_inner().to_string())
}
pub fn cid_of_canon_result(a: &Value) -> Option<String> {
    let a: CanonResultCidAggregate = serde_json::from_value(a.clone()).ok()?;
    Some(value_to_json_cid(&a).ok()?.get_inner().to_string())
}
/// the same CID re-encoded in multibase base58btc (`z…`): another text for the same hash
pub fn reencode_cid_base58(cid: &str) -> Option<String> {
    // base32 lower (RFC 4648, no padding) after the multibase prefix 'b'
    let s = cid.strip_prefix('b')?;
    let mut bits: u32 = 0; let mut n = 0; let mut out = vec![];
    for c in s.bytes() {
        let v = match c { b'a'..=b'z' => c - b'a', b'2'..=b'7' => c - b'2' + 26, _ => return None } as u32;
        bits = (bits << 5) | v; n += 5;
        if n >= 8 { out.push((bits >> (n - 8)) as u8); n -= 8; bits &= (1 << n) - 1; }
    }
    Some(format!("z{}", bs58::encode(out).into_string()))
}

// ---------------------------------------------------------------------------------------------- reading
#[derive(Clone, Copy, Debug, PartialEq)]
pub enum Kind { Scalar, Stream, Failed, Unused, Sent, Canon, CanonSent, Other }

pub fn state_kind(s: &Value) -> Kind {
    if let Some(c) = s.get("call") {
        if c.get("sent_by").is_some() { return Kind::Sent; }
        if let Some(e) = c.get("executed") {
            if e.get("scalar").is_some() { return Kind::Scalar; }
            if e.get("stream").is_some() { return Kind::Stream; }
            if e.get("unused").is_some() { return Kind::Unused; }
        }
        if c.get("failed").is_some() { return Kind::Failed; }
    }
    if let Some(c) = s.get("canon") { return if c.get("executed").is_some() { Kind::Canon } else { Kind::CanonSent }; }
    Kind::Other
}

/// the CID a state contributes to its owner's signed list (`CallResult::get_cid` / canon executed)
pub fn state_cid(s: &Value) -> Option<String> {
    match state_kind(s) {
        Kind::Scalar => s["call"]["executed"]["scalar"].as_str().map(String::from),
        Kind::Stream => s["call"]["executed"]["stream"]["cid"].as_str().map(String::from),
        Kind::Failed => s["call"]["failed"].as_str().map(String::from),
        Kind::Canon => s["canon"]["executed"].as_str().map(String::from),
        _ => None,
    }
}

pub fn set_state_cid(s: &mut Value, cid: &str) {
    match state_kind(s) {
        Kind::Scalar => s["call"]["executed"]["scalar"] = json!(cid),
        Kind::Stream => s["call"]["executed"]["stream"]["cid"] = json!(cid),
        Kind::Failed => s["call"]["failed"] = json!(cid),
        Kind::Canon => s["canon"]["executed"] = json!(cid),
        _ => {}
    }
}

pub fn store<'a>(j: &'a Value, name: &str) -> &'a Value { &j["cid_info"][name] }
pub fn store_mut<'a>(j: &'a mut Value, name: &str) -> &'a mut serde_json::Map<String, Value> { j["cid_info"][name].as_object_mut().expect("store is a map") }

/// (owner peer id) of a state, through the stores — the harness's own reading of the attribution rule
pub fn state_owner(j: &Value, s: &Value) -> Option<String> {
    let cid = state_cid(s)?;
    let tet_cid = match state_kind(s) {
        Kind::Canon => store(j, "canon_result_store").get(&cid)?.get("tetraplet")?.as_str()?.to_string(),
        _ => store(j, "service_result_store").get(&cid)?.get("tetraplet_cid")?.as_str()?.to_string(),
    };
    store(j, "tetraplet_store").get(&tet_cid)?.get("peer_pk")?.as_str().map(String::from)
}

/// every attributed state: (position, owner, cid, kind)
pub fn attributed(j: &Value) -> Vec<(usize, String, String, Kind)> {
    let mut v = vec![];
    if let Some(t) = j["trace"].as_array() {
        for (i, s) in t.iter().enumerate() {
            if let (Some(cid), Some(o)) = (state_cid(s), state_owner(j, s)) { v.push((i, o, cid, state_kind(s))); }
        }
    }
    v
}

pub fn peer_cids(j: &Value, peer: &str) -> Vec<String> { attributed(j).into_iter().filter(|(_, o, _, _)| o == peer).map(|(_, _, c, _)| c).collect() }

/// `SaltedData(&sorted cids, salt)` in borsh, as this harness understands it (checked against the real signer)
pub fn salted_bytes(cids: &[String], salt: &str) -> Vec<u8> {
    let mut c: Vec<String> = cids.to_vec(); c.sort();
    borsh::to_vec(&(&c, salt)).expect("borsh")
}

/// recompute the attacker's own signature over the CIDs now attributed to it (as `SignatureStore` users do)
pub fn resign(j: &mut Value, attacker: &Peer, salt: &str) {
    let cids: Vec<Rc<str>> = peer_cids(j, &attacker.id).into_iter().map(|c| Rc::from(c.as_str())).collect();
    let pk = attacker.kp.public().to_string();
    let has_entry = j["signatures"].get(&pk).is_some();
    if cids.is_empty() && !has_entry { return; }
    let sig: air_interpreter_signatures::Signature = air_interpreter_signatures::sign_cids(cids, salt, attacker.kp.as_inner()).expect("sign").into();
    j["signatures"][pk] = serde_json::to_value(&sig).unwrap();
}

// ---------------------------------------------------------------------------------------------- catalog
#[derive(Clone, Debug, PartialEq)]
pub enum Op {
    /// value store entry replaced under the same CID
    ValueSwap,
    /// new value, new CIDs all the way up, trace updated, stores consistent
    CidRewrite,
    /// tetraplet field changed consistently (field 0..=3 = peer→attacker, peer→other honest, service, function, lens = 4)
    TetrapletChange(u8),
    /// tetraplet store entry replaced under the same CID
    TetrapletInPlace,
    /// argument hash changed consistently
    ArgHashChange,
    /// service-result aggregate replaced under the same CID (argument hash changed)
    AggregateInPlace,
    /// the result swapped with another attributed result (other = index into the attributed list)
    SwapWith(usize),
    /// the result moved into a request-sent slot; its own slot becomes "sent by the attacker"
    MoveToSent(usize),
    /// the result copied into another call slot (own slot kept)
    DuplicateInto(usize),
    /// executed <-> failed
    KindExecFailed,
    /// scalar -> stream / stream -> scalar
    KindScalarStream,
    /// result -> unused (value CID)
    KindToUnused,
    /// a request-sent slot (index among sent slots) filled with a fabricated result attributed to the target's owner
    FabricateInSent(usize),
    /// the same CID in another text form (base58btc)
    CidReencode,
    /// owner's signature swapped with another peer's
    SigSwap,
    /// owner's signature dropped
    SigDrop,
    /// owner's signature replaced by its signature from another particle's run of the same history
    SigReplay,
    /// owner's signature replaced by an earlier signature of the same particle (fewer results)
    SigOlder,
    /// canon: tetraplet peer changed consistently
    CanonPeerChange,
    /// canon: an element dropped or duplicated, consistently
    CanonValuesChange,
    /// canon: an element's value replaced consistently (new CIDs up to the canon result)
    CanonElementRewrite,
    /// canon: canon result aggregate replaced under the same CID
    CanonInPlace,
    /// canon: an element aggregate replaced under the same CID; every CID the new content names exists in the stores
    /// (the value CID of another stored value), so only the hash check of the canon element store can notice
    CanonElementInPlace,
}

impl Op {
    pub fn name(&self) -> &'static str {
        match self {
            Op::ValueSwap => "value_swap", Op::CidRewrite => "cid_rewrite", Op::TetrapletChange(0) => "tetraplet_peer_to_attacker", Op::TetrapletChange(1) => "tetraplet_peer_to_other",
            Op::TetrapletChange(2) => "tetraplet_service", Op::TetrapletChange(3) => "tetraplet_function", Op::TetrapletChange(_) => "tetraplet_lens", Op::TetrapletInPlace => "tetraplet_in_place",
            Op::ArgHashChange => "arg_hash_change", Op::AggregateInPlace => "aggregate_in_place", Op::SwapWith(_) => "swap_results", Op::MoveToSent(_) => "move_to_sent_slot",
            Op::DuplicateInto(_) => "duplicate_result", Op::KindExecFailed => "kind_executed_failed", Op::KindScalarStream => "kind_scalar_stream", Op::KindToUnused => "kind_to_unused",
            Op::FabricateInSent(_) => "fabricate_in_sent_slot", Op::CidReencode => "cid_reencode_base58", Op::SigSwap => "signature_swap", Op::SigDrop => "signature_drop",
            Op::SigReplay => "signature_other_particle", Op::SigOlder => "signature_older", Op::CanonPeerChange => "canon_peer_change", Op::CanonValuesChange => "canon_values_change",
            Op::CanonElementRewrite => "canon_element_rewrite", Op::CanonInPlace => "canon_in_place", Op::CanonElementInPlace => "canon_element_in_place",
        }
    }
}

pub struct TamperCtx<'a> {
    pub attacker: &'a Peer,
    /// honest peers other than the attacker: (peer id, public key text)
    pub peers: Vec<(String, String)>,
    /// the owner's signature in the same position of the other-particle run, if any
    pub replay_sigs: std::collections::HashMap<String, Value>,
    /// older signatures of the same particle per public key
    pub older_sigs: std::collections::HashMap<String, Vec<Value>>,
}

fn pk_of<'a>(ctx: &'a TamperCtx, peer: &str) -> Option<&'a str> { ctx.peers.iter().find(|(p, _)| p == peer).map(|(_, k)| k.as_str()) }

fn call_slots(j: &Value) -> Vec<usize> { j["trace"].as_array().map(|t| t.iter().enumerate().filter(|(_, s)| s.get("call").is_some()).map(|(i, _)| i).collect()).unwrap_or_default() }
fn sent_slots(j: &Value) -> Vec<usize> { j["trace"].as_array().map(|t| t.iter().enumerate().filter(|(_, s)| state_kind(s) == Kind::Sent).map(|(i, _)| i).collect()).unwrap_or_default() }

/// rewrite the call result at `pos` consistently: `f(value_text, tetraplet, argument_hash)`
fn rewrite_call(j: &mut Value, pos: usize, f: impl FnOnce(&mut String, &mut Value, &mut String)) -> Option<String> {
    let cid = state_cid(&j["trace"][pos])?;
    let agg = store(j, "service_result_store").get(&cid)?.clone();
    let (vc, tc) = (agg["value_cid"].as_str()?.to_string(), agg["tetraplet_cid"].as_str()?.to_string());
    let mut text = store(j, "value_store").get(&vc)?.as_str()?.to_string();
    let mut tet = store(j, "tetraplet_store").get(&tc)?.clone();
    let mut ah = agg["argument_hash"].as_str()?.to_string();
    f(&mut text, &mut tet, &mut ah);
    let nvc = cid_of_raw(&text);
    let ntc = cid_of_tetraplet(&tet)?;
    let nagg = json!({"value_cid": nvc, "argument_hash": ah, "tetraplet_cid": ntc});
    let ncid = cid_of_service_result(&nagg)?;
    store_mut(j, "value_store").insert(nvc, json!(text));
    store_mut(j, "tetraplet_store").insert(ntc, tet);
    store_mut(j, "service_result_store").insert(ncid.clone(), nagg);
    set_state_cid(&mut j["trace"][pos], &ncid);
    Some(ncid)
}

fn other_json_text(text: &str, rng: &mut Rng) -> String {
    let alts = ["\"forged\"", "42", "[\"forged\"]", "{\"peer\":\"forged\"}", "\"str0\"", "null"];
    let mut t = alts[rng.below(alts.len())].to_string();
    if t == text { t = "\"forged2\"".into(); }
    t
}

/// apply `op` to the attributed result at trace position `pos` (owner `owner`); returns a description, None when not applicable
pub fn apply(op: &Op, t: &mut TData, pos: usize, owner: &str, ctx: &TamperCtx, rng: &mut Rng) -> Option<String> {
    let j = &mut t.j;
    let kind = state_kind(&j["trace"][pos]);
    let cid = state_cid(&j["trace"][pos])?;
    let is_call = matches!(kind, Kind::Scalar | Kind::Stream | Kind::Failed);
    match op {
        Op::ValueSwap => {
            let vc = if is_call { store(j, "service_result_store").get(&cid)?.get("value_cid")?.as_str()?.to_string() }
                     else { let el = store(j, "canon_result_store").get(&cid)?.get("values")?.get(0)?.as_str()?.to_string(); store(j, "canon_element_store").get(&el)?.get("value")?.as_str()?.to_string() };
            let old = store(j, "value_store").get(&vc)?.as_str()?.to_string();
            let new = if kind == Kind::Failed { "{\"ret_code\":7,\"message\":\"forged\"}".to_string() } else { other_json_text(&old, rng) };
            store_mut(j, "value_store").insert(vc.clone(), json!(new));
            Some(format!("value under {vc}: {old} -> {new}"))
        }
        Op::CidRewrite => { if !is_call { return None; }
            let failed = kind == Kind::Failed;
            let n = rewrite_call(j, pos, |text, _, _| { *text = if failed { "{\"ret_code\":7,\"message\":\"forged\"}".to_string() } else { other_json_text(text, rng) }; })?;
            Some(format!("state {pos}: new value, cid {cid} -> {n}")) }
        Op::TetrapletChange(which) => { if !is_call { return None; }
            let attacker = ctx.attacker.id.clone();
            let other = ctx.peers.iter().map(|(p, _)| p.clone()).find(|p| p != owner && *p != attacker);
            let w = *which;
            if w == 1 && other.is_none() { return None; }
            let n = rewrite_call(j, pos, |_, tet, _| match w {
                0 => tet["peer_pk"] = json!(attacker), 1 => tet["peer_pk"] = json!(other.unwrap()),
                2 => tet["service_id"] = json!(format!("{}x", tet["service_id"].as_str().unwrap_or(""))),
                3 => tet["function_name"] = json!(format!("{}x", tet["function_name"].as_str().unwrap_or(""))),
                _ => tet["lens"] = json!(format!("{}.$.x", tet["lens"].as_str().unwrap_or(""))) })?;
            Some(format!("state {pos}: tetraplet field {w} changed, cid {cid} -> {n}")) }
        Op::TetrapletInPlace => {
            let tc = if is_call { store(j, "service_result_store").get(&cid)?.get("tetraplet_cid")?.as_str()?.to_string() } else { store(j, "canon_result_store").get(&cid)?.get("tetraplet")?.as_str()?.to_string() };
            let mut tet = store(j, "tetraplet_store").get(&tc)?.clone();
            tet["peer_pk"] = json!(ctx.attacker.id);
            store_mut(j, "tetraplet_store").insert(tc.clone(), tet);
            Some(format!("tetraplet under {tc}: peer -> attacker")) }
        Op::ArgHashChange => { if !is_call { return None; }
            let n = rewrite_call(j, pos, |_, _, ah| { *ah = cid_of_raw("[\"other-args\"]"); })?;
            Some(format!("state {pos}: argument hash changed, cid {cid} -> {n}")) }
        Op::AggregateInPlace => { if !is_call { return None; }
            let mut agg = store(j, "service_result_store").get(&cid)?.clone();
            agg["argument_hash"] = json!(cid_of_raw("[\"other-args\"]"));
            store_mut(j, "service_result_store").insert(cid.clone(), agg);
            Some(format!("aggregate under {cid}: argument hash replaced")) }
        Op::SwapWith(k) => { if !is_call { return None; }
            let att = attributed(j);
            let cands: Vec<&(usize, String, String, Kind)> = att.iter().filter(|(p, _, c, kd)| *p != pos && *c != cid && matches!(kd, Kind::Scalar | Kind::Stream | Kind::Failed)).collect();
            if cands.is_empty() { return None; }
            let (p2, _, c2, _) = cands[*k % cands.len()].clone();
            set_state_cid(&mut j["trace"][pos], &c2);
            set_state_cid(&mut j["trace"][p2], &cid);
            Some(format!("results at {pos} and {p2} swapped")) }
        Op::MoveToSent(k) => { if !is_call { return None; }
            let slots = sent_slots(j); if slots.is_empty() { return None; }
            let p2 = slots[*k % slots.len()];
            let st = j["trace"][pos].clone();
            j["trace"][p2] = st;
            j["trace"][pos] = json!({"call": {"sent_by": {"PeerId": ctx.attacker.id}}});
            Some(format!("result at {pos} moved to the request-sent slot {p2}")) }
        Op::DuplicateInto(k) => { if !is_call { return None; }
            let slots: Vec<usize> = call_slots(j).into_iter().filter(|p| *p != pos).collect(); if slots.is_empty() { return None; }
            let p2 = slots[*k % slots.len()];
            if state_cid(&j["trace"][p2]).as_deref() == Some(cid.as_str()) { return None; }
            let st = j["trace"][pos].clone();
            j["trace"][p2] = st;
            Some(format!("result at {pos} copied over the call state at {p2}")) }
        Op::KindExecFailed => {
            match kind { Kind::Scalar | Kind::Stream => j["trace"][pos] = json!({"call": {"failed": cid}}), Kind::Failed => j["trace"][pos] = json!({"call": {"executed": {"scalar": cid}}}), _ => return None }
            Some(format!("state {pos}: executed <-> failed")) }
        Op::KindScalarStream => {
            match kind { Kind::Scalar => j["trace"][pos] = json!({"call": {"executed": {"stream": {"cid": cid, "generation": 0}}}}), Kind::Stream => j["trace"][pos] = json!({"call": {"executed": {"scalar": cid}}}), _ => return None }
            Some(format!("state {pos}: scalar <-> stream")) }
        Op::KindToUnused => { if !is_call { return None; }
            let vc = store(j, "service_result_store").get(&cid)?.get("value_cid")?.as_str()?.to_string();
            j["trace"][pos] = json!({"call": {"executed": {"unused": vc}}});
            Some(format!("state {pos}: result -> unused")) }
        Op::FabricateInSent(k) => {
            let slots = sent_slots(j); if slots.is_empty() { return None; }
            let p2 = slots[*k % slots.len()];
            let text = other_json_text("", rng);
            let tet = json!({"peer_pk": owner, "service_id": "svc", "function_name": "str_0", "lens": ""});
            let (vc, tc) = (cid_of_raw(&text), cid_of_tetraplet(&tet)?);
            let agg = json!({"value_cid": vc, "argument_hash": cid_of_raw("[]"), "tetraplet_cid": tc});
            let ac = cid_of_service_result(&agg)?;
            store_mut(j, "value_store").insert(vc, json!(text));
            store_mut(j, "tetraplet_store").insert(tc, tet);
            store_mut(j, "service_result_store").insert(ac.clone(), agg);
            j["trace"][p2] = json!({"call": {"executed": {"scalar": ac}}});
            Some(format!("request-sent slot {p2} filled with a fabricated result of {owner}")) }
        Op::CidReencode => {
            let n = reencode_cid_base58(&cid)?;
            let name = if is_call { "service_result_store" } else { "canon_result_store" };
            let v = store(j, name).get(&cid)?.clone();
            store_mut(j, name).insert(n.clone(), v);
            set_state_cid(&mut j["trace"][pos], &n);
            Some(format!("state {pos}: cid text {cid} -> {n}")) }
        Op::SigSwap => {
            let pk = pk_of(ctx, owner)?.to_string();
            let other = ctx.peers.iter().find(|(p, k)| p != owner && j["signatures"].get(k).is_some())?.1.clone();
            let (a, b) = (j["signatures"].get(&pk)?.clone(), j["signatures"].get(&other)?.clone());
            if a == b { return None; }
            j["signatures"][&pk] = b; j["signatures"][&other] = a;
            Some(format!("signatures of {owner} and another peer swapped")) }
        Op::SigDrop => {
            let pk = pk_of(ctx, owner)?.to_string();
            j["signatures"].as_object_mut()?.remove(&pk)?;
            Some(format!("signature of {owner} dropped")) }
        Op::SigReplay => {
            let pk = pk_of(ctx, owner)?.to_string();
            let s = ctx.replay_sigs.get(&pk)?.clone();
            if j["signatures"].get(&pk) == Some(&s) { return None; }
            j["signatures"][&pk] = s;
            Some(format!("signature of {owner} replaced by its signature for another particle")) }
        Op::SigOlder => {
            let pk = pk_of(ctx, owner)?.to_string();
            let cur = j["signatures"].get(&pk)?.clone();
            let olds: Vec<&Value> = ctx.older_sigs.get(&pk)?.iter().filter(|s| **s != cur).collect();
            if olds.is_empty() { return None; }
            j["signatures"][&pk] = olds[rng.below(olds.len())].clone();
            Some(format!("signature of {owner} replaced by another signature of the same peer and particle")) }
        Op::CanonPeerChange | Op::CanonValuesChange | Op::CanonElementRewrite => { if kind != Kind::Canon { return None; }
            let mut cr = store(j, "canon_result_store").get(&cid)?.clone();
            match op {
                Op::CanonPeerChange => {
                    let mut tet = store(j, "tetraplet_store").get(cr["tetraplet"].as_str()?)?.clone();
                    tet["peer_pk"] = json!(ctx.attacker.id);
                    let tc = cid_of_tetraplet(&tet)?;
                    store_mut(j, "tetraplet_store").insert(tc.clone(), tet);
                    cr["tetraplet"] = json!(tc);
                }
                Op::CanonValuesChange => {
                    let vals = cr["values"].as_array_mut()?;
                    if vals.is_empty() || rng.chance(1, 2) {
                        // add an element: a literal value fabricated by the attacker
                        let text = "\"forged-element\"".to_string();
                        let tet = json!({"peer_pk": owner, "service_id": "", "function_name": "", "lens": ""});
                        let (vc, tc) = (cid_of_raw(&text), cid_of_tetraplet(&tet)?);
                        let el = json!({"value": vc, "tetraplet": tc, "provenance": {"type": "literal"}});
                        let ec = cid_of_canon_element(&el)?;
                        vals.push(json!(ec));
                        store_mut(j, "value_store").insert(vc, json!(text));
                        store_mut(j, "tetraplet_store").insert(tc, tet);
                        store_mut(j, "canon_element_store").insert(ec, el);
                    } else { let i = rng.below(vals.len()); vals.remove(i); }
                }
                _ => {
                    let vals = cr["values"].as_array_mut()?; if vals.is_empty() { return None; }
                    let i = rng.below(vals.len());
                    let mut el = store(j, "canon_element_store").get(vals[i].as_str()?)?.clone();
                    let text = other_json_text("", rng);
                    let vc = cid_of_raw(&text);
                    el["value"] = json!(vc);
                    let ec = cid_of_canon_element(&el)?;
                    let vals = cr["values"].as_array_mut()?;
                    vals[i] = json!(ec);
                    store_mut(j, "value_store").insert(vc, json!(text));
                    store_mut(j, "canon_element_store").insert(ec, el);
                }
            }
            let nc = cid_of_canon_result(&cr)?;
            if nc == cid { return None; }
            store_mut(j, "canon_result_store").insert(nc.clone(), cr);
            set_state_cid(&mut j["trace"][pos], &nc);
            Some(format!("canon at {pos}: {} , cid {cid} -> {nc}", op.name())) }
        Op::CanonInPlace => { if kind != Kind::Canon { return None; }
            let mut cr = store(j, "canon_result_store").get(&cid)?.clone();
            let vals = cr["values"].as_array_mut()?;
            if vals.is_empty() { return None; }
            vals.pop();
            store_mut(j, "canon_result_store").insert(cid.clone(), cr);
            Some(format!("canon aggregate under {cid}: an element removed, cid kept")) }
        Op::CanonElementInPlace => { if kind != Kind::Canon { return None; }
            let el = store(j, "canon_result_store").get(&cid)?.get("values")?.get(0)?.as_str()?.to_string();
            let mut agg = store(j, "canon_element_store").get(&el)?.clone();
            let old = agg.get("value")?.as_str()?.to_string();
            // another value that IS in the value store (e.g. one of the attacker's own results): all references stay valid
            let other = store(j, "value_store").as_object()?.keys().find(|k| **k != old)?.clone();
            agg["value"] = json!(other);
            store_mut(j, "canon_element_store").insert(el.clone(), agg);
            Some(format!("canon element under {el}: value cid {old} -> {other} (a stored value), element cid kept")) }
    }
}

/// all single operations applicable in principle to a state of this kind
pub fn catalog(kind: Kind) -> Vec<Op> {
    let mut v = vec![Op::ValueSwap, Op::TetrapletInPlace, Op::CidReencode, Op::SigSwap, Op::SigDrop, Op::SigReplay, Op::SigOlder, Op::FabricateInSent(0)];
    if matches!(kind, Kind::Scalar | Kind::Stream | Kind::Failed) {
        v.extend([Op::CidRewrite, Op::TetrapletChange(0), Op::TetrapletChange(1), Op::TetrapletChange(2), Op::TetrapletChange(3), Op::TetrapletChange(4), Op::ArgHashChange, Op::AggregateInPlace,
                  Op::SwapWith(0), Op::SwapWith(1), Op::MoveToSent(0), Op::MoveToSent(1), Op::DuplicateInto(0), Op::DuplicateInto(1), Op::KindExecFailed, Op::KindScalarStream, Op::KindToUnused]);
    }
    if kind == Kind::Canon { v.extend([Op::CanonPeerChange, Op::CanonValuesChange, Op::CanonElementRewrite, Op::CanonInPlace, Op::CanonElementInPlace]); }
    v
}

/// the canon executor (the attacker itself) reports a stream element that claims to be a service result of an honest peer:
/// value, tetraplet, a fabricated (never signed, not in the trace) service-result aggregate as provenance; all stores consistent
pub fn forge_own_canon_element(t: &mut TData, pos: usize, honest_peer: &str) -> Option<String> {
    let j = &mut t.j;
    if state_kind(&j["trace"][pos]) != Kind::Canon { return None; }
    let cid = state_cid(&j["trace"][pos])?;
    let mut cr = store(j, "canon_result_store").get(&cid)?.clone();
    let text = "\"forged-by-the-canon-executor\"".to_string();
    let tet = json!({"peer_pk": honest_peer, "service_id": "svc", "function_name": "str_1", "lens": ""});
    let (vc, tc) = (cid_of_raw(&text), cid_of_tetraplet(&tet)?);
    let agg = json!({"value_cid": vc, "argument_hash": cid_of_raw("[]"), "tetraplet_cid": tc});
    let ac = cid_of_service_result(&agg)?;
    let el = json!({"value": vc, "tetraplet": tc, "provenance": {"type": "service_result", "cid": ac}});
    let ec = cid_of_canon_element(&el)?;
    let vals = cr["values"].as_array_mut()?;
    if vals.is_empty() { vals.push(json!(ec)); } else { vals[0] = json!(ec); }
    let nc = cid_of_canon_result(&cr)?;
    store_mut(j, "value_store").insert(vc, json!(text));
    store_mut(j, "tetraplet_store").insert(tc, tet);
    store_mut(j, "service_result_store").insert(ac, agg);
    store_mut(j, "canon_element_store").insert(ec, el);
    store_mut(j, "canon_result_store").insert(nc.clone(), cr);
    set_state_cid(&mut j["trace"][pos], &nc);
    Some(format!("canon at {pos} (executed by the attacker): first element replaced by a fabricated 'service result' of {honest_peer}"))
}

/// elements of every executed canon of the data: (position, canon owner, element tetraplet peer, provenance type, provenance cid)
pub fn canon_elements(j: &Value) -> Vec<(usize, String, String, String, String)> {
    let mut v = vec![];
    for (pos, owner, cid, kind) in attributed(j) {
        if kind != Kind::Canon { continue; }
        let Some(vals) = store(j, "canon_result_store").get(&cid).and_then(|c| c["values"].as_array().cloned()) else { continue };
        for e in vals {
            let Some(el) = e.as_str().and_then(|e| store(j, "canon_element_store").get(e)) else { continue };
            let peer = el["tetraplet"].as_str().and_then(|t| store(j, "tetraplet_store").get(t)).and_then(|t| t["peer_pk"].as_str()).unwrap_or("").to_string();
            v.push((pos, owner.clone(), peer, el["provenance"]["type"].as_str().unwrap_or("").to_string(), el["provenance"]["cid"].as_str().unwrap_or("").to_string()));
        }
    }
    v
}
