//! C15 — equivocation: (a) the real `DataVerifier::merge` vs the Lean `mergeVerifiers` on generated pairs of
//! per-peer CID multisets; (b) full runs: a peer's history is forked into two continuations and both
//! versions are delivered to an observer, the outcome is checked against the property statement.
use crate::facts::*;
use crate::host::*;
use crate::sim::*;
use crate::util::*;
use crate::Ctx;
use air_interpreter_data::verification::DataVerifier;
use air_interpreter_data::InterpreterData;
use air_interpreter_interface::CallResults;
use serde_json::{json, Value};
use std::collections::BTreeMap;

fn mk_data(peers: &[(Peer, Vec<String>, u8)]) -> InterpreterData {
    // trace of executed scalar calls, stores that attribute cid c to its peer
    let mut trace = vec![];
    let mut tets = serde_json::Map::new();
    let mut srs = serde_json::Map::new();
    let mut sigs = serde_json::Map::new();
    for (p, cids, tag) in peers {
        let tcid = format!("tetraplet-of-{}", p.name);
        tets.insert(tcid.clone(), json!({"peer_pk": p.id, "service_id": "s", "function_name": "f", "lens": ""}));
        for c in cids {
            trace.push(json!({"call": {"executed": {"scalar": c}}}));
            srs.insert(c.clone(), json!({"value_cid": "v", "argument_hash": "h", "tetraplet_cid": tcid}));
        }
        let sig = p.kp.sign(&[*tag]).unwrap();
        sigs.insert(p.kp.public().to_string(), serde_json::to_value(&sig).unwrap());
    }
    serde_json::from_value(json!({"trace": trace, "lcid": 0, "cid_info": {"value_store": {}, "tetraplet_store": tets, "canon_element_store": {}, "canon_result_store": {},
        "service_result_store": srs}, "signatures": sigs})).expect("crafted data decodes")
}

fn multiset(v: &[String]) -> BTreeMap<String, usize> { let mut m = BTreeMap::new(); for c in v { *m.entry(c.clone()).or_insert(0) += 1; } m }
fn sub_multiset(a: &[String], b: &[String]) -> bool { let (ma, mb) = (multiset(a), multiset(b)); ma.iter().all(|(k, n)| mb.get(k).cloned().unwrap_or(0) >= *n) }

pub fn run(ctx: &mut Ctx, rep: &mut Report) {
    rep.rule = "case (a) = pair of signature stores with per-peer CID multisets over a small alphabet (nested, equal, incomparable, differing only in multiplicity), 1-3 peers, peers present on one side only; \
        case (b) = forked history of one peer (two continuations answering different subsets of its pending calls) delivered to an observer in both orders; \
        non-trivial = some peer occurs on both sides; distinct by hash of the multisets".into();
    let mut rng = Rng::new(ctx.seed ^ 0xC15);
    let peers = [Peer::new("a"), Peer::new("b"), Peer::new("c")];
    let alphabet = ["X", "Y", "Z", "W"];
    let n = if ctx.thorough { 20000 } else { 1500 };
    for _ in 0..n {
        let k = 1 + rng.below(3);
        let mut prev_spec = vec![]; let mut cur_spec = vec![];
        for p in peers.iter().take(k) {
            // content ids are attributed to a peer through the stores: keep the alphabets of different peers disjoint
            let gen = |rng: &mut Rng| -> Vec<String> { let len = rng.below(4); (0..len).map(|_| format!("{}-{}", p.name, rng.pick(&alphabet))).collect() };
            let a = gen(&mut rng);
            let b = match rng.below(5) { 0 => a.clone(), 1 => { let mut b = a.clone(); b.push(format!("{}-{}", p.name, rng.pick(&alphabet))); b }, 2 => { let mut b = a.clone(); b.pop(); b }, _ => gen(&mut rng) };
            if !rng.chance(1, 6) { prev_spec.push((p.clone(), a, 1u8)); }
            if !rng.chance(1, 6) { cur_spec.push((p.clone(), b, 2u8)); }
        }
        let (dp, dc) = (mk_data(&prev_spec), mk_data(&cur_spec));
        let real = std::panic::catch_unwind(std::panic::AssertUnwindSafe(|| {
            let vp = DataVerifier::new(&dp, "salt").map_err(|e| e.to_string())?;
            let vc = DataVerifier::new(&dc, "salt").map_err(|e| e.to_string())?;
            vp.merge(vc).map_err(|e| e.to_string())
        }));
        let spec_json = |s: &[(Peer, Vec<String>, u8)]| -> Value {
            Value::Object(s.iter().map(|(p, cids, tag)| { let mut c = cids.clone(); c.sort();
                (p.id.clone(), json!({"pk": p.kp.public().to_string(), "sig": serde_json::to_value(&p.kp.sign(&[*tag]).unwrap()).unwrap(), "cids": c})) }).collect())
        };
        let req = json!({"op": "sig_merge", "prev": spec_json(&prev_spec), "cur": spec_json(&cur_spec)});
        let both = prev_spec.iter().any(|(p, _, _)| cur_spec.iter().any(|(q, _, _)| q.id == p.id));
        rep.case(&serde_json::to_string(&req).unwrap(), both, || json!({"prev": prev_spec.iter().map(|(p, c, _)| (p.name.clone(), c.clone())).collect::<Vec<_>>(), "cur": cur_spec.iter().map(|(p, c, _)| (p.name.clone(), c.clone())).collect::<Vec<_>>()}));
        let m = ctx.driver.ask(&req);
        rep.model_compared += 1;
        // implementation answer in the model's terms
        let real_json = match &real {
            Ok(Ok(store)) => { let mut o = serde_json::Map::new();
                for (p, _, _) in prev_spec.iter().chain(cur_spec.iter()) { if let Some(s) = store.get(&p.kp.public()) { o.insert(p.id.clone(), serde_json::to_value(s).unwrap()); } }
                json!({"ok": o}) }
            Ok(Err(e)) => { rep.stat("merge_mismatch"); json!({"mismatch_text": e}) }
            Err(_) => json!({"panic": true}),
        };
        let agree = match (&real_json.get("ok"), m.get("ok")) { (Some(a), Some(b)) => *a == b, (None, None) => m.get("mismatch").is_some() && real_json.get("mismatch_text").is_some(), _ => false };
        if !agree { rep.disagree(json!({"op": "sig_merge", "request": req, "model": m, "implementation": real_json})); }
        // direct oracle: the property statement per peer
        let mut expect_reject = false;
        for (p, a, _) in &prev_spec { if let Some((_, b, _)) = cur_spec.iter().find(|(q, _, _)| q.id == p.id) { if !sub_multiset(a, b) && !sub_multiset(b, a) { expect_reject = true; } } }
        match &real {
            Ok(Ok(store)) => {
                if expect_reject { rep.oracle_fail(json!({"why": "two result sets of one peer where neither contains the other (as multisets) were merged without an error", "input": req})); }
                else { for (p, a, _) in &prev_spec { if let Some((_, b, _)) = cur_spec.iter().find(|(q, _, _)| q.id == p.id) {
                    let want = if b.len() > a.len() { 2u8 } else { 1u8 };
                    let kept = store.get(&p.kp.public()).map(|s| serde_json::to_value(s).unwrap());
                    if kept != Some(serde_json::to_value(&p.kp.sign(&[want]).unwrap()).unwrap()) { rep.oracle_fail(json!({"why": "the merged store does not keep the signature over the larger result set", "input": req, "peer": p.name})); }
                } } }
            }
            Ok(Err(_)) => if !expect_reject { rep.oracle_fail(json!({"why": "nested (or equal) result sets of a peer were rejected", "input": req})); },
            Err(_) => rep.oracle_fail(json!({"why": "DataVerifier panicked", "input": req})),
        }
    }

    // (b) forked histories through execute_air
    let a = Peer::new("a"); let b = Peer::new("b");
    let n_forks = if ctx.thorough { 400 } else { 40 };
    for _ in 0..n_forks {
        let k = 2 + rng.below(3);
        let mut air = format!(r#"(call "{}" ("svc" "str_0") [] r0)"#, a.id);
        for i in 1..k { air = format!(r#"(par {} (call "{}" ("svc" "{}") [] r{}))"#, air, a.id, if rng.chance(1, 2) { "str_0".to_string() } else { format!("str_{i}") }, i); }
        air = format!(r#"(par {} (call "{}" ("svc" "num_9") [] z))"#, air, b.id);
        let run1 = |peer: &Peer, prev: &[u8], cur: &[u8], res: &CallResults| crate::host::run(&RunArgs { air: &air, prev, cur, init_peer_id: &a.id, peer, particle_id: "fork", timestamp: 1, ttl: 1, results: res, limits: Limits::unlimited() });
        let start = run1(&a, &[], &[], &CallResults::new());
        let reqs = decode_requests(&start.call_requests).unwrap_or_default();
        let ids: Vec<u32> = { let mut v: Vec<u32> = reqs.keys().cloned().collect(); v.sort(); v };
        let mut versions = vec![];
        for _ in 0..2 {
            let mut res = CallResults::new();
            for id in &ids { if rng.chance(1, 2) { let r = &reqs[id]; res.insert(id.to_string(), service(&[a.id.clone(), b.id.clone()], &a.id, &r.service_id, &r.function_name, &decode_args(r))); } }
            versions.push(run1(&a, &start.data, &[], &res).data);
        }
        let cids_of = |d: &[u8]| -> Vec<String> { facts(d).map(|f| f.trace.iter().filter_map(|s| match s { St::Scalar(c) | St::Stream(c, _) | St::Failed(c) => f.service_result(c).filter(|(_, _, t)| t.0 == a.id).map(|_| c.clone()), _ => None }).collect()).unwrap_or_default() };
        for (first, second) in [(0, 1), (1, 0)] {
            let o1 = run1(&b, &[], &versions[first], &CallResults::new());
            let o2 = run1(&b, &o1.data, &versions[second], &CallResults::new());
            let (c1, c2) = (cids_of(&versions[first]), cids_of(&versions[second]));
            let nested = sub_multiset(&c1, &c2) || sub_multiset(&c2, &c1);
            rep.case(&format!("fork|{air}|{c1:?}|{c2:?}"), true, || json!({"air": air, "first": c1, "second": c2, "code": o2.ret_code}));
            rep.stat(if nested { "fork_nested" } else { "fork_equivocation" });
            if !nested {
                let prev_shape = o2.data == o1.data && o2.next_peer_pks.is_empty();
                if !((1..=9999).contains(&o2.ret_code) && prev_shape) {
                    rep.oracle_fail(json!({"why": format!("equivocation (result sets {c1:?} and {c2:?} of one peer, neither contains the other) was not rejected during preparation with the previous data returned: code {}", o2.ret_code),
                        "air": air, "first_hex": hex(&versions[first]), "second_hex": hex(&versions[second])}));
                }
            } else if (1..=9999).contains(&o2.ret_code) {
                rep.oracle_fail(json!({"why": format!("nested result sets {c1:?} / {c2:?} rejected with code {}: {}", o2.ret_code, o2.error_message), "air": air}));
            }
        }
    }
}
