//! C12 — a peer never reorders the stream values it has already seen. Direct oracle on consecutive data (prev -> out) of one peer
//! in simulated histories of stream templates (several writers, recursive / nested folds, new-scoped streams) and generated scripts;
//! lock-step correspondence with the Lean executor model on the projection (code, trace).
use crate::facts::*;
use crate::props::strm::*;
use crate::util::*;
use crate::Ctx;
use std::collections::BTreeMap;

/// the C12 statement on one run of one peer
pub fn check_step(hc: &HistCtx, v: &StepView, rep: &mut Report) -> Vec<Fail> {
    let mut fails = vec![];
    let t = &v.out.f.trace;
    let known = |v: &StepView| if hc.recursive && v.tainted { Some(KEY_RECURSIVE_FOLD.to_string()) } else { None };
    // no placeholder generation anywhere
    for (j, s) in t.iter().enumerate() { if gen_of(s) == Some(GENERATION_STUB) || matches!(s, St::Ap(g) if g.contains(&GENERATION_STUB)) { fails.push(Fail { why: format!("state {j} of the produced data carries the placeholder generation 0xCAFEBABE"), step: Some(v.k), finding_key: None }); return fails; } }
    // every state of the previous data is still there (same kind of entry, same content id)
    if let (Some(p), Some(al)) = (&v.prev, &v.al_prev) {
        if let Some(pr) = al.problems.first() {
            // C12 speaks about stream values: a mismatch counts here only if a stream value of the previous data could not be matched
            let lost: Vec<usize> = (0..p.f.trace.len()).filter(|i| gen_of(&p.f.trace[*i]).is_some() && al.map[*i].is_none()).collect();
            if lost.is_empty() { rep.stat("runs_with_unmatched_non_stream_states(not a C12 matter)"); }
            // a dropped fold iteration in the input class of the recorded recursive-fold defect is reported under C13 (state loss, not reordering): the
            // order checks below still run on everything that could be matched
            else if known(v).is_some() { rep.stat("runs_with_dropped_fold_iteration(known defect, reported under C13)"); }
            else { fails.push(Fail { why: format!("{} stream value(s) of the previous data (first: state {}, {}) cannot be found in the produced data: {pr}", lost.len(), lost[0], short(&p.f.trace[lost[0]])), step: Some(v.k), finding_key: None }); }
        }
        for (i, j) in al.map.iter().enumerate() {
            if let Some(j) = j { match (&p.f.trace[i], &t[*j]) {
                (St::Stream(c, _), St::Stream(c2, _)) if c != c2 => fails.push(Fail { why: format!("stream value {i} of the previous data (content {c}) is matched by position with a different value ({c2}) at {j}"), step: Some(v.k), finding_key: known(v) }),
                (St::Stream(..), St::Stream(..)) | (St::Ap(_), St::Ap(_)) => {}
                (a, b) if gen_of(a).is_some() => fails.push(Fail { why: format!("stream value {i} of the previous data ({}) became {} in the produced data", short(a), short(b)), step: Some(v.k), finding_key: known(v) }),
                _ => {} } }
        }
        // cross-check of the positional matching against content ids that occur once
        let mut cnt: BTreeMap<&String, usize> = BTreeMap::new();
        for s in t { if let St::Stream(c, _) = s { *cnt.entry(c).or_insert(0) += 1; } }
        for (i, s) in p.f.trace.iter().enumerate() { if let St::Stream(c, _) = s { if cnt.get(c) == Some(&1) { let jc = t.iter().position(|x| matches!(x, St::Stream(c2, _) if c2 == c)); if al.map[i].is_some() && al.map[i] != jc { fails.push(Fail { why: format!("positional matching and content id disagree for the value {c} of the previous data"), step: Some(v.k), finding_key: known(v) }); } } } }
    }
    if !fails.is_empty() { return fails; }
    // per stream instance
    let mut groups: BTreeMap<(String, String), Vec<usize>> = BTreeMap::new();
    for (j, s) in v.src.iter().enumerate() { if *s != Src::NotStream { groups.entry(inst_of(&v.out, j)).or_default().push(j); } }
    let per_stream = hc.located || single_stream(hc.script);
    for (inst, js) in &groups {
        let g = |j: usize| gen_of(&t[j]).unwrap();
        if per_stream {
            // dense numbering 0..n-1
            let mut gens: Vec<u64> = js.iter().map(|j| g(*j)).collect(); gens.sort(); gens.dedup();
            if gens.iter().enumerate().any(|(k, x)| *x != k as u64) { fails.push(Fail { why: format!("the generations of stream {} (scope {:?}) in the produced data are not numbered densely from 0: {:?}", inst.0, inst.1, gens), step: Some(v.k), finding_key: known(v) }); continue; }
        }
        if !per_stream { continue; }
        for (x, a) in js.iter().enumerate() { for b in &js[x + 1..] {
            let (a, b) = (*a, *b);
            match (v.src[a], v.src[b]) {
                (Src::Prev(ga), Src::Prev(gb)) => {
                    if (ga < gb && !(g(a) < g(b))) || (ga > gb && !(g(a) > g(b))) { fails.push(Fail { why: format!("stream {}: two values the peer had seen (generations {ga} and {gb} in its previous data) were reordered: generations {} and {} in the produced data (states {a}, {b})", inst.0, g(a), g(b)), step: Some(v.k), finding_key: known(v) }); }
                    if ga == gb && g(a) != g(b) { fails.push(Fail { why: format!("stream {}: two values of one generation ({ga}) of the previous data were split into generations {} and {} (states {a}, {b})", inst.0, g(a), g(b)), step: Some(v.k), finding_key: known(v) }); }
                }
                (Src::Cur(ga), Src::Cur(gb)) => { if (ga < gb && !(g(a) < g(b))) || (ga > gb && !(g(a) > g(b))) || (ga == gb && g(a) != g(b)) { fails.push(Fail { why: format!("stream {}: two values taken from the current data (generations {ga}, {gb} there) changed their relative order: generations {} and {} in the produced data (states {a}, {b})", inst.0, g(a), g(b)), step: Some(v.k), finding_key: known(v) }); } }
                (sa, sb) => {
                    let rank = |s: Src| match s { Src::Prev(_) => 0, Src::Cur(_) => 1, _ => 2 };
                    let (lo, hi) = if rank(sa) < rank(sb) { (a, b) } else { (b, a) };
                    if rank(sa) != rank(sb) && !(g(lo) < g(hi)) { fails.push(Fail { why: format!("stream {}: a value from {:?} has generation {} and a value from {:?} has generation {} in the produced data: previous-data values must come before current-data values, which come before values produced in the run", inst.0, v.src[lo], g(lo), v.src[hi], g(hi)), step: Some(v.k), finding_key: known(v) }); }
                }
            }
            if fails.len() > 3 { return fails; }
        } }
    }
    fails
}

fn single_stream(script: &crate::script::Instr) -> bool {
    use crate::script::*;
    let mut names: Vec<String> = vec![]; let mut scoped = false;
    script.visit(&mut |i| match i { Instr::Call { out: Out::Stream(s), .. } | Instr::Ap { out: Out::Stream(s), .. } => if !names.contains(s) { names.push(s.clone()) }, Instr::ApMap { .. } | Instr::New(NewVar::Stream(_), _) | Instr::New(NewVar::StreamMap(_), _) => scoped = true, _ => {} });
    names.len() == 1 && !scoped
}

pub fn run(ctx: &mut Ctx, rep: &mut Report) {
    rep.rule = "case = one run of one peer (previous data -> produced data) in a simulated honest history: stream templates (2-4 writers via call/ap in seq/par positions on 3-5 peers, \
        stream folds with next in seq/par position and last instruction, guarded recursive appends, nested folds, new-scoped streams, canons) under random schedules with duplicated deliveries \
        and late/batched results, every 3rd small template under all delivery orders; plus scripts of the general generator (stub-generation and matching checks only unless single-stream); \
        stream states matched by trace alignment, cross-checked by content id; non-trivial = history with at least 2 runs and a stream value; distinct by hash of (script, schedule)".into();
    let setup = Setup { prop: "C12", fields: &["code", "trace"], families: vec![Family::FoldVisit, Family::RecursiveFold, Family::NewScopes, Family::NestedFolds, Family::WritersCanon, Family::RecursiveFold, Family::ParCanons],
        histories: (160, 3000), generated: (60, 2000), seed_salt: 0xC12, time_guard: (45, 700) };
    let (mut pairs, mut prev_vals, mut cur_vals, mut new_vals) = (0u64, 0u64, 0u64, 0u64);
    drive(ctx, rep, &setup, &mut |hc, rep| {
        let mut fails = vec![];
        for v in hc.views.iter().flatten() {
            if v.prev.is_some() { pairs += 1; }
            for s in &v.src { match s { Src::Prev(_) => prev_vals += 1, Src::Cur(_) => cur_vals += 1, Src::New => new_vals += 1, _ => {} } }
            let f = check_step(hc, v, rep);
            if !f.is_empty() { fails.extend(f); break; }
        }
        fails
    });
    rep.stat_n("consecutive_data_pairs", pairs); rep.stat_n("stream_values_from_previous", prev_vals); rep.stat_n("stream_values_from_current_only", cur_vals); rep.stat_n("stream_values_new", new_vals);
}
