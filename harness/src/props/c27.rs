//! C27 — data and call encodings round-trip.
//!  (i)   direct oracle on the real code: `InterpreterData` (rkyv), `InterpreterDataEnvelope` (msgpack),
//!        `try_get_versions` on envelopes with unreadable inner data, call-request / call-result maps, call arguments,
//!        tetraplets: decode(encode(x)) == x; a payload re-tagged with another codec must not decode;
//!  (ii)  correspondence: the Lean model's encoders are byte-exact with the real ones, the model's decoders agree with
//!        the real ones (accept/reject, error class, decoded value) on real and on mutated bytes;
//!  (iii) the same on everything produced in simulated multi-peer histories.
use crate::host::*;
use crate::props::hist::gen_history;
use crate::util::*;
use crate::Ctx;
use air_interpreter_data::{ExecutionTrace, InterpreterData, InterpreterDataEnvelope, Versions};
use air_interpreter_interface::{CallArgumentsRepr, CallRequestParams, CallRequests, CallRequestsRepr, CallResults, CallResultsRepr,
                                CallServiceResult, InterpreterOutcome, TetrapletsRepr};
use air_interpreter_sede::multiformat::DecodeError;
use air_interpreter_sede::{FromSerialized, ToSerialized};
use air_interpreter_value::JValue;
use polyplets::SecurityTetraplet;
use serde_json::{json, Value};
use std::borrow::Cow;
use std::collections::HashMap;
use std::rc::Rc;

const MSGPACK: u64 = 0x0201;
/// other multicodec numbers (table.csv): json, cbor, raw, dag-pb, dag-cbor, dag-json, identity, ...
const OTHER_CODECS: &[u64] = &[0x0200, 0x51, 0x55, 0x70, 0x71, 0x0129, 0x00, 0x01, 0x0202, 0x63, 0x0114, 0x300000];

fn catch<T>(f: impl FnOnce() -> T) -> Result<T, String> {
    std::panic::catch_unwind(std::panic::AssertUnwindSafe(f)).map_err(|e| {
        if let Some(s) = e.downcast_ref::<String>() { s.clone() } else if let Some(s) = e.downcast_ref::<&str>() { s.to_string() } else { "panic".into() }
    })
}

// ------------------------------------------------------------------ tiny msgpack writer (local: any shape, any marker)
fn w_uint(o: &mut Vec<u8>, n: u64) { crate::mp::uint(o, n) }
fn w_sint(o: &mut Vec<u8>, v: i64) {
    if v >= 0 { w_uint(o, v as u64) } else if v >= -32 { o.push(v as u8) } else if v >= -128 { o.push(0xd0); o.push(v as u8) }
    else if v >= -32768 { o.push(0xd1); o.extend_from_slice(&(v as i16).to_be_bytes()) }
    else if v >= -2147483648 { o.push(0xd2); o.extend_from_slice(&(v as i32).to_be_bytes()) }
    else { o.push(0xd3); o.extend_from_slice(&v.to_be_bytes()) }
}
fn w_str(o: &mut Vec<u8>, s: &[u8]) { crate::mp::str_(o, s) }
fn w_bin(o: &mut Vec<u8>, s: &[u8]) { crate::mp::bin(o, s) }
fn w_map(o: &mut Vec<u8>, n: usize) { crate::mp::map_header(o, n) }
fn w_arr(o: &mut Vec<u8>, n: usize) { crate::mp::arr_header(o, n) }

fn varint(mut n: u64) -> Vec<u8> {
    let mut o = vec![];
    loop { let b = (n & 0x7f) as u8; n >>= 7; if n == 0 { o.push(b); break } else { o.push(b | 0x80) } }
    o
}

// ------------------------------------------------------------------ generators
/// strings of 64 KiB and more are generated only while this is set (one map in twelve): the list-based model needs ~1 s per MB
static BIG: std::sync::atomic::AtomicBool = std::sync::atomic::AtomicBool::new(false);
fn big() -> bool { BIG.load(std::sync::atomic::Ordering::Relaxed) }
fn set_big(b: bool) { BIG.store(b, std::sync::atomic::Ordering::Relaxed) }
fn gen_string(rng: &mut Rng) -> String {
    let pool = ["", "a", "svc", "f", "héllo", "日本語", "🦀 crab", "\u{0}nul", "quote\"back\\slash", "line\nbreak\ttab", "\u{7f}\u{80}\u{7ff}\u{800}\u{ffff}\u{10000}\u{10ffff}",
                "service_id", "arguments", "0", "1", "4294967295", "$serde_json::private::RawValue", "ключ", " "];
    match rng.below(12) {
        0 => "x".repeat(31), 1 => "y".repeat(32), 2 => "z".repeat(255), 3 => "w".repeat(256),
        4 => if !big() { "t".repeat(257 + rng.below(100)) } else if rng.chance(1, 2) { "v".repeat(65536) } else { "u".repeat(65535 - rng.below(3)) },
        5 => { let n = rng.below(40); (0..n).map(|_| char::from_u32([0x41, 0xe9, 0x4e16, 0x1f600, 0x20][rng.below(5)] + rng.below(20) as u32).unwrap_or('?')).collect() }
        _ => pool[rng.below(pool.len())].to_string(),
    }
}
fn gen_small_string(rng: &mut Rng) -> String {
    let pool = ["", "a", "svc", "f", "héllo", "日本語", "🦀", "k\"ey", "service_id", "0", "é", "ключ", "$serde_json::private::Number", "$serde_json::private::RawValue"];
    pool[rng.below(pool.len())].to_string()
}
fn gen_int(rng: &mut Rng) -> Value {
    let u: &[u64] = &[0, 1, 127, 128, 255, 256, 65535, 65536, 4294967295, 4294967296, i64::MAX as u64, i64::MAX as u64 + 1, u64::MAX];
    let i: &[i64] = &[-1, -32, -33, -128, -129, -32768, -32769, -2147483648, -2147483649, i64::MIN];
    match rng.below(4) { 0 => json!(u[rng.below(u.len())]), 1 => json!(i[rng.below(i.len())]), 2 => json!(rng.next() >> rng.below(64)), _ => json!(-((rng.next() >> (1 + rng.below(63))) as i64)) }
}
fn gen_float(rng: &mut Rng) -> Value {
    let f: &[f64] = &[0.5, -0.0, 1.0, 3.141592653589793, 1e300, -1e-300, f64::MIN_POSITIVE, 5e-324, f64::MAX, 2.5e10, 0.1];
    let x = if rng.chance(1, 3) { f64::from_bits(rng.next()) } else { f[rng.below(f.len())] };
    if x.is_finite() { json!(x) } else { json!(0.25) }
}
fn gen_json(rng: &mut Rng, depth: usize) -> Value {
    let k = if depth == 0 { rng.below(6) } else { rng.below(9) };
    match k {
        0 => Value::Null, 1 => json!(rng.chance(1, 2)), 2 => gen_int(rng), 3 => gen_float(rng), 4 | 5 => json!(gen_string(rng)),
        6 | 7 => { let n = [0, 1, 2, 3, 15, 16, 17][rng.below(7)]; let n = if depth < 2 { n.min(3) } else { n }; Value::Array((0..n).map(|_| gen_json(rng, depth - 1)).collect()) }
        _ => { let n = [0, 1, 2, 3, 16][rng.below(5)]; let n = if depth < 2 { n.min(3) } else { n };
               let mut m = serde_json::Map::new();
               for i in 0..n { let k = if n > 4 { format!("k{i}") } else { gen_small_string(rng) }; m.insert(k, gen_json(rng, depth - 1)); }
               Value::Object(m) }
    }
}
fn gen_args(rng: &mut Rng) -> Vec<Value> { let n = [0, 0, 1, 2, 3, 5][rng.below(6)]; (0..n).map(|_| gen_json(rng, 3)).collect() }
fn gen_tetraplets(rng: &mut Rng) -> Vec<Vec<SecurityTetraplet>> {
    let n = [0, 1, 2, 3, 16][rng.below(5)];
    (0..n).map(|_| { let m = [0, 1, 1, 2, 17][rng.below(5)];
        (0..m).map(|_| SecurityTetraplet::new(gen_small_string(rng), gen_small_string(rng), if n * m <= 4 { gen_string(rng) } else { gen_small_string(rng) }, [".$.a.[0]", "", ".$.é", ".length"][rng.below(4)])).collect() }).collect()
}
fn gen_id(rng: &mut Rng) -> u32 { match rng.below(6) { 0 => 0, 1 => 1, 2 => u32::MAX, 3 => [127u32, 128, 255, 256, 65535, 65536][rng.below(6)], _ => (rng.next() >> (32 + rng.below(32))) as u32 } }

#[derive(Clone)]
struct Req { id: u32, service_id: String, function_name: String, args: Vec<Value>, tets: Vec<Vec<SecurityTetraplet>> }
fn gen_request_map(rng: &mut Rng) -> Vec<Req> {
    let n = rng.below(9);
    let mut out: Vec<Req> = vec![];
    for _ in 0..n {
        let id = gen_id(rng);
        if out.iter().any(|r| r.id == id) { continue; }
        out.push(Req { id, service_id: gen_string(rng), function_name: gen_small_string(rng), args: gen_args(rng), tets: gen_tetraplets(rng) });
    }
    out
}
fn gen_result_map(rng: &mut Rng) -> Vec<(String, CallServiceResult)> {
    let n = rng.below(9);
    let mut out: Vec<(String, CallServiceResult)> = vec![];
    for _ in 0..n {
        let key = match rng.below(5) { 0 => "0".to_string(), 1 => "1".into(), 2 => u32::MAX.to_string(), 3 => gen_small_string(rng), _ => gen_id(rng).to_string() };
        if out.iter().any(|(k, _)| *k == key) { continue; }
        let ret_code = match rng.below(6) { 0 => 0, 1 => i32::MIN, 2 => i32::MAX, 3 => -1, 4 => [127, 128, -32, -33, 65536, -32769][rng.below(6)], _ => rng.next() as i32 };
        let result = match rng.below(6) { 0 => String::new(), 1 => "not json {".into(), 2 => gen_json(rng, 3).to_string(), 3 => "r".repeat(if big() { 70000 } else { 300 }), 4 => gen_string(rng), _ => "\"ok\"".into() };
        out.push((key, CallServiceResult { ret_code, result }));
    }
    out
}

// ------------------------------------------------------------------ real encoders (typed) and JSON views
fn ser_args(args: &[Value]) -> Vec<u8> { let v: Vec<JValue> = args.iter().map(JValue::from).collect(); CallArgumentsRepr.serialize(&v).expect("args serialize").to_vec() }
fn ser_tets(t: &[Vec<SecurityTetraplet>]) -> Vec<u8> {
    let v: Vec<Vec<Rc<SecurityTetraplet>>> = t.iter().map(|r| r.iter().cloned().map(Rc::new).collect()).collect();
    TetrapletsRepr.serialize(&v).expect("tetraplets serialize").to_vec()
}
fn real_request_map(reqs: &[Req]) -> CallRequests {
    reqs.iter().map(|r| (r.id, CallRequestParams::new(r.service_id.clone(), r.function_name.clone(), ser_args(&r.args).into(), ser_tets(&r.tets).into()))).collect()
}
fn req_json(id: u32, p: &CallRequestParams) -> Value {
    json!({"id": id, "service_id": hex(p.service_id.as_bytes()), "function_name": hex(p.function_name.as_bytes()), "arguments": hex(&p.arguments), "tetraplets": hex(&p.tetraplets)})
}
fn reqs_json_sorted(m: &CallRequests) -> Value { let mut ids: Vec<&u32> = m.keys().collect(); ids.sort(); Value::Array(ids.into_iter().map(|i| req_json(*i, &m[i])).collect()) }
fn res_json(k: &str, r: &CallServiceResult) -> Value { json!({"key": hex(k.as_bytes()), "ret_code": r.ret_code, "result": hex(r.result.as_bytes())}) }
fn results_json_sorted(m: &CallResults) -> Value { let mut ks: Vec<&String> = m.keys().collect(); ks.sort(); Value::Array(ks.into_iter().map(|k| res_json(k, &m[k])).collect()) }
fn tets_json(t: &[Vec<SecurityTetraplet>]) -> Value {
    Value::Array(t.iter().map(|r| Value::Array(r.iter().map(|t| json!([hex(t.peer_pk.as_bytes()), hex(t.service_id.as_bytes()), hex(t.function_name.as_bytes()), hex(t.lens.as_bytes())])).collect())).collect())
}
/// JSON value in the tagged form the model driver reads (floats by bit pattern, strings as hex, objects in key order)
fn tag(v: &Value) -> Value {
    match v {
        Value::Null => Value::Null, Value::Bool(b) => json!(b),
        Value::Number(n) => if let Some(u) = n.as_u64() { json!(u) } else if let Some(i) = n.as_i64() { json!(i) } else { json!(["f", n.as_f64().unwrap().to_bits().to_string()]) },
        Value::String(s) => json!(["s", hex(s.as_bytes())]),
        Value::Array(a) => json!(["a", a.iter().map(tag).collect::<Vec<_>>()]),
        Value::Object(o) => { let mut ks: Vec<&String> = o.keys().collect(); ks.sort(); json!(["o", ks.into_iter().map(|k| json!([hex(k.as_bytes()), tag(&o[k])])).collect::<Vec<_>>()]) }
    }
}

/// some object (at any depth) whose first key in map order is serde_json's private RawValue token: the one shape the
/// host's `serde_json::Value` reader is known to misread (known finding)
fn has_rawvalue_first_key(v: &Value) -> bool {
    match v {
        Value::Array(a) => a.iter().any(has_rawvalue_first_key),
        Value::Object(o) => o.keys().min().map(|k| k == "$serde_json::private::RawValue").unwrap_or(false) || o.values().any(has_rawvalue_first_key),
        _ => false,
    }
}
fn args_have_rawvalue(args: &[Value]) -> bool { args.iter().any(has_rawvalue_first_key) }

fn de_err_json<E>(e: &DecodeError<E>) -> Value {
    match e {
        DecodeError::Format(_) => json!({"err": "format"}),
        DecodeError::Codec(c) => json!({"err": "codec", "codec": c}),
        DecodeError::VarInt(v) => json!({"err": "varint", "varint": format!("{v:?}")}),
    }
}
fn strip_um(m: &Value) -> Value { let mut m = m.clone(); if let Some(o) = m.as_object_mut() { o.remove("unmodelled"); } m }

/// report a failure of the real code; failures carrying the key of a known finding are listed at most twice per key (the
/// report keeps 20 failures: known ones must not crowd out new ones), further ones are only counted
fn ofail(rep: &mut Report, v: Value) {
    static SEEN: std::sync::Mutex<Vec<(String, u32)>> = std::sync::Mutex::new(Vec::new());
    if let Some(k) = v.get("finding_key").and_then(|k| k.as_str()) {
        let mut seen = SEEN.lock().unwrap();
        let n = match seen.iter_mut().find(|(key, _)| key == k) { Some(e) => { e.1 += 1; e.1 } None => { seen.push((k.to_string(), 1)); 1 } };
        rep.stat(&format!("known_finding:{k}"));
        if n > 2 { return; }
    }
    rep.oracle_fail(v);
}

struct Cx<'a> { ctx: &'a mut Ctx, rep: &'a mut Report }

impl<'a> Cx<'a> {
    fn ask(&mut self, what: &str, mut req: Value) -> Value {
        req["op"] = json!("c27"); req["what"] = json!(what);
        self.rep.model_compared += 1;
        let t = std::time::Instant::now();
        let r = self.ctx.driver.ask(&req);
        let dt = t.elapsed().as_secs_f64();
        if dt > 0.5 && std::env::var("C27_SLOW").is_ok() { let q = serde_json::to_string(&req).unwrap(); eprintln!("[c27] slow model request {what}: {dt:.2}s, request bytes {}, head {}", q.len(), &q[..q.len().min(160)]); }
        r
    }
    fn differ(&mut self, op: &str, origin: &str, input_hex: String, model: Value, real: Value) {
        self.rep.disagree(json!({"op": op, "origin": origin, "request": {"op": "c27", "what": op, "hex": input_hex}, "model": model, "implementation": real}));
    }

    // ---------------- decoders: model vs implementation on arbitrary bytes
    fn cmp_dec_requests(&mut self, bytes: &[u8], origin: &str) -> Option<CallRequests> {
        let real = catch(|| CallRequestsRepr.deserialize(bytes));
        let m = self.ask("dec_requests", json!({"hex": hex(bytes)}));
        self.rep.stat(&format!("dec_requests:{}", match &real { Ok(Ok(_)) => "ok".to_string(), Ok(Err(e)) => de_err_json(e)["err"].as_str().unwrap().to_string(), Err(_) => "panic".into() }));
        let real_j = match &real { Ok(Ok(mm)) => json!({"ok": reqs_json_sorted(mm)}), Ok(Err(e)) => de_err_json(e), Err(p) => json!({"panic": p}) };
        if let Err(p) = &real { ofail(self.rep, json!({"why": "CallRequestsRepr.deserialize panicked", "input": {"hex": hex(bytes)}, "panic": p})); }
        if m["unmodelled"].as_bool() == Some(true) { self.rep.unmodelled += 1; self.rep.stat("unmodelled:signed-marker-field-index"); }
        else if strip_um(&m) != real_j { self.differ("dec_requests", origin, hex(bytes), m, real_j); }
        real.ok().and_then(|r| r.ok())
    }
    fn cmp_dec_results(&mut self, bytes: &[u8], origin: &str) -> Option<CallResults> {
        let real = catch(|| CallResultsRepr.deserialize(bytes));
        let m = self.ask("dec_results", json!({"hex": hex(bytes)}));
        self.rep.stat(&format!("dec_results:{}", match &real { Ok(Ok(_)) => "ok".to_string(), Ok(Err(e)) => de_err_json(e)["err"].as_str().unwrap().to_string(), Err(_) => "panic".into() }));
        let real_j = match &real { Ok(Ok(mm)) => json!({"ok": results_json_sorted(mm)}), Ok(Err(e)) => de_err_json(e), Err(p) => json!({"panic": p}) };
        if let Err(p) = &real { ofail(self.rep, json!({"why": "CallResultsRepr.deserialize panicked", "input": {"hex": hex(bytes)}, "panic": p})); }
        if m["unmodelled"].as_bool() == Some(true) { self.rep.unmodelled += 1; self.rep.stat("unmodelled:signed-marker-field-index"); }
        else if strip_um(&m) != real_j { self.differ("dec_results", origin, hex(bytes), m, real_j); }
        real.ok().and_then(|r| r.ok())
    }
    /// arguments: both real readers (`Vec<serde_json::Value>` of the host, `Vec<JValue>` of the interpreter crates) and the model
    fn cmp_dec_args(&mut self, bytes: &[u8], origin: &str) -> Option<Vec<Value>> {
        let host: Result<Result<Vec<Value>, _>, String> = catch(|| CallArgumentsRepr.deserialize(bytes));
        let own: Result<Result<Vec<JValue>, _>, String> = catch(|| CallArgumentsRepr.deserialize(bytes));
        let m = self.ask("dec_args", json!({"hex": hex(bytes)}));
        let canon = |v: &Vec<Value>| hex(&rmp_serde::to_vec_named(v).unwrap());
        let host_j = match &host { Ok(Ok(v)) => json!({"ok": canon(v)}), Ok(Err(_)) => json!({"err": "args"}), Err(p) => json!({"panic": p}) };
        let own_j = match &own { Ok(Ok(v)) => json!({"ok": hex(&CallArgumentsRepr.serialize(v).map(|s| s.to_vec()).unwrap_or_default())}), Ok(Err(_)) => json!({"err": "args"}), Err(p) => json!({"panic": p}) };
        self.rep.stat(&format!("dec_args:{}", if host_j.get("ok").is_some() { "ok" } else { "err" }));
        if host_j != own_j {
            // the two real readers of the same bytes disagree (serde_json::Value vs air JValue)
            self.rep.stat("dec_args:host-and-jvalue-readers-differ");
            let magic = match &own { Ok(Ok(v)) => v.iter().any(|x| serde_json::to_value(x).map(|j| has_rawvalue_first_key(&j)).unwrap_or(false)), _ => false };
            if origin.starts_with("real") || !magic {
                let mut f = json!({"why": "call arguments are read differently by the host's reader (Vec<serde_json::Value>) and by the JValue reader", "input": {"hex": hex(bytes), "origin": origin}, "host": host_j, "jvalue": own_j});
                if magic { f["finding_key"] = json!("call-arguments-rawvalue-token-misread-by-host"); }
                ofail(self.rep, f);
            }
        }
        if m != own_j { self.differ("dec_args", origin, hex(bytes), m, own_j); }
        host.ok().and_then(|r| r.ok())
    }
    fn cmp_dec_tets(&mut self, bytes: &[u8], origin: &str) -> Option<Vec<Vec<SecurityTetraplet>>> {
        let real: Result<Result<Vec<Vec<SecurityTetraplet>>, _>, String> = catch(|| TetrapletsRepr.deserialize(bytes));
        let m = self.ask("dec_tets", json!({"hex": hex(bytes)}));
        let real_j = match &real { Ok(Ok(v)) => json!({"ok": tets_json(v)}), Ok(Err(_)) => json!({"err": "tetraplets"}), Err(p) => json!({"panic": p}) };
        self.rep.stat(&format!("dec_tets:{}", if real_j.get("ok").is_some() { "ok" } else { "err" }));
        if m["unmodelled"].as_bool() == Some(true) { self.rep.unmodelled += 1; self.rep.stat("unmodelled:signed-marker-field-index"); }
        else if strip_um(&m) != real_j { self.differ("dec_tets", origin, hex(bytes), m, real_j); }
        real.ok().and_then(|r| r.ok())
    }
    fn cmp_dec_envelope(&mut self, bytes: &[u8], origin: &str) {
        let real = catch(|| InterpreterDataEnvelope::try_from_slice(bytes).map(|e| (e.versions.data_version.to_string(), e.versions.interpreter_version.to_string(), e.inner_data.to_vec())));
        let m = self.ask("dec_envelope", json!({"hex": hex(bytes)}));
        let real_j = match &real { Ok(Ok((d, i, inner))) => json!({"ok": {"version": d, "interpreter_version": i}, "inner": hex(inner)}), Ok(Err(_)) => json!({"err": "envelope"}), Err(p) => json!({"panic": p}) };
        self.rep.stat(&format!("dec_envelope:{}", if real_j.get("ok").is_some() { "ok" } else { "err" }));
        if m != real_j { self.differ("dec_envelope", origin, hex(bytes), m, real_j); }
        let realv = catch(|| InterpreterDataEnvelope::try_get_versions(bytes).map(|v| (v.data_version.to_string(), v.interpreter_version.to_string())));
        let mv = self.ask("dec_versions", json!({"hex": hex(bytes)}));
        let realv_j = match &realv { Ok(Ok((d, i))) => json!({"ok": {"version": d, "interpreter_version": i}}), Ok(Err(_)) => json!({"err": "versions"}), Err(p) => json!({"panic": p}) };
        self.rep.stat(&format!("dec_versions:{}", if realv_j.get("ok").is_some() { "ok" } else { "err" }));
        if mv["unmodelled"].as_bool() == Some(true) { self.rep.unmodelled += 1; self.rep.stat("unmodelled:signed-marker-field-index"); }
        else if strip_um(&mv) != realv_j { self.differ("dec_versions", origin, hex(bytes), mv, realv_j); }
    }
    fn cmp_mp_accepts(&mut self, bytes: &[u8], origin: &str) {
        let real = catch(|| rmp_serde::from_slice::<serde::de::IgnoredAny>(bytes).is_ok());
        let m = self.ask("mp_accepts", json!({"hex": hex(bytes)}));
        let real_j = match &real { Ok(b) => json!({"ok": b}), Err(p) => json!({"panic": p}) };
        self.rep.stat(&format!("mp_accepts:{}", real_j["ok"]));
        if m != real_j { self.differ("mp_accepts", origin, hex(bytes), m, real_j); }
    }
}

fn mutate_bytes(rng: &mut Rng, b: &[u8]) -> Vec<u8> {
    let mut d = b.to_vec();
    match rng.below(6) {
        0 => { if !d.is_empty() { let n = rng.below(d.len()); d.truncate(n); } }
        1 => { d.extend_from_slice(&[0xc0, 0x01, 0xff][..1 + rng.below(3)]); }
        2 => { if !d.is_empty() { let i = rng.below(d.len().min(48)); d[i] ^= 1 << rng.below(8); } }
        3 => { if !d.is_empty() { let i = rng.below(d.len().min(48)); d[i] = [0xc0, 0xc1, 0xc2, 0xc4, 0x90, 0x80, 0xa0, 0xd0, 0xcc, 0xca, 0xcb, 0xd4, 0xc7, 0xff, 0x00][rng.below(15)]; } }
        4 => { if !d.is_empty() { let i = rng.below(d.len()); d[i] = rng.next() as u8; } }
        _ => { if d.len() > 2 { let i = rng.below(d.len() - 1); d.remove(i); } }
    }
    d
}

// ------------------------------------------------------------------ hand-made request / result payloads in every shape
#[derive(Clone, Copy, Debug, PartialEq)]
enum Shape { Normal, StructAsArray, StructAsArrayShort, StructAsArrayLong, KeysByIndex, KeysByIndexSignedMarker, KeysAsBin, DupField, MissingField, ExtraField, ExtraFieldIndex,
             FirstAsInt, FirstAsBin, FirstNonUtf8, BlobAsStr, BlobAsU8Array, BlobAsBadArray, KeyNegative, KeyTooBig, KeySignedMarker, KeyWideMarker, KeyFloat, KeyWrongType,
             DupKeys, TopAsArray, FieldKeyNil, FieldKeyBool, FieldKeyNegInt, NonCanonicalInts, ExtValueInExtra, NestedExtra }
const SHAPES: &[Shape] = &[Shape::Normal, Shape::StructAsArray, Shape::StructAsArrayShort, Shape::StructAsArrayLong, Shape::KeysByIndex, Shape::KeysByIndexSignedMarker, Shape::KeysAsBin,
    Shape::DupField, Shape::MissingField, Shape::ExtraField, Shape::ExtraFieldIndex, Shape::FirstAsInt, Shape::FirstAsBin, Shape::FirstNonUtf8, Shape::BlobAsStr, Shape::BlobAsU8Array,
    Shape::BlobAsBadArray, Shape::KeyNegative, Shape::KeyTooBig, Shape::KeySignedMarker, Shape::KeyWideMarker, Shape::KeyFloat, Shape::KeyWrongType, Shape::DupKeys, Shape::TopAsArray,
    Shape::FieldKeyNil, Shape::FieldKeyBool, Shape::FieldKeyNegInt, Shape::NonCanonicalInts, Shape::ExtValueInExtra, Shape::NestedExtra];

fn field_key(o: &mut Vec<u8>, shape: Shape, idx: usize, name: &str) {
    match shape {
        Shape::KeysByIndex => w_uint(o, idx as u64),
        Shape::KeysByIndexSignedMarker => { o.push(0xd0); o.push(idx as u8); }
        Shape::KeysAsBin => w_bin(o, name.as_bytes()),
        _ => w_str(o, name.as_bytes()),
    }
}
fn extra_value(o: &mut Vec<u8>, shape: Shape) {
    match shape {
        Shape::ExtValueInExtra => { o.extend_from_slice(&[0xd5, 0x07, 0xaa, 0xbb]); }
        Shape::NestedExtra => { w_map(o, 2); w_arr(o, 2); o.push(0xc0); o.push(0xc3); w_arr(o, 0); o.push(0xcb); o.extend_from_slice(&1.5f64.to_be_bytes()); o.extend_from_slice(&[0xc7, 0x00, 0x01]); }
        _ => w_uint(o, 7),
    }
}
/// one struct with `fields` (name, value bytes) in the given shape
fn w_struct(o: &mut Vec<u8>, shape: Shape, fields: &[(&str, Vec<u8>)]) {
    let n = fields.len();
    match shape {
        Shape::StructAsArray => { w_arr(o, n); for (_, v) in fields { o.extend_from_slice(v); } }
        Shape::StructAsArrayShort => { w_arr(o, n - 1); for (_, v) in &fields[..n - 1] { o.extend_from_slice(v); } }
        Shape::StructAsArrayLong => { w_arr(o, n + 1); for (_, v) in fields { o.extend_from_slice(v); } o.push(0xc0); }
        Shape::DupField => { w_map(o, n + 1); for (i, (k, v)) in fields.iter().enumerate() { field_key(o, shape, i, k); o.extend_from_slice(v); } field_key(o, shape, 0, fields[0].0); o.extend_from_slice(&fields[0].1); }
        Shape::MissingField => { w_map(o, n - 1); for (i, (k, v)) in fields.iter().enumerate().skip(1) { field_key(o, shape, i, k); o.extend_from_slice(v); } }
        Shape::ExtraField | Shape::ExtValueInExtra | Shape::NestedExtra => { w_map(o, n + 1); w_str(o, b"zzz"); extra_value(o, shape); for (i, (k, v)) in fields.iter().enumerate() { field_key(o, shape, i, k); o.extend_from_slice(v); } }
        Shape::ExtraFieldIndex => { w_map(o, n + 1); for (i, (k, v)) in fields.iter().enumerate() { field_key(o, shape, i, k); o.extend_from_slice(v); } w_uint(o, n as u64 + 3); w_uint(o, 1); }
        Shape::FieldKeyNil => { w_map(o, n + 1); o.push(0xc0); w_uint(o, 1); for (i, (k, v)) in fields.iter().enumerate() { field_key(o, shape, i, k); o.extend_from_slice(v); } }
        Shape::FieldKeyBool => { w_map(o, n + 1); for (i, (k, v)) in fields.iter().enumerate() { field_key(o, shape, i, k); o.extend_from_slice(v); } o.push(0xc3); w_uint(o, 1); }
        Shape::FieldKeyNegInt => { w_map(o, n + 1); w_sint(o, -1); w_uint(o, 1); for (i, (k, v)) in fields.iter().enumerate() { field_key(o, shape, i, k); o.extend_from_slice(v); } }
        _ => { w_map(o, n); for (i, (k, v)) in fields.iter().enumerate() { field_key(o, shape, i, k); o.extend_from_slice(v); } }
    }
}
fn v_str(s: &[u8]) -> Vec<u8> { let mut o = vec![]; w_str(&mut o, s); o }
fn v_bin(s: &[u8]) -> Vec<u8> { let mut o = vec![]; w_bin(&mut o, s); o }
fn blob(shape: Shape, b: &[u8]) -> Vec<u8> {
    match shape {
        Shape::BlobAsStr => v_str(b),
        Shape::BlobAsU8Array => { let mut o = vec![]; w_arr(&mut o, b.len().min(40)); for x in b.iter().take(40) { w_uint(&mut o, *x as u64); } o }
        Shape::BlobAsBadArray => { let mut o = vec![]; w_arr(&mut o, 2); w_uint(&mut o, 1); w_uint(&mut o, 256); o }
        _ => v_bin(b),
    }
}
fn map_key_u32(o: &mut Vec<u8>, shape: Shape, id: u32) {
    match shape {
        Shape::KeyNegative => w_sint(o, -(1 + (id % 40) as i64)),
        Shape::KeyTooBig => w_uint(o, 1u64 << 32),
        Shape::KeySignedMarker => { o.push(0xd2); o.extend_from_slice(&((id >> 1) as i32).to_be_bytes()); }
        Shape::KeyWideMarker | Shape::NonCanonicalInts => { o.push(0xcf); o.extend_from_slice(&(id as u64).to_be_bytes()); }
        Shape::KeyFloat => { o.push(0xcb); o.extend_from_slice(&(id as f64).to_be_bytes()); }
        Shape::KeyWrongType => w_str(o, id.to_string().as_bytes()),
        _ => w_uint(o, id as u64),
    }
}
fn first_string(shape: Shape, s: &str) -> Vec<u8> {
    match shape {
        Shape::FirstAsInt => { let mut o = vec![]; w_uint(&mut o, 5); o }
        Shape::FirstAsBin => v_bin(s.as_bytes()),
        Shape::FirstNonUtf8 => v_str(&[0x61, 0xff, 0xfe]),
        _ => v_str(s.as_bytes()),
    }
}
fn shaped_requests(shape: Shape, reqs: &[(u32, CallRequestParams)]) -> Vec<u8> {
    let mut o = varint(MSGPACK);
    let entries: Vec<&(u32, CallRequestParams)> = if shape == Shape::DupKeys && !reqs.is_empty() { reqs.iter().chain(reqs.iter().rev().take(1)).collect() } else { reqs.iter().collect() };
    if shape == Shape::TopAsArray { w_arr(&mut o, entries.len() * 2); } else { w_map(&mut o, entries.len()); }
    for (k, (id, p)) in entries.iter().enumerate() {
        map_key_u32(&mut o, shape, *id);
        // in the DupKeys shape the repeated id carries a different function name: the later entry must win
        let fname = if shape == Shape::DupKeys && k == entries.len() - 1 { format!("{}#2", p.function_name) } else { p.function_name.clone() };
        w_struct(&mut o, shape, &[("service_id", first_string(shape, &p.service_id)), ("function_name", v_str(fname.as_bytes())),
                                  ("arguments", blob(shape, &p.arguments)), ("tetraplets", v_bin(&p.tetraplets))]);
    }
    o
}
fn shaped_results(shape: Shape, res: &[(String, CallServiceResult)]) -> Vec<u8> {
    let mut o = varint(MSGPACK);
    let entries: Vec<&(String, CallServiceResult)> = if shape == Shape::DupKeys && !res.is_empty() { res.iter().chain(res.iter().rev().take(1)).collect() } else { res.iter().collect() };
    if shape == Shape::TopAsArray { w_arr(&mut o, entries.len() * 2); } else { w_map(&mut o, entries.len()); }
    for (k, (key, r)) in entries.iter().enumerate() {
        match shape {
            Shape::KeyWrongType => w_uint(&mut o, 3), Shape::KeyFloat => { o.push(0xca); o.extend_from_slice(&1.0f32.to_be_bytes()); }
            Shape::KeysAsBin | Shape::KeySignedMarker => w_bin(&mut o, key.as_bytes()), Shape::KeyNegative => w_str(&mut o, &[0xc3, 0x28]),
            _ => w_str(&mut o, key.as_bytes()),
        }
        let code: Vec<u8> = { let mut c = vec![]; match shape {
            Shape::FirstAsInt | Shape::KeyTooBig => w_uint(&mut c, 1u64 << 31), Shape::FirstAsBin => w_sint(&mut c, -(1i64 << 31) - 1),
            Shape::NonCanonicalInts | Shape::KeyWideMarker => { c.push(0xd3); c.extend_from_slice(&(r.ret_code as i64).to_be_bytes()); }
            Shape::FirstNonUtf8 => { c.push(0xcb); c.extend_from_slice(&1.0f64.to_be_bytes()); }
            _ => w_sint(&mut c, r.ret_code as i64) } c };
        let result = if shape == Shape::DupKeys && k == entries.len() - 1 { format!("{}#2", r.result) } else { r.result.clone() };
        let resv = match shape { Shape::BlobAsStr => v_bin(result.as_bytes()), Shape::BlobAsBadArray => v_str(&[0xe2, 0x82]), Shape::BlobAsU8Array => { let mut o = vec![]; w_arr(&mut o, 1); w_uint(&mut o, 65); o } _ => v_str(result.as_bytes()) };
        w_struct(&mut o, shape, &[("ret_code", code), ("result", resv)]);
    }
    o
}

// ------------------------------------------------------------------ sections
fn section_varint(cx: &mut Cx, rng: &mut Rng, n_random: usize) {
    let mut vals: Vec<u32> = vec![0, 1, 127, 128, 255, 0x200, 0x201, 16383, 16384, (1 << 21) - 1, 1 << 21, (1 << 28) - 1, 1 << 28, u32::MAX - 1, u32::MAX];
    for _ in 0..n_random { vals.push((rng.next() >> (32 + rng.below(32))) as u32); }
    for v in vals {
        let mut buf = unsigned_varint::encode::u32_buffer();
        let real = unsigned_varint::encode::u32(v, &mut buf).to_vec();
        let m = cx.ask("varint_enc", json!({"n": v}));
        cx.rep.case(&format!("varint_enc|{v}"), true, || json!({"varint": v, "bytes": hex(&real)}));
        if m["hex"].as_str() != Some(hex(&real).as_str()) { cx.differ("varint_enc", "values", format!("{v}"), m, json!({"hex": hex(&real)})); }
        let mut with_rest = real.clone(); with_rest.extend_from_slice(&[0x83, 0x00]);
        match unsigned_varint::decode::u32(&with_rest) {
            Ok((n, rest)) if n == v && rest == [0x83, 0x00] => {}
            other => ofail(cx.rep, json!({"why": "varint u32 does not round-trip", "input": {"n": v}, "decoded": format!("{other:?}")})),
        }
    }
    // decoder on arbitrary bytes
    let mut inputs: Vec<Vec<u8>> = vec![vec![], vec![0x80], vec![0x81, 0x00], vec![0x80, 0x80, 0x00], vec![0xff, 0xff, 0xff, 0xff, 0x0f], vec![0xff, 0xff, 0xff, 0xff, 0x10],
        vec![0x81, 0x84, 0x80, 0x80, 0x10], vec![0x81, 0x84, 0x80, 0x80, 0x70, 0x01], vec![0xff, 0xff, 0xff, 0xff, 0x7f], vec![0x80, 0x80, 0x80, 0x80, 0x80, 0x01], vec![0x80, 0x80, 0x80, 0x80, 0x00], vec![0x00, 0x00]];
    for _ in 0..n_random * 2 {
        let n = rng.below(8);
        inputs.push((0..n).map(|i| { let b = rng.next() as u8; if i + 1 < n && rng.chance(3, 4) { b | 0x80 } else if rng.chance(1, 2) { b & 0x7f } else { b } }).collect());
    }
    for inp in inputs {
        let real = unsigned_varint::decode::u32(&inp);
        let real_j = match &real { Ok((n, rest)) => json!({"ok": n, "rest": hex(rest)}), Err(e) => json!({"err": format!("{e:?}")}) };
        let m = cx.ask("varint_dec", json!({"hex": hex(&inp)}));
        cx.rep.case(&format!("varint_dec|{}", hex(&inp)), real.is_ok(), || json!({"varint_bytes": hex(&inp), "decoded": real_j.clone()}));
        cx.rep.stat(&format!("varint_dec:{}", match &real { Ok(_) => "ok".to_string(), Err(e) => format!("{e:?}") }));
        if m != real_j { cx.differ("varint_dec", "bytes", hex(&inp), m, real_j.clone()); }
    }
}

/// codec tags: (description, tag bytes, Some(n) when the bytes are the canonical varint of the number n)
fn codec_tags(rng: &mut Rng, n_random: usize) -> Vec<(String, Vec<u8>, Option<u128>)> {
    let mut t: Vec<(String, Vec<u8>, Option<u128>)> = vec![];
    for c in OTHER_CODECS { t.push((format!("codec 0x{c:x}"), varint(*c), Some(*c as u128))); }
    for c in [0x0201u64 ^ 1, 0x0201 + 128, 0x0201 | (1 << 31), u32::MAX as u64, 0x81, 0x04, 0x0102, 0x8104] { t.push((format!("near 0x{c:x}"), varint(c), Some(c as u128))); }
    for _ in 0..n_random { let c = rng.next() >> (32 + rng.below(32)); if c != MSGPACK { t.push((format!("random 0x{c:x}"), varint(c), Some(c as u128))); } }
    // numbers beyond u32 whose low 32 bits are the msgpack codec: not the msgpack codec
    for hi in [1u64, 2, 7] { let c = (hi << 32) | MSGPACK; t.push((format!("beyond-u32 0x{c:x}"), varint(c), Some(c as u128))); }
    { let c = (rng.next() | (1 << 32)) & 0x7_ffff_ffff; t.push((format!("beyond-u32 random 0x{c:x}"), varint(c), Some(c as u128))); }
    // the same beyond five varint bytes (6..10 bytes): these must be refused (they are NOT covered by the known finding about the 5th byte)
    for hi in [8u64, 0x2a, 1 << 17, 1 << 31] { let c = (hi << 32) | MSGPACK; t.push((format!("wide 0x{c:x}"), varint(c), Some(c as u128))); }
    { let c = ((rng.next() | (1 << 63)) & !0xffff_ffffu64) | MSGPACK; t.push((format!("wide random 0x{c:x}"), varint(c), Some(c as u128))); }
    t.push(("non-minimal msgpack tag".into(), vec![0x81, 0x84, 0x00], None));
    t.push(("overlong msgpack tag".into(), vec![0x81, 0x84, 0x80, 0x80, 0x80, 0x00], None));
    t.push(("truncated tag".into(), vec![0x81], None));
    t
}

fn section_requests(cx: &mut Cx, rng: &mut Rng, n_maps: usize, shapes_per_map: usize, tags: &[(String, Vec<u8>, Option<u128>)]) {
    for mi in 0..n_maps {
        set_big(mi % 12 == 5);
        let reqs = gen_request_map(rng);
        let (tags, shapes_per_map) = if big() { (&tags[..3.min(tags.len())], 2) } else { (tags, shapes_per_map) };
        set_big(false);
        let real_map = real_request_map(&reqs);
        let ser: Vec<u8> = match catch(|| CallRequestsRepr.serialize(&real_map)) {
            Ok(Ok(s)) => s.to_vec(),
            other => { ofail(cx.rep, json!({"why": "CallRequestsRepr.serialize failed", "input": {"ids": reqs.iter().map(|r| r.id).collect::<Vec<_>>()}, "result": format!("{:?}", other.map(|r| r.map(|_| ())))})); continue; }
        };
        let canonical = format!("requests|{}", fnv(&hex(&ser)));
        cx.rep.case(&canonical, !reqs.is_empty(), || json!({"request_map_ids": reqs.iter().map(|r| r.id).collect::<Vec<_>>(), "bytes": ser.len()}));
        cx.rep.stat(&format!("request_map_entries:{}", reqs.len()));
        // oracle: the map decodes to exactly what was encoded
        match CallRequestsRepr.deserialize(&ser) {
            Ok(back) if back == real_map => {}
            other => ofail(cx.rep, json!({"why": "call request map does not decode to what was encoded", "input": {"hex": hex(&ser)}, "decoded": format!("{:?}", other.map(|m| m.len()))})),
        }
        // oracle: the host's reader (avm-interface) gets the arguments and tetraplets back
        let outcome = InterpreterOutcome { ret_code: 0, error_message: String::new(), data: vec![], call_requests: ser.clone(), next_peer_pks: vec![],
                                           air_size_limit_exceeded: false, particle_size_limit_exceeded: false, call_result_size_limit_exceeded: false };
        match catch(|| avm_interface::raw_outcome::RawAVMOutcome::from_interpreter_outcome(outcome)) {
            Ok(Ok(raw)) => {
                for r in &reqs {
                    let got = raw.call_requests.get(&r.id);
                    let same = got.map(|g| g.service_id == r.service_id && g.function_name == r.function_name && g.arguments == r.args && g.tetraplets == r.tets).unwrap_or(false);
                    if !same {
                        let magic = args_have_rawvalue(&r.args);
                        let mut f = json!({"why": "host reader (avm-interface from_interpreter_outcome) does not return the call request that was encoded",
                            "input": {"id": r.id, "service_id": r.service_id, "function_name": r.function_name, "arguments": r.args, "tetraplets": serde_json::to_value(&r.tets).unwrap()},
                            "decoded": got.map(|g| json!({"service_id": g.service_id, "function_name": g.function_name, "arguments": g.arguments, "tetraplets": serde_json::to_value(&g.tetraplets).unwrap()}))});
                        if magic { f["finding_key"] = json!("call-arguments-rawvalue-token-misread-by-host"); }
                        ofail(cx.rep, f);
                    }
                }
                if raw.call_requests.len() != reqs.len() { ofail(cx.rep, json!({"why": "host reader returns a different number of call requests", "input": {"hex": hex(&ser)}})); }
            }
            Ok(Err(e)) => {
                let magic = reqs.iter().any(|r| args_have_rawvalue(&r.args));
                let mut f = json!({"why": "host reader (avm-interface from_interpreter_outcome) rejects a call request map written by the interpreter's encoder", "input": {"hex": hex(&ser)}, "error": e.to_string().chars().take(300).collect::<String>()});
                if magic { f["finding_key"] = json!("call-arguments-rawvalue-token-misread-by-host"); }
                ofail(cx.rep, f);
            }
            Err(p) => ofail(cx.rep, json!({"why": "host reader panicked", "input": {"hex": hex(&ser)}, "panic": p})),
        }
        // model encoder, byte-exact (entries in the iteration order of this very map = the order the encoder wrote them)
        let order: Vec<Value> = real_map.iter().map(|(id, p)| req_json(*id, p)).collect();
        let m = cx.ask("enc_requests", json!({"entries": order}));
        if m["hex"].as_str() != Some(hex(&ser).as_str()) { cx.differ("enc_requests", "generated", hex(&ser), m, json!({"hex": hex(&ser)})); }
        // arguments / tetraplets payloads: model encoders byte-exact, decoders equal
        for r in reqs.iter().take(3) {
            let a = ser_args(&r.args);
            let m = cx.ask("enc_args", json!({"args": r.args.iter().map(tag).collect::<Vec<_>>()}));
            cx.rep.case(&format!("args|{}", fnv(&hex(&a))), !r.args.is_empty(), || json!({"arguments": r.args, "bytes": hex(&a).chars().take(200).collect::<String>()}));
            if m["hex"].as_str() != Some(hex(&a).as_str()) { cx.differ("enc_args", "generated", serde_json::to_string(&r.args).unwrap(), m, json!({"hex": hex(&a)})); }
            match cx.cmp_dec_args(&a, "real") {
                Some(back) if back == r.args => {}
                other => {
                    let magic = args_have_rawvalue(&r.args);
                    let mut f = json!({"why": "call arguments do not decode (host reader, Vec<serde_json::Value>) to what was encoded", "input": {"arguments": r.args, "hex": hex(&a)}, "decoded": other});
                    if magic { f["finding_key"] = json!("call-arguments-rawvalue-token-misread-by-host"); }
                    ofail(cx.rep, f);
                }
            }
            let own: Result<Vec<JValue>, _> = CallArgumentsRepr.deserialize(&a);
            let want: Vec<JValue> = r.args.iter().map(JValue::from).collect();
            if own.as_ref().ok() != Some(&want) { ofail(cx.rep, json!({"why": "call arguments do not decode (Vec<JValue>) to what was encoded", "input": {"arguments": r.args, "hex": hex(&a)}})); }
            let t = ser_tets(&r.tets);
            let m = cx.ask("enc_tets", json!({"rows": tets_json(&r.tets)}));
            cx.rep.case(&format!("tets|{}", fnv(&hex(&t))), !r.tets.is_empty(), || json!({"tetraplets": serde_json::to_value(&r.tets).unwrap()}));
            if m["hex"].as_str() != Some(hex(&t).as_str()) { cx.differ("enc_tets", "generated", hex(&t), m, json!({"hex": hex(&t)})); }
            match cx.cmp_dec_tets(&t, "real") {
                Some(back) if back == r.tets => {}
                other => ofail(cx.rep, json!({"why": "tetraplets do not decode to what was encoded", "input": {"hex": hex(&t)}, "decoded": other.map(|o| serde_json::to_value(&o).unwrap())})),
            }
            for _ in 0..2 { let d = mutate_bytes(rng, &a); cx.rep.case(&format!("args-mut|{}", fnv(&hex(&d))), false, || Value::Null); cx.cmp_dec_args(&d, "mutated"); }
            for _ in 0..2 { let d = mutate_bytes(rng, &t); cx.rep.case(&format!("tets-mut|{}", fnv(&hex(&d))), false, || Value::Null); cx.cmp_dec_tets(&d, "mutated"); }
        }
        // model decoder on the real bytes
        cx.cmp_dec_requests(&ser, "real");
        cx.cmp_mp_accepts(&ser[2.min(ser.len())..], "real requests payload");
        // codec tag mutated
        let payload = &ser[varint(MSGPACK).len()..];
        let tag_sel: Vec<&(String, Vec<u8>, Option<u128>)> = if mi < 2 { tags.iter().collect() } else { (0..6).map(|_| &tags[rng.below(tags.len())]).collect() };
        for (what, tagb, num) in tag_sel {
            let mut d = tagb.clone(); d.extend_from_slice(payload);
            cx.rep.case(&format!("retag-req|{}|{}", hex(tagb), fnv(&hex(payload))), true, || json!({"retagged_requests": what, "tag": hex(tagb)}));
            cx.rep.stat("retagged_requests");
            let got = cx.cmp_dec_requests(&d, "retagged");
            if got.is_some() {
                let beyond = num.map(|n| n > u32::MAX as u128 && n < (1u128 << 35)).unwrap_or(false);
                let mut f = json!({"why": format!("call requests tagged with another codec ({what}) were decoded instead of rejected"), "input": {"hex": hex(&d), "tag": hex(tagb)}});
                if beyond { f["finding_key"] = json!("multiformat-codec-varint-beyond-u32-truncated"); }
                ofail(cx.rep, f);
            }
        }
        // shapes and byte mutations
        let list: Vec<(u32, CallRequestParams)> = real_map.iter().map(|(k, v)| (*k, v.clone())).collect();
        for _ in 0..shapes_per_map {
            let shape = SHAPES[rng.below(SHAPES.len())];
            let d = shaped_requests(shape, &list);
            cx.rep.case(&format!("req-shape|{shape:?}|{}", fnv(&hex(&d))), !list.is_empty(), || json!({"request_shape": format!("{shape:?}"), "hex": hex(&d).chars().take(300).collect::<String>()}));
            cx.rep.stat(&format!("shape:{shape:?}"));
            cx.cmp_dec_requests(&d, &format!("shape {shape:?}"));
            if shape == Shape::Normal && CallRequestsRepr.deserialize(&d).ok() != Some(real_map.clone()) {
                ofail(cx.rep, json!({"why": "hand-written canonical msgpack of the request map is not read as that map", "input": {"hex": hex(&d)}}));
            }
        }
        for _ in 0..shapes_per_map { let d = mutate_bytes(rng, &ser); cx.rep.case(&format!("req-mut|{}", fnv(&hex(&d))), false, || Value::Null); cx.cmp_dec_requests(&d, "mutated"); cx.cmp_mp_accepts(&d[2.min(d.len())..], "mutated requests payload"); }
    }
}

/// host side of the call results: `avm_interface::into_raw_result` (ids -> decimal string keys, JSON values -> text), then the wire.
/// The JSON *text* is compared: re-parsing it is outside this property (serde_json without `float_roundtrip` does not
/// parse every f64 back to the same bits, e.g. -5.919912180227791e+260).
fn host_results_roundtrip(cx: &mut Cx, rng: &mut Rng) {
    let n = rng.below(6);
    let mut host: avm_interface::CallResults = HashMap::new();
    for _ in 0..n { host.insert(gen_id(rng), avm_interface::CallServiceResult { ret_code: [0, 1, -1, i32::MIN, i32::MAX][rng.below(5)], result: gen_json(rng, 2) }); }
    let raw = avm_interface::into_raw_result(host.clone());
    let back = CallResultsRepr.serialize(&raw).ok().and_then(|s| CallResultsRepr.deserialize(&s).ok());
    cx.rep.case(&format!("host-results|{}", fnv(&serde_json::to_string(&host.iter().collect::<std::collections::BTreeMap<_, _>>()).unwrap())), n > 0, || json!({"host_call_results": host.len()}));
    let ok = match &back {
        Some(b) => b.len() == host.len() && host.iter().all(|(id, r)| b.get(&id.to_string()).map(|x| x.ret_code == r.ret_code && x.result == r.result.to_string()).unwrap_or(false)),
        None => false,
    };
    if !ok { ofail(cx.rep, json!({"why": "call results given by the host (into_raw_result, then the wire) do not arrive under the same ids with the same codes and JSON texts", "input": {"results": host.iter().map(|(k, v)| json!({"id": k, "ret_code": v.ret_code, "result": v.result})).collect::<Vec<_>>()}})); }
}

fn section_results(cx: &mut Cx, rng: &mut Rng, n_maps: usize, shapes_per_map: usize, tags: &[(String, Vec<u8>, Option<u128>)]) {
    for mi in 0..n_maps {
        host_results_roundtrip(cx, rng);
        set_big(mi % 12 == 5);
        let res = gen_result_map(rng);
        let (tags, shapes_per_map) = if big() { (&tags[..3.min(tags.len())], 2) } else { (tags, shapes_per_map) };
        set_big(false);
        let real_map: CallResults = res.iter().cloned().collect();
        let ser: Vec<u8> = match catch(|| CallResultsRepr.serialize(&real_map)) {
            Ok(Ok(s)) => s.to_vec(),
            _ => { ofail(cx.rep, json!({"why": "CallResultsRepr.serialize failed", "input": {"keys": res.iter().map(|r| r.0.clone()).collect::<Vec<_>>()}})); continue; }
        };
        cx.rep.case(&format!("results|{}", fnv(&hex(&ser))), !res.is_empty(), || json!({"result_map_keys": res.iter().map(|r| r.0.clone()).collect::<Vec<_>>(), "ret_codes": res.iter().map(|r| r.1.ret_code).collect::<Vec<_>>()}));
        cx.rep.stat(&format!("result_map_entries:{}", res.len()));
        match CallResultsRepr.deserialize(&ser) {
            Ok(back) if results_json_sorted(&back) == results_json_sorted(&real_map) => {}
            other => ofail(cx.rep, json!({"why": "call result map does not decode to what was encoded", "input": {"hex": hex(&ser)}, "decoded": format!("{:?}", other.map(|m| m.len()))})),
        }
        let order: Vec<Value> = real_map.iter().map(|(k, r)| res_json(k, r)).collect();
        let m = cx.ask("enc_results", json!({"entries": order}));
        if m["hex"].as_str() != Some(hex(&ser).as_str()) { cx.differ("enc_results", "generated", hex(&ser), m, json!({"hex": hex(&ser)})); }
        cx.cmp_dec_results(&ser, "real");
        let payload = &ser[varint(MSGPACK).len()..];
        let tag_sel: Vec<&(String, Vec<u8>, Option<u128>)> = if mi < 2 { tags.iter().collect() } else { (0..6).map(|_| &tags[rng.below(tags.len())]).collect() };
        for (what, tagb, num) in tag_sel {
            let mut d = tagb.clone(); d.extend_from_slice(payload);
            cx.rep.case(&format!("retag-res|{}|{}", hex(tagb), fnv(&hex(payload))), true, || json!({"retagged_results": what, "tag": hex(tagb)}));
            cx.rep.stat("retagged_results");
            let got = cx.cmp_dec_results(&d, "retagged");
            if got.is_some() {
                let beyond = num.map(|n| n > u32::MAX as u128 && n < (1u128 << 35)).unwrap_or(false);
                let mut f = json!({"why": format!("call results tagged with another codec ({what}) were decoded instead of rejected"), "input": {"hex": hex(&d), "tag": hex(tagb)}});
                if beyond { f["finding_key"] = json!("multiformat-codec-varint-beyond-u32-truncated"); }
                ofail(cx.rep, f);
            }
        }
        for _ in 0..shapes_per_map {
            let shape = SHAPES[rng.below(SHAPES.len())];
            let d = shaped_results(shape, &res);
            cx.rep.case(&format!("res-shape|{shape:?}|{}", fnv(&hex(&d))), !res.is_empty(), || json!({"result_shape": format!("{shape:?}"), "hex": hex(&d).chars().take(300).collect::<String>()}));
            cx.rep.stat(&format!("shape:{shape:?}"));
            cx.cmp_dec_results(&d, &format!("shape {shape:?}"));
        }
        for _ in 0..shapes_per_map { let d = mutate_bytes(rng, &ser); cx.rep.case(&format!("res-mut|{}", fnv(&hex(&d))), false, || Value::Null); cx.cmp_dec_results(&d, "mutated"); }
    }
}

#[derive(Clone, Copy, Debug)]
enum EnvShape { Normal, Reordered, ExtraKey, DupVersion, DupInner, MissingInner, MissingVersion, InnerAsStr, InnerAsU8Array, InnerAsBadArray, Trailing, AsArray2, AsArray3, KeysAsBin, KeysByIndex,
                VersionAsBin, VersionAsInt, VersionNotSemver, VersionNonUtf8, KeyNil, KeyBool, KeyFloat, KeyArray, KeyMap, KeyExt, ExtraNested, Deep1022, Deep1023 }
const ENV_SHAPES: &[EnvShape] = &[EnvShape::Normal, EnvShape::Reordered, EnvShape::ExtraKey, EnvShape::DupVersion, EnvShape::DupInner, EnvShape::MissingInner, EnvShape::MissingVersion, EnvShape::InnerAsStr,
    EnvShape::InnerAsU8Array, EnvShape::InnerAsBadArray, EnvShape::Trailing, EnvShape::AsArray2, EnvShape::AsArray3, EnvShape::KeysAsBin, EnvShape::KeysByIndex, EnvShape::VersionAsBin, EnvShape::VersionAsInt,
    EnvShape::VersionNotSemver, EnvShape::VersionNonUtf8, EnvShape::KeyNil, EnvShape::KeyBool, EnvShape::KeyFloat, EnvShape::KeyArray, EnvShape::KeyMap, EnvShape::KeyExt, EnvShape::ExtraNested, EnvShape::Deep1022, EnvShape::Deep1023];

fn shaped_envelope(shape: EnvShape, dv: &str, iv: &str, inner: &[u8]) -> Vec<u8> {
    let mut o = vec![];
    let key = |o: &mut Vec<u8>, idx: u64, name: &str| match shape { EnvShape::KeysAsBin => w_bin(o, name.as_bytes()), EnvShape::KeysByIndex => w_uint(o, idx), _ => w_str(o, name.as_bytes()) };
    let kv_ver = |o: &mut Vec<u8>| { key(o, 0, "version"); match shape { EnvShape::VersionAsBin => w_bin(o, dv.as_bytes()), EnvShape::VersionNotSemver => w_str(o, b"1.2"), EnvShape::VersionNonUtf8 => w_str(o, &[0x31, 0xff]), _ => w_str(o, dv.as_bytes()) } };
    let kv_int = |o: &mut Vec<u8>| { key(o, 1, "interpreter_version"); match shape { EnvShape::VersionAsInt => w_uint(o, 61), _ => w_str(o, iv.as_bytes()) } };
    let kv_inner = |o: &mut Vec<u8>| { key(o, 2, "inner_data"); match shape {
        EnvShape::InnerAsStr => w_str(o, &inner[..inner.len().min(20)]), EnvShape::InnerAsU8Array => { w_arr(o, inner.len().min(30)); for b in inner.iter().take(30) { w_uint(o, *b as u64); } }
        EnvShape::InnerAsBadArray => { w_arr(o, 2); w_uint(o, 1); w_sint(o, -1); } _ => w_bin(o, inner) } };
    let deep = |o: &mut Vec<u8>, n: usize| { for _ in 0..n { w_arr(o, 1); } o.push(0xc0); };
    match shape {
        EnvShape::Reordered => { w_map(&mut o, 3); kv_inner(&mut o); kv_int(&mut o); kv_ver(&mut o); }
        EnvShape::ExtraKey => { w_map(&mut o, 4); kv_ver(&mut o); w_str(&mut o, b"zzz"); w_uint(&mut o, 7); kv_int(&mut o); kv_inner(&mut o); }
        EnvShape::ExtraNested => { w_map(&mut o, 4); kv_ver(&mut o); w_str(&mut o, b"zzz"); w_map(&mut o, 1); w_arr(&mut o, 1); o.push(0xc2); o.extend_from_slice(&[0xd4, 0x01, 0x02]); kv_int(&mut o); kv_inner(&mut o); }
        EnvShape::DupVersion => { w_map(&mut o, 4); kv_ver(&mut o); kv_int(&mut o); kv_int(&mut o); kv_inner(&mut o); }
        EnvShape::DupInner => { w_map(&mut o, 4); kv_ver(&mut o); kv_int(&mut o); kv_inner(&mut o); kv_inner(&mut o); }
        EnvShape::MissingInner => { w_map(&mut o, 2); kv_ver(&mut o); kv_int(&mut o); }
        EnvShape::MissingVersion => { w_map(&mut o, 2); kv_int(&mut o); kv_inner(&mut o); }
        EnvShape::Trailing => { w_map(&mut o, 3); kv_ver(&mut o); kv_int(&mut o); kv_inner(&mut o); o.extend_from_slice(&[0xc1, 0x01]); }
        EnvShape::AsArray2 => { w_arr(&mut o, 2); w_str(&mut o, dv.as_bytes()); w_str(&mut o, iv.as_bytes()); }
        EnvShape::AsArray3 => { w_arr(&mut o, 3); w_str(&mut o, dv.as_bytes()); w_str(&mut o, iv.as_bytes()); w_bin(&mut o, inner); }
        EnvShape::KeyNil => { w_map(&mut o, 4); o.push(0xc0); w_uint(&mut o, 1); kv_ver(&mut o); kv_int(&mut o); kv_inner(&mut o); }
        EnvShape::KeyBool => { w_map(&mut o, 4); kv_ver(&mut o); o.push(0xc3); w_uint(&mut o, 1); kv_int(&mut o); kv_inner(&mut o); }
        EnvShape::KeyFloat => { w_map(&mut o, 4); kv_ver(&mut o); kv_int(&mut o); o.push(0xca); o.extend_from_slice(&2.0f32.to_be_bytes()); w_uint(&mut o, 1); kv_inner(&mut o); }
        EnvShape::KeyArray => { w_map(&mut o, 4); kv_ver(&mut o); kv_int(&mut o); kv_inner(&mut o); w_arr(&mut o, 0); w_uint(&mut o, 1); }
        EnvShape::KeyMap => { w_map(&mut o, 4); kv_ver(&mut o); w_map(&mut o, 0); w_uint(&mut o, 1); kv_int(&mut o); kv_inner(&mut o); }
        EnvShape::KeyExt => { w_map(&mut o, 4); kv_ver(&mut o); kv_int(&mut o); o.extend_from_slice(&[0xd4, 0x01, 0x02]); w_uint(&mut o, 1); kv_inner(&mut o); }
        EnvShape::Deep1022 => { w_map(&mut o, 4); kv_ver(&mut o); kv_int(&mut o); kv_inner(&mut o); w_str(&mut o, b"deep"); deep(&mut o, 1022); }
        EnvShape::Deep1023 => { w_map(&mut o, 4); kv_ver(&mut o); kv_int(&mut o); kv_inner(&mut o); w_str(&mut o, b"deep"); deep(&mut o, 1023); }
        _ => { w_map(&mut o, 3); kv_ver(&mut o); kv_int(&mut o); kv_inner(&mut o); }
    }
    o
}

fn data_view(d: &InterpreterData) -> Result<Value, String> { catch(|| serde_json::to_value(d).unwrap_or(Value::Null)) }

/// oracle + correspondence for one data blob as returned by the interpreter (or one built from it)
fn check_data_blob(cx: &mut Cx, rng: &mut Rng, blob: &[u8], origin: &str, with_model: bool, shapes: usize) {
    let env = match InterpreterDataEnvelope::try_from_slice(blob) {
        Ok(e) => e,
        Err(e) => { ofail(cx.rep, json!({"why": "data returned by the interpreter does not decode as an envelope", "input": {"hex": hex(blob), "origin": origin}, "error": e.to_string()})); return; }
    };
    let dv = env.versions.data_version.to_string();
    let iv = env.versions.interpreter_version.to_string();
    let inner: Vec<u8> = env.inner_data.to_vec();
    // ---- InterpreterData (rkyv): decode(encode(x)) == x
    match InterpreterData::try_from_slice(&inner) {
        Ok(d) => {
            let mut variants: Vec<(String, InterpreterData)> = vec![("as returned".into(), d.clone())];
            for lcid in [0u32, 1, u32::MAX] { let mut v = d.clone(); v.last_call_request_id = lcid; variants.push((format!("lcid={lcid}"), v)); }
            if d.trace.len() > 1 { let mut v = d.clone(); let n = 1 + rng.below(d.trace.len() - 1); v.trace = ExecutionTrace::from(d.trace.iter().take(n).cloned().collect::<Vec<_>>()); variants.push((format!("trace prefix {n}"), v)); }
            for (what, v) in variants {
                let view = data_view(&v);
                let res = catch(|| { let bytes = v.serialize().map_err(|e| e.to_string())?; let back = InterpreterData::try_from_slice(&bytes).map_err(|e| e.to_string())?; Ok::<_, String>((bytes, back)) });
                cx.rep.case(&format!("data|{what}|{}", fnv(&hex(&inner))), true, || json!({"interpreter_data": what, "origin": origin, "inner_len": inner.len(), "trace_len": v.trace.len()}));
                cx.rep.stat("interpreter_data_roundtrips");
                match res {
                    Ok(Ok((bytes, back))) => {
                        if data_view(&back) != view || view.is_err() { ofail(cx.rep, json!({"why": format!("InterpreterData ({what}) does not decode to what was encoded"), "input": {"hex": hex(&bytes), "origin": origin}})); }
                        // and once more through the envelope
                        let e2 = InterpreterDataEnvelope { versions: env.versions.clone(), inner_data: Cow::from(bytes.clone()) };
                        match e2.serialize().ok().and_then(|b| InterpreterDataEnvelope::try_from_slice(&b).ok().map(|e| e.inner_data.to_vec())) {
                            Some(i2) if i2 == bytes => {}
                            _ => ofail(cx.rep, json!({"why": "envelope around re-serialised data does not return the inner bytes", "input": {"hex": hex(&bytes)}})),
                        }
                    }
                    other => ofail(cx.rep, json!({"why": format!("InterpreterData ({what}) failed to re-serialise or to decode its own serialisation"), "input": {"hex": hex(&inner), "origin": origin}, "result": format!("{:?}", other.map(|r| r.map(|_| ())))})),
                }
            }
        }
        Err(e) => ofail(cx.rep, json!({"why": "inner data returned by the interpreter does not decode", "input": {"hex": hex(blob), "origin": origin}, "error": e.to_string()})),
    }
    // ---- envelope: serialize / try_from_slice / try_get_versions with readable and unreadable inner data
    let mut inners: Vec<(String, Vec<u8>)> = vec![("real".into(), inner.clone()), ("empty".into(), vec![]), ("garbage".into(), (0..1 + rng.below(40)).map(|_| rng.next() as u8).collect()),
        ("truncated".into(), inner[..rng.below(inner.len().max(1))].to_vec()), ("c1".into(), vec![0xc1; 3])];
    if rng.chance(1, 4) { inners.push(("len255".into(), vec![7; 255])); inners.push(("len256".into(), vec![8; 256])); inners.push(("len65536".into(), vec![9; 65536])); }
    for (what, inn) in inners {
        let e = InterpreterDataEnvelope { versions: env.versions.clone(), inner_data: Cow::from(inn.clone()) };
        let bytes = match catch(|| e.serialize()) { Ok(Ok(b)) => b, other => { ofail(cx.rep, json!({"why": "envelope serialize failed", "input": {"inner": what}, "result": format!("{:?}", other.map(|r| r.map(|_| ())))})); continue; } };
        cx.rep.case(&format!("env|{what}|{}", fnv(&hex(&bytes))), true, || json!({"envelope_inner": what, "version": dv, "interpreter_version": iv, "inner_len": inn.len()}));
        cx.rep.stat(&format!("envelope_inner:{what}"));
        match InterpreterDataEnvelope::try_get_versions(&bytes) {
            Ok(v) if v.data_version == env.versions.data_version && v.interpreter_version == env.versions.interpreter_version => {}
            other => ofail(cx.rep, json!({"why": format!("try_get_versions does not return the versions of an envelope whose inner data is {what}"), "input": {"hex": hex(&bytes)}, "result": format!("{:?}", other.map(|v| v.interpreter_version.to_string()))})),
        }
        match InterpreterDataEnvelope::try_from_slice(&bytes) {
            Ok(b) if b.inner_data.as_ref() == &inn[..] && b.versions.data_version == env.versions.data_version && b.versions.interpreter_version == env.versions.interpreter_version => {}
            other => ofail(cx.rep, json!({"why": format!("envelope ({what} inner data) does not decode to what was encoded"), "input": {"hex": hex(&bytes)}, "result": format!("{:?}", other.map(|v| v.inner_data.len()))})),
        }
        if semver::Version::parse(&iv).ok().as_ref() != Some(&env.versions.interpreter_version) { ofail(cx.rep, json!({"why": "semver text of the interpreter version does not parse back", "input": {"version": iv}})); }
        if with_model {
            let m = cx.ask("enc_envelope", json!({"version": hex(dv.as_bytes()), "interpreter_version": hex(iv.as_bytes()), "inner": hex(&inn)}));
            if m["hex"].as_str() != Some(hex(&bytes).as_str()) { cx.differ("enc_envelope", &what, hex(&bytes), m, json!({"hex": hex(&bytes)})); }
            cx.cmp_dec_envelope(&bytes, &format!("real envelope, {what} inner"));
        }
    }
    if with_model {
        let small_inner: Vec<u8> = inner.iter().take(64).cloned().collect();
        for _ in 0..shapes {
            let shape = ENV_SHAPES[rng.below(ENV_SHAPES.len())];
            let d = shaped_envelope(shape, &dv, &iv, &small_inner);
            cx.rep.case(&format!("env-shape|{shape:?}|{}", fnv(&hex(&d))), true, || json!({"envelope_shape": format!("{shape:?}")}));
            cx.rep.stat(&format!("env_shape:{shape:?}"));
            cx.cmp_dec_envelope(&d, &format!("shape {shape:?}"));
        }
        let base = shaped_envelope(EnvShape::Normal, &dv, &iv, &small_inner);
        for _ in 0..shapes { let d = mutate_bytes(rng, &base); cx.rep.case(&format!("env-mut|{}", fnv(&hex(&d))), false, || Value::Null); cx.cmp_dec_envelope(&d, "mutated"); cx.cmp_mp_accepts(&d, "mutated envelope"); }
    }
}

fn section_depth(cx: &mut Cx) {
    for n in [1usize, 2, 1021, 1022, 1023, 1024, 1025, 1500] {
        for kind in 0..3 {
            let mut o = vec![];
            for _ in 0..n { match kind { 0 => w_arr(&mut o, 1), 1 => { w_map(&mut o, 1); o.push(0xc0); } _ => { w_map(&mut o, 1); } } }
            if kind == 2 { o.push(0xc0); for _ in 0..n { o.push(0x01); } } else { o.push(0xc0); }
            cx.rep.case(&format!("depth|{n}|{kind}"), true, || json!({"nesting": n, "kind": (["array", "map value", "map key"][kind])}));
            cx.cmp_mp_accepts(&o, &format!("depth {n}"));
        }
    }
    let mut o = vec![0xd4, 0x01, 0x02]; cx.cmp_mp_accepts(&o, "ext"); o.truncate(2); cx.cmp_mp_accepts(&o, "ext truncated");
}

/// call arguments as deep as the interpreter can hold them: serde_json accepts service results with up to 127 nested containers
/// (recursion limit 128); whatever the interpreter can hold must survive the trip to the host and back (both readers)
fn section_deep_arguments(cx: &mut Cx) {
    for depth in [1usize, 64, 100, 120, 125, 126, 127] {
        for kind in 0..3 {
            let mut text = String::new();
            for k in 0..depth { match (kind, k % 2) { (0, _) | (2, 0) => text.push('['), _ => text.push_str("{\"a\":") } }
            text.push_str("\"x\"");
            for k in (0..depth).rev() { match (kind, k % 2) { (0, _) | (2, 0) => text.push(']'), _ => text.push('}') } }
            let Ok(v) = serde_json::from_str::<Value>(&text) else { cx.rep.stat("deep_value_refused_by_serde_json"); continue };
            let args = vec![v.clone(), json!("flat")];
            let a = ser_args(&args);
            cx.rep.case(&format!("deep-args|{depth}|{kind}"), true, || json!({"deep_arguments": depth, "kind": (["arrays", "objects", "mixed"][kind])}));
            cx.rep.stat("deep_argument_roundtrips");
            let host: Result<Result<Vec<Value>, _>, String> = catch(|| CallArgumentsRepr.deserialize(&a));
            let own: Result<Result<Vec<JValue>, _>, String> = catch(|| CallArgumentsRepr.deserialize(&a));
            let want: Vec<JValue> = args.iter().map(JValue::from).collect();
            let host_ok = matches!(&host, Ok(Ok(back)) if *back == args);
            let own_ok = matches!(&own, Ok(Ok(back)) if *back == want);
            if !host_ok || !own_ok {
                ofail(cx.rep, json!({"why": format!("call arguments holding a value of nesting depth {depth} (which the interpreter accepts from a service) do not round-trip: host reader {}, interpreter reader {}",
                    match &host { Ok(Ok(_)) => "decodes to another value".to_string(), Ok(Err(e)) => format!("refuses: {e}"), Err(p) => format!("panics: {p}") },
                    match &own { Ok(Ok(_)) => if own_ok { "ok".to_string() } else { "decodes to another value".to_string() }, Ok(Err(e)) => format!("refuses: {e}"), Err(p) => format!("panics: {p}") }),
                    "input": {"depth": depth, "kind": kind, "hex": hex(&a)}}));
                return;
            }
        }
    }
}

fn section_histories(cx: &mut Cx, rng: &mut Rng, histories: usize, model_blobs: usize) {
    let mut seen: HashMap<u64, ()> = HashMap::new();
    let mut modelled = 0usize;
    for h in 0..histories {
        let hist = gen_history(rng, h % 2 == 0, false, 12, 40);
        cx.rep.stat("histories");
        cx.rep.stat_n("history_steps", hist.net.log.len() as u64);
        for st in &hist.net.log {
            let o = &st.outcome;
            if o.ret_code == crate::sim::PANIC_CODE { continue; }
            // data
            if !o.data.is_empty() && seen.insert(fnv(&hex(&o.data)), ()).is_none() {
                let with_model = modelled < model_blobs && o.data.len() < 20000;
                if with_model { modelled += 1; }
                check_data_blob(cx, rng, &o.data, &format!("history {h} step {}", st.step), with_model, if with_model { 4 } else { 0 });
            }
            // call requests handed to the host
            if seen.insert(fnv(&hex(&o.call_requests)) ^ 0x5151, ()).is_none() {
                cx.rep.case(&format!("hist-req|{}", fnv(&hex(&o.call_requests))), o.call_requests.len() > 3, || json!({"history_requests_hex": hex(&o.call_requests).chars().take(200).collect::<String>()}));
                cx.rep.stat("history_request_maps");
                match cx.cmp_dec_requests(&o.call_requests, "history") {
                    None => ofail(cx.rep, json!({"why": "call requests returned by the interpreter do not decode", "input": crate::props::hist::step_json(&hist.net, st)})),
                    Some(m) => {
                        // re-encoding what was decoded decodes to the same map
                        let again = CallRequestsRepr.serialize(&m).ok().and_then(|s| CallRequestsRepr.deserialize(&s).ok());
                        if again.as_ref() != Some(&m) { ofail(cx.rep, json!({"why": "call requests of a history do not round-trip", "input": {"hex": hex(&o.call_requests)}})); }
                        for (_, p) in m.iter().take(2) {
                            if let Some(args) = cx.cmp_dec_args(&p.arguments, "real (history)") {
                                let me = cx.ask("enc_args", json!({"args": args.iter().map(tag).collect::<Vec<_>>()}));
                                if me["hex"].as_str() != Some(hex(&p.arguments).as_str()) { cx.differ("enc_args", "history", hex(&p.arguments), me, json!({"hex": hex(&p.arguments)})); }
                                if ser_args(&args) != p.arguments.to_vec() { ofail(cx.rep, json!({"why": "arguments of a history request do not re-encode to the same bytes", "input": {"hex": hex(&p.arguments)}})); }
                            } else { ofail(cx.rep, json!({"why": "arguments of a request returned by the interpreter do not decode", "input": {"hex": hex(&p.arguments)}})); }
                            if let Some(t) = cx.cmp_dec_tets(&p.tetraplets, "real (history)") {
                                let me = cx.ask("enc_tets", json!({"rows": tets_json(&t)}));
                                if me["hex"].as_str() != Some(hex(&p.tetraplets).as_str()) { cx.differ("enc_tets", "history", hex(&p.tetraplets), me, json!({"hex": hex(&p.tetraplets)})); }
                            } else { ofail(cx.rep, json!({"why": "tetraplets of a request returned by the interpreter do not decode", "input": {"hex": hex(&p.tetraplets)}})); }
                        }
                    }
                }
            }
            // call results handed to the interpreter
            if !st.results.is_empty() {
                let ser = encode_results(&st.results);
                if seen.insert(fnv(&hex(&ser)) ^ 0x7272, ()).is_none() {
                    cx.rep.case(&format!("hist-res|{}", fnv(&hex(&ser))), true, || json!({"history_results": st.results.len()}));
                    cx.rep.stat("history_result_maps");
                    match cx.cmp_dec_results(&ser, "history") {
                        Some(back) if results_json_sorted(&back) == results_json_sorted(&st.results) => {}
                        _ => ofail(cx.rep, json!({"why": "call results of a history do not decode to what was encoded", "input": {"hex": hex(&ser)}})),
                    }
                }
            }
        }
    }
}

/// deterministic replays of the two known defects (see known_findings.json) plus their neighbours that must behave
fn section_known(cx: &mut Cx) {
    // (1) a codec number beyond u32 whose low 32 bits are the msgpack codec
    for (tag, beyond) in [(vec![0x81u8, 0x84, 0x80, 0x80, 0x10], true), (vec![0x81, 0x84, 0x80, 0x80, 0x0f], false), (vec![0x80, 0x84], false)] {
        let mut d = tag.clone(); d.push(0x80);
        cx.rep.case(&format!("known-retag|{}", hex(&d)), true, || json!({"known_scenario": "retag", "hex": hex(&d)}));
        let r = cx.cmp_dec_requests(&d, "known scenario");
        let s = cx.cmp_dec_results(&d, "known scenario");
        if r.is_some() || s.is_some() {
            let mut f = json!({"why": "an empty map tagged with a codec number other than the msgpack codec was decoded instead of rejected", "input": {"hex": hex(&d), "tag": hex(&tag)}});
            if beyond { f["finding_key"] = json!("multiformat-codec-varint-beyond-u32-truncated"); }
            ofail(cx.rep, f);
        }
    }
    // (2) the serde_json RawValue token as the first key of an argument object
    for args in [json!([{"$serde_json::private::RawValue": "[1,2]"}]), json!([{"$serde_json::private::RawValue": 1}]), json!([{"#a": 1, "$serde_json::private::RawValue": "x"}]), json!([{"$serde_json::private::RawValue ": "[1,2]"}])] {
        let args: Vec<Value> = args.as_array().unwrap().clone();
        let a = ser_args(&args);
        cx.rep.case(&format!("known-args|{}", hex(&a)), true, || json!({"known_scenario": "arguments", "arguments": args}));
        let host = cx.cmp_dec_args(&a, "known scenario");
        if host.as_ref() != Some(&args) {
            let mut f = json!({"why": "call arguments do not decode (host reader, Vec<serde_json::Value>) to what was encoded", "input": {"arguments": args, "hex": hex(&a)}, "decoded": host});
            if args_have_rawvalue(&args) { f["finding_key"] = json!("call-arguments-rawvalue-token-misread-by-host"); }
            ofail(cx.rep, f);
        }
    }
}

pub fn run(ctx: &mut Ctx, rep: &mut Report) {
    rep.rule = "case = one value pushed through an encoder and/or one byte string pushed through a decoder: (a) u32 varints and varint byte strings; (b) generated call-request maps (0..8 entries, ids 0/1/u32::MAX/boundaries, nested unicode JSON arguments, tetraplet lists of lists), their argument and tetraplet payloads; (c) generated call-result maps (i32 min/max codes, non-JSON / empty / 70 kB results); (d) every distinct data blob, request map and result map of simulated multi-peer histories, InterpreterData variants (lcid 0/1/max, trace prefixes), envelopes with real / empty / garbage / truncated inner bytes; (e) the same bytes re-tagged with other codecs, re-shaped (struct as array, keys by index / as bin, duplicate / missing / extra fields, wrong types, non-canonical integers, deep nesting) and byte-mutated. Every case: real decode(encode(x)) == x (oracle), model encoder bytes == real bytes, model decoder == real decoder (accept/reject, error class, value). non-trivial = a non-empty map / payload that reaches the decoder; distinct by hash of the bytes".to_string();
    let thorough = ctx.thorough;
    let mut rng = Rng::new(ctx.seed ^ 0xC27);
    let mut cx = Cx { ctx, rep };
    let tags = codec_tags(&mut rng, if thorough { 200 } else { 24 });
    let t0 = std::time::Instant::now();
    let lap = |what: &str| eprintln!("[c27] {what} done at {:.1}s", t0.elapsed().as_secs_f64());
    section_known(&mut cx);
    section_varint(&mut cx, &mut rng, if thorough { 6000 } else { 150 });
    lap("varint");
    section_depth(&mut cx);
    section_deep_arguments(&mut cx);
    lap("depth");
    section_requests(&mut cx, &mut rng, if thorough { 900 } else { 36 }, if thorough { 24 } else { 8 }, &tags);
    lap("requests");
    section_results(&mut cx, &mut rng, if thorough { 900 } else { 36 }, if thorough { 24 } else { 8 }, &tags);
    lap("results");
    // a default envelope and the empty data
    let default_env = InterpreterDataEnvelope::new(semver::Version::parse("0.64.1-rc.1+b.07").unwrap()).serialize().unwrap();
    check_data_blob(&mut cx, &mut rng, &default_env, "default envelope", true, ENV_SHAPES.len() * 3);
    let _: Option<Versions> = None;
    lap("default envelope");
    section_histories(&mut cx, &mut rng, if thorough { 800 } else { 24 }, if thorough { 300 } else { 12 });
    lap("histories");
    cx.rep.stat_n("unmodelled_inputs", cx.rep.unmodelled);
}
