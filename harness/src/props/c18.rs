//! C18 — xor catches exactly the catchable failures and reports them faithfully.
//!
//! Every generated instruction F (failing catchably, failing uncatchably, succeeding or waiting) is placed
//! into a random context K and run through the real `air::execute_air` in four variants:
//!   baseline  `F` alone (after its setup)                      -> what kind of result F has on its own
//!   uncaught  `K[F]`                                           -> (ret_code, error_message) of the run
//!   caught    `K[(xor F (call me ("report" "err") [:error: %last_error%]))]` -> arguments the host receives
//!   pre       `K[(call me ("report" "pre") [:error: %last_error%])]`        -> the two error values before F
//! Direct oracle (independent of the Lean model): the caught `:error:` carries exactly the uncaught code and
//! message (and instruction text, and peer id for calls); `%last_error%` follows the documented rules;
//! succeeding / waiting left branches never run the right branch; uncatchable failures end the run with
//! their 20000-range code.  Every run of every variant is also shipped to the model (`c18_exec`).
use crate::gen_codes as codes;
use crate::host::*;
use crate::props::execcorr::{compare_exec_projected, exec_request};
use crate::props::hist::step_json;
use crate::sim::*;
use crate::util::*;
use crate::Ctx;
use air_interpreter_interface::{CallResults, CallServiceResult};
use serde_json::{json, Value};

/// what the host's services answer (a pure function of service id / function name)
#[derive(Clone, Debug, Default)]
pub struct Svc { pub vals: Vec<Value>, pub errs: Vec<(i32, String)> }

impl Svc {
    fn val(&mut self, v: Value) -> String { if let Some(i) = self.vals.iter().position(|x| *x == v) { return format!("k{i}"); } self.vals.push(v); format!("k{}", self.vals.len() - 1) }
    fn err(&mut self, code: i32, msg: &str) -> String { self.errs.push((code, msg.to_string())); format!("e{}", self.errs.len() - 1) }
    /// `None` = the host never answers (pending local call)
    fn answer(&self, svc: &str, func: &str, _args: &[Value]) -> Option<CallServiceResult> {
        let idx = |f: &str| f.get(1..).and_then(|s| s.parse::<usize>().ok());
        match svc {
            "val" => idx(func).and_then(|i| self.vals.get(i)).map(|v| CallServiceResult::ok(v)),
            "err" => idx(func).and_then(|i| self.errs.get(i)).map(|(c, m)| CallServiceResult { ret_code: *c, result: m.clone() }),
            "pend" => None,
            // ret_code 0 with a body that is not JSON: the interpreter turns it into a service failure itself
            "raw" => Some(CallServiceResult { ret_code: 0, result: format!("not json <{func}") }),
            _ => Some(CallServiceResult::ok(&json!(format!("{svc}.{func}")))),
        }
    }
    fn to_json(&self) -> Value { json!({"vals": self.vals, "errs": self.errs}) }
    fn from_json(v: &Value) -> Svc {
        Svc { vals: v["vals"].as_array().cloned().unwrap_or_default(),
              errs: v["errs"].as_array().map(|a| a.iter().map(|e| (e[0].as_i64().unwrap_or(0) as i32, e[1].as_str().unwrap_or("").to_string())).collect()).unwrap_or_default() }
    }
}

/// one script driven to quiescence on the current (= init) peer
pub struct Driven { pub net: Net, pub reports: Vec<Vec<Value>>, pub canary: bool, pub code: i64, pub msg: String, pub next_peers: Vec<String> }

pub fn drive(air: &str, peers: &[Peer], svc: &Svc) -> Driven {
    let mut net = Net::new(air, peers, "c18");
    let (mut reports, mut canary, mut code, mut msg, mut next_peers) = (vec![], false, 0, String::new(), vec![]);
    let mut results = CallResults::new();
    for step in 0..32 {
        net.run_peer(0, &[], results, format!("run{step}"));
        results = CallResults::new();
        let st = net.log.last().unwrap();
        code = st.outcome.ret_code; msg = st.outcome.error_message.clone();
        for p in &st.outcome.next_peer_pks { if !next_peers.contains(p) { next_peers.push(p.clone()); } }
        let reqs = decode_requests(&st.outcome.call_requests).unwrap_or_default();
        let mut ids: Vec<&u32> = reqs.keys().collect(); ids.sort();
        for id in ids {
            let r = &reqs[id];
            let args = decode_args(r);
            if r.service_id == "report" && r.function_name == "err" { reports.push(args.clone()); }
            if r.service_id == "canary" { canary = true; }
            if st.outcome.ret_code == 0 { if let Some(a) = svc.answer(&r.service_id, &r.function_name, &args) { results.insert(id.to_string(), a); } }
        }
        if st.outcome.ret_code != 0 || results.is_empty() { break; }
    }
    Driven { net, reports, canary, code, msg, next_peers }
}

/// arguments of the `("report" "pre")` probe
fn pre_report(d: &Driven) -> Option<Vec<Value>> {
    for st in &d.net.log {
        let reqs = decode_requests(&st.outcome.call_requests).unwrap_or_default();
        let mut ids: Vec<&u32> = reqs.keys().collect(); ids.sort();
        for id in ids { let r = &reqs[id]; if r.service_id == "report" && r.function_name == "pre" { return Some(decode_args(r)); } }
    }
    None
}

#[derive(Clone, Debug, PartialEq)]
pub enum Expect { Catch(&'static str), Ok, Uncatchable(&'static str) }

/// an instruction to be placed in the hole
#[derive(Clone, Debug)]
pub struct FKind {
    pub name: String,
    /// `(name, value)` scalars defined before everything else by calls to the `val` service
    pub setup: Vec<(String, Value)>,
    pub text: String,
    /// `Display` text of the innermost failing instruction (the `instruction` field), if predictable
    pub inner: Option<String>,
    pub expect: Expect,
    /// the failing instruction is a call: `:error:` carries `peer_id`
    pub is_call: bool,
    /// uses the scalar `w` that only a call to another peer would define (joinable kinds)
    pub needs_w: bool,
    /// `fail :error:`: leaves `:error:` as it is when it holds an error
    pub is_fail_error: bool,
}

impl FKind {
    /// what the instruction does depends on the error values left by earlier failures
    fn state_dependent(&self) -> bool { self.text.contains("(fail :error:)") || self.text.contains("(fail %last_error%)") }
    /// values with a fractional part: outside the model (its JSON values have integers only)
    fn has_float(&self) -> bool { self.setup.iter().any(|(_, v)| v.is_f64()) || self.text.contains("1.5") }
}

const MSGS: &[&str] = &["boom", "with \"double\" quotes", "üñí ☃ \u{1F600}", "", "it's", "{\"json\":1}", "line\nbreak\ttab", "back\\slash", "null"];
const RET_CODES: &[i32] = &[1, -1, 7, 255, i32::MAX, i32::MIN, 10000, -32, 2];

fn me_text(rng: &mut Rng, me: &str) -> String { if rng.chance(1, 4) { "%init_peer_id%".into() } else { format!("\"{me}\"") } }

/// a catchably failing instruction
fn gen_failing(rng: &mut Rng, svc: &mut Svc, me: &str, n: usize) -> FKind {
    let arr = json!([1, 2]); let obj = json!({"a": 1, "b": [1, 2], "s": "str"});
    let mk = |name: &str, setup: Vec<(String, Value)>, text: String, inner: String, variant: &'static str, is_call: bool| FKind {
        name: name.into(), setup, text, inner: Some(inner), expect: Expect::Catch(variant), is_call, needs_w: false, is_fail_error: false };
    // operand positions for lens / type errors: the failing instruction's (text, inner, is_call)
    let operand_forms = |rng: &mut Rng, operand: &str, me_t: &str| -> (String, String, bool) {
        match rng.below(4) {
            0 => (format!("(ap {operand} apo{n})"), format!("ap {operand} apo{n}"), false),
            1 => (format!("(call {me_t} (\"ok\" \"lens\") [1 {operand}])"), format!("call {me_t} (\"ok\" \"lens\") [1 {operand}] "), true),
            2 => (format!("(match {operand} 1 (call {me_t} (\"canary\" \"body\") []))"), format!("match {operand} 1"), false),
            _ => (format!("(mismatch 1 {operand} (call {me_t} (\"canary\" \"body\") []))"), format!("mismatch 1 {operand}"), false),
        }
    };
    let me_t = me_text(rng, me);
    match rng.below(14) {
        0 | 1 => {
            let (code, msg) = (*rng.pick(RET_CODES), *rng.pick(MSGS));
            let f = svc.err(code, msg);
            let out = if rng.chance(1, 2) { format!("so{n}") } else { String::new() };
            let args = *rng.pick(&["", "\"a\" 1 true []", "%init_peer_id% %timestamp%", "-5"]);
            let inner = format!("call {me_t} (\"err\" \"{f}\") [{args}] {out}");
            mk("service_error", vec![], format!("({})", inner.trim_end()), inner, "LocalServiceError", true)
        }
        2 => {
            let code = *rng.pick(&[7i64, 1, -3, i64::MAX, i64::MIN, 10006, 2147483648, 42]);
            let msg = *rng.pick(&["msg", "", "it's", "üñí ☃", "a b  c", "{\\n}"]);
            let inner = format!("fail {code} \"{msg}\"");
            mk("fail_literal", vec![], format!("({inner})"), inner, "UserError", false)
        }
        3 => {
            let o = match rng.below(4) {
                0 => json!({"error_code": 42, "message": "custom"}),
                1 => json!({"error_code": -1, "message": "", "extra": [1, {"x": null}]}),
                2 => json!({"error_code": i64::MAX, "message": "üñí \"q\"", "instruction": "forged", "peer_id": "forged"}),
                _ => json!({"message": "m", "error_code": 10001}),
            };
            if rng.chance(1, 3) {
                let inner = format!("fail wr{n}.$.inner");
                mk("fail_scalar_lens", vec![(format!("wr{n}"), json!({"inner": o}))], format!("({inner})"), inner, "UserError", false)
            } else {
                let inner = format!("fail eo{n}");
                mk("fail_scalar", vec![(format!("eo{n}"), o)], format!("({inner})"), inner, "UserError", false)
            }
        }
        4 => {
            let o = match rng.below(8) {
                0 => json!("not an object"), 1 => json!([1]), 2 => json!({"message": "no code"}), 3 => json!({"error_code": 5}),
                4 => json!({"error_code": 0, "message": "zero"}), 5 => json!({"error_code": "5", "message": "m"}),
                6 => json!({"error_code": 5, "message": 7}), _ => json!({"error_code": null, "message": "m"}),
            };
            let inner = format!("fail bo{n}");
            mk("fail_scalar_invalid", vec![(format!("bo{n}"), o)], format!("({inner})"), inner, "InvalidErrorObjectError", false)
        }
        5 => {
            let mut k = mk("fail_error", vec![], "(fail :error:)".into(), "fail :error:".into(), "InvalidErrorObjectError", false);
            k.is_fail_error = true; k
        }
        6 => mk("fail_last_error", vec![], "(fail %last_error%)".into(), "fail %last_error%".into(), "InvalidErrorObjectError", false),
        7 => {
            // match on unequal / mismatch on equal operands; the body must never run
            let body = format!("(call {me_t} (\"canary\" \"body\") [])");
            let pairs: &[(&str, &str, bool)] = &[("1", "2", false), ("\"a\"", "\"b\"", false), ("1", "\"1\"", false), ("true", "false", false), ("[]", "true", false),
                ("%init_peer_id%", "\"x\"", false), ("1", "1", true), ("\"a\"", "\"a\"", true), ("[]", "[]", true), ("%ttl%", "%ttl%", true)];
            let mut setup = vec![];
            let (a, b, equal) = if rng.chance(1, 3) {
                let (x, y) = (format!("ma{n}"), format!("mb{n}"));
                let which = rng.below(5);
                let (va, vb, eq) = match which {
                    0 => (obj.clone(), obj.clone(), true), 1 => (obj.clone(), arr.clone(), false), 2 => (json!(1), json!("1"), false),
                    3 => (json!({"k": [1, {"z": null}]}), json!({"k": [1, {"z": null}]}), true), _ => (json!(null), json!(false), false) };
                setup.push((x.clone(), va)); setup.push((y.clone(), vb));
                if rng.chance(1, 2) && which == 0 { (format!("{x}.$.b"), format!("{y}.$.b"), true) } else { (x, y, eq) }
            } else { let p = rng.pick(pairs); (p.0.to_string(), p.1.to_string(), p.2) };
            if equal { let inner = format!("mismatch {a} {b}"); mk("mismatch_equal", setup, format!("({inner} {body})"), inner, "MismatchValuesEqual", false) }
            else { let inner = format!("match {a} {b}"); mk("match_unequal", setup, format!("({inner} {body})"), inner, "MatchValuesNotEqual", false) }
        }
        8 | 9 => {
            // every LambdaError reachable from scalars
            let (x, idx) = (format!("lx{n}"), format!("li{n}"));
            let (setup, operand, label): (Vec<(String, Value)>, String, &str) = match rng.below(12) {
                0 => (vec![(x.clone(), arr.clone())], format!("{x}.$.a"), "FieldAccessorNotMatchValue"),
                1 => (vec![(x.clone(), obj.clone())], format!("{x}.$.[0]"), "ArrayAccessorNotMatchValue"),
                2 => (vec![(x.clone(), arr.clone())], format!("{x}.$.[9]"), "ValueNotContainSuchArrayIdx"),
                3 => (vec![(x.clone(), obj.clone())], format!("{x}.$.zz"), "ValueNotContainSuchField"),
                4 => (vec![(x.clone(), obj.clone())], format!("{x}.$.b.[5]"), "ValueNotContainSuchArrayIdx(nested)"),
                5 => (vec![(x.clone(), arr.clone()), (idx.clone(), json!(-1))], format!("{x}.$.[{idx}]"), "IndexAccessNotU32(negative)"),
                6 => (vec![(x.clone(), arr.clone()), (idx.clone(), json!(4294967296u64))], format!("{x}.$.[{idx}]"), "IndexAccessNotU32(2^32)"),
                7 => (vec![(x.clone(), arr.clone()), (idx.clone(), json!(1.5))], format!("{x}.$.[{idx}]"), "IndexAccessNotU32(float)"),
                8 => (vec![(x.clone(), arr.clone()), (idx.clone(), rng.pick(&[json!(true), json!(null), json!([]), json!({})]).clone())], format!("{x}.$.[{idx}]"), "ScalarAccessorHasInvalidType"),
                9 => (vec![(x.clone(), arr.clone()), (idx.clone(), json!("a"))], format!("{x}.$.[{idx}]"), "FieldAccessorNotMatchValue(by scalar)"),
                10 => (vec![(x.clone(), obj.clone()), (idx.clone(), json!(0))], format!("{x}.$.[{idx}]"), "ArrayAccessorNotMatchValue(by scalar)"),
                _ => (vec![(x.clone(), json!("str"))], format!("{x}.$.[0]"), "ArrayAccessorNotMatchValue(string)"),
            };
            let (text, inner, is_call) = operand_forms(rng, &operand, &me_t);
            mk(&format!("lens:{label}"), setup, text, inner, "LambdaApplierError", is_call)
        }
        10 => {
            let x = format!("fx{n}");
            let v = rng.pick(&[obj.clone(), json!("str"), json!(5), json!(true), json!(null)]).clone();
            let (setup, operand) = if rng.chance(1, 3) { (vec![(x.clone(), obj.clone())], format!("{x}.$.a")) } else { (vec![(x.clone(), v)], x.clone()) };
            let inner = format!("fold {operand} fi{n}");
            mk("fold_non_array", setup, format!("({inner} (call {me_t} (\"canary\" \"body\") []))"), inner, "FoldIteratesOverNonArray", false)
        }
        11 => {
            let x = format!("tx{n}");
            let v = rng.pick(&[obj.clone(), arr.clone(), json!(5), json!(true), json!(null)]).clone();
            let (setup, operand) = if rng.chance(1, 4) { (vec![(x.clone(), obj.clone())], format!("{x}.$.a")) } else { (vec![(x.clone(), v)], x.clone()) };
            let inner = match rng.below(3) { 0 => format!("call {operand} (\"s\" \"f\") [] "), 1 => format!("call {me_t} ({operand} \"f\") [] "), _ => format!("call {me_t} (\"s\" {operand}) [1] ") };
            mk("non_string_triplet", setup, format!("({})", inner.trim_end()), inner, "NonStringValueInTripletResolution", true)
        }
        12 => {
            let x = format!("nx{n}");
            let v = rng.pick(&[obj.clone(), json!("str"), json!(5), json!(null)]).clone();
            let (text, inner, is_call) = operand_forms(rng, &format!("{x}.length"), &me_t);
            mk("length_of_non_array", vec![(x, v)], text, inner, "LengthFunctorAppliedToNotArray", is_call)
        }
        _ => {
            // a scalar cleared by `new` and used before it is set; the failure bubbles through the `new`
            let x = format!("un{n}");
            let setup = if rng.chance(1, 2) { vec![(x.clone(), arr.clone())] } else { vec![] };
            let (text, inner, is_call) = operand_forms(rng, &x, &me_t);
            mk("uninitialized_after_new", setup, format!("(new {x} {text})"), inner, "VariableWasNotInitializedAfterNew", is_call)
        }
    }
}

/// catchable failures on (canon) streams: outside the currently modelled fragment, checked by the direct oracle
fn gen_failing_stream(rng: &mut Rng, me: &str, n: usize) -> FKind {
    let me_t = format!("\"{me}\"");
    let (text, inner) = match rng.below(3) {
        0 => (format!("(new $s{n} (seq (canon {me_t} $s{n} #$c{n}) (ap #$c{n}.$.[0] so{n})))"), format!("ap #$c{n}.$.[0] so{n}")),
        1 => (format!("(new $s{n} (seq (seq (ap 1 $s{n}) (canon {me_t} $s{n} #$c{n})) (call {me_t} (\"ok\" \"f\") [#$c{n}.$.[3]])))"), format!("call {me_t} (\"ok\" \"f\") [#$c{n}.$.[3]] ")),
        _ => (format!("(new $s{n} (seq (seq (ap \"v\" $s{n}) (canon {me_t} $s{n} #$c{n})) (fail #$c{n}.$.[0])))"), format!("fail #$c{n}.$.[0]")),
    };
    let variant = if text.contains("(fail #") { "InvalidErrorObjectError" } else { "LambdaApplierError" };
    FKind { name: "stream_failure".into(), setup: vec![], is_call: inner.starts_with("call"), text, inner: Some(inner), expect: Expect::Catch(variant), needs_w: false, is_fail_error: false }
}

/// wrap a failing instruction into frames it has to bubble through before it reaches the xor
fn bubble(rng: &mut Rng, mut k: FKind, me: &str, n: usize) -> FKind {
    let depth = rng.below(3);
    for d in 0..depth {
        let t = k.text.clone();
        k.text = match rng.below(5) {
            0 => format!("(seq {t} (call \"{me}\" (\"canary\" \"after\") []))"),
            1 => format!("(seq (null) {t})"),
            2 => format!("(new bz{n}x{d} {t})"),
            3 => format!("(match 1 1 {t})"),
            _ => format!("(mismatch 1 2 {t})"),
        };
        k.name = format!("{}+bubble", k.name.trim_end_matches("+bubble"));
    }
    k
}

/// instructions that succeed or merely wait
fn gen_non_failing(rng: &mut Rng, me: &str, other: &str, n: usize) -> FKind { non_failing(rng.below(N_NON_FAILING), me, other, n) }
const N_NON_FAILING: usize = 13;
fn non_failing(which: usize, me: &str, other: &str, n: usize) -> FKind {
    let mk = |name: &str, text: String, needs_w: bool| FKind { name: name.into(), setup: vec![], text, inner: None, expect: Expect::Ok, is_call: false, needs_w, is_fail_error: false };
    match which {
        0 => mk("ok:null", "(null)".into(), false),
        1 => mk("ok:local_call", format!("(call \"{me}\" (\"ok\" \"f\") [] okr{n})"), false),
        2 => mk("wait:remote_call", format!("(call \"{other}\" (\"ok\" \"f\") [])"), false),
        3 => mk("wait:pending_local_call", format!("(call \"{me}\" (\"pend\" \"f\") [1])"), false),
        4 => mk("wait:never", "(never)".into(), false),
        5 => mk("ok:match_equal", "(match 1 1 (null))".into(), false),
        6 => mk("ok:mismatch_unequal", "(mismatch 1 1.5 (null))".into(), false),
        7 => mk("ok:empty_fold", format!("(fold [] ei{n} (call \"{me}\" (\"canary\" \"body\") []))"), false),
        8 => mk("ok:ap", format!("(ap \"v\" okv{n})"), false),
        9 => mk("wait:joinable_call_argument", format!("(call \"{me}\" (\"ok\" \"g\") [w])"), true),
        10 => mk("wait:joinable_ap_lens", format!("(ap w.$.a jy{n})"), true),
        11 => mk("wait:joinable_match", format!("(match w 1 (call \"{me}\" (\"canary\" \"body\") []))"), true),
        _ => mk("wait:joinable_fold", format!("(fold w ji{n} (call \"{me}\" (\"canary\" \"body\") []))"), true),
    }
}

/// uncatchable failures
fn gen_uncatchable(rng: &mut Rng, me: &str, n: usize) -> FKind { uncatchable(rng.below(N_UNCATCHABLE), me, n) }
const N_UNCATCHABLE: usize = 4;
fn uncatchable(which: usize, me: &str, n: usize) -> FKind {
    let mk = |name: &str, setup: Vec<(String, Value)>, text: String, v: &'static str| FKind { name: name.into(), setup, text, inner: None, expect: Expect::Uncatchable(v), is_call: false, needs_w: false, is_fail_error: false };
    match which {
        0 => mk("uncatchable:shadowing_by_call", vec![], format!("(seq (call \"{me}\" (\"ok\" \"f\") [] dup{n}) (call \"{me}\" (\"ok\" \"f\") [] dup{n}))"), "ShadowingIsNotAllowed"),
        1 => mk("uncatchable:shadowing_by_ap", vec![], format!("(seq (ap 1 dup{n}) (ap 2 dup{n}))"), "ShadowingIsNotAllowed"),
        2 => mk("uncatchable:shadowing_of_setup_scalar", vec![(format!("dup{n}"), json!(1))], format!("(ap 2 dup{n})"), "ShadowingIsNotAllowed"),
        _ => mk("uncatchable:iterable_shadowing", vec![(format!("ia{n}"), json!([1, 2]))], format!("(fold ia{n} itx{n} (call \"{me}\" (\"ok\" \"f\") [] itx{n}))"), "IterableShadowing"),
    }
}

/// one frame of a context
#[derive(Clone, Debug)]
pub enum Frame {
    SeqAfterCall, SeqAfterAp, SeqBefore, ParLeftLocal, ParRightLocal, ParLeftRemote, ParRightRemote, FoldSeq(usize), FoldPar(usize), NewScalar, NewStream,
    MatchBody, MismatchBody, XorRightFail, XorRightService(String), XorRightMatch, AfterCaughtFail, AfterCaughtService(String),
    /// contexts in which an earlier catchable failure was swallowed by a par without an xor in between (known finding)
    StaleParLeftFailed, StaleAfterPar, StaleAfterParRight,
}

impl Frame {
    fn wrap(&self, h: &str, me: &str, other: &str, d: usize) -> String {
        match self {
            Frame::SeqAfterCall => format!("(seq (call \"{me}\" (\"ok\" \"pre{d}\") [] prec{d}) {h})"),
            Frame::SeqAfterAp => format!("(seq (ap {d} prea{d}) {h})"),
            Frame::SeqBefore => format!("(seq {h} (call \"{me}\" (\"ok\" \"post{d}\") []))"),
            Frame::ParLeftLocal => format!("(par {h} (call \"{me}\" (\"ok\" \"sib{d}\") []))"),
            Frame::ParRightLocal => format!("(par (call \"{me}\" (\"ok\" \"sib{d}\") []) {h})"),
            Frame::ParLeftRemote => format!("(par {h} (call \"{other}\" (\"ok\" \"sib{d}\") []))"),
            Frame::ParRightRemote => format!("(par (call \"{other}\" (\"ok\" \"sib{d}\") []) {h})"),
            Frame::FoldSeq(len) => format!("(fold {} kit{d} (seq {h} (next kit{d})))", if *len == 2 { "farr" } else { "fone" }),
            Frame::FoldPar(len) => format!("(fold {} kit{d} (par {h} (next kit{d})))", if *len == 2 { "farr" } else { "fone" }),
            Frame::NewScalar => format!("(new knv{d} {h})"),
            Frame::NewStream => format!("(new $kns{d} {h})"),
            Frame::MatchBody => format!("(match \"k\" \"k\" {h})"),
            Frame::MismatchBody => format!("(mismatch 1 2 {h})"),
            Frame::XorRightFail => format!("(xor (fail 9{d} \"first {d}\") {h})"),
            Frame::XorRightService(f) => format!("(xor (call \"{me}\" (\"err\" \"{f}\") []) {h})"),
            Frame::XorRightMatch => format!("(xor (match 1 2 (null)) {h})"),
            Frame::AfterCaughtFail => format!("(seq (xor (fail 5{d} \"earlier {d}\") (null)) {h})"),
            Frame::AfterCaughtService(f) => format!("(seq (xor (call \"{me}\" (\"err\" \"{f}\") []) (ap 1 kac{d})) {h})"),
            Frame::StaleParLeftFailed => format!("(par (fail 3{d} \"sibling {d}\") {h})"),
            Frame::StaleAfterPar => format!("(seq (par (fail 3{d} \"swallowed {d}\") (null)) {h})"),
            Frame::StaleAfterParRight => format!("(seq (par (null) (fail 3{d} \"swallowed {d}\")) {h})"),
        }
    }
    fn name(&self) -> &'static str {
        match self {
            Frame::SeqAfterCall => "seq_after_call", Frame::SeqAfterAp => "seq_after_ap", Frame::SeqBefore => "seq_before", Frame::ParLeftLocal => "par_left", Frame::ParRightLocal => "par_right",
            Frame::ParLeftRemote => "par_left_remote_sibling", Frame::ParRightRemote => "par_right_remote_sibling", Frame::FoldSeq(_) => "fold_seq", Frame::FoldPar(_) => "fold_par",
            Frame::NewScalar => "new_scalar", Frame::NewStream => "new_stream", Frame::MatchBody => "match_body", Frame::MismatchBody => "mismatch_body",
            Frame::XorRightFail => "xor_right_after_fail", Frame::XorRightService(_) => "xor_right_after_service_error", Frame::XorRightMatch => "xor_right_after_match",
            Frame::AfterCaughtFail => "after_caught_fail", Frame::AfterCaughtService(_) => "after_caught_service_error",
            Frame::StaleParLeftFailed => "STALE_par_left_failed", Frame::StaleAfterPar => "STALE_after_par_with_failed_left", Frame::StaleAfterParRight => "STALE_after_par_with_failed_right",
        }
    }
    /// the same frame with the par replaced by a seq that runs the hole in the same state
    fn unswallowed(&self) -> Frame {
        match self { Frame::ParLeftLocal | Frame::ParLeftRemote => Frame::SeqBefore, Frame::ParRightLocal => Frame::SeqAfterCall, Frame::ParRightRemote => Frame::SeqAfterAp,
                     Frame::FoldPar(l) => Frame::FoldSeq(*l), f => f.clone() }
    }
    fn is_par(&self) -> bool { matches!(self, Frame::ParLeftLocal | Frame::ParRightLocal | Frame::ParLeftRemote | Frame::ParRightRemote | Frame::FoldPar(_)) }
    fn fold_len(&self) -> usize { match self { Frame::FoldSeq(l) | Frame::FoldPar(l) => *l, _ => 1 } }
    fn is_fold(&self) -> bool { matches!(self, Frame::FoldSeq(_) | Frame::FoldPar(_)) }
}

/// frames listed from the outermost to the innermost
pub struct Context { pub frames: Vec<Frame> }
impl Context {
    fn fill(&self, h: &str, me: &str, other: &str) -> String {
        let mut s = h.to_string();
        for (d, f) in self.frames.iter().enumerate().rev() { s = f.wrap(&s, me, other, d); }
        s
    }
    fn name(&self) -> String { if self.frames.is_empty() { "top".into() } else { self.frames.iter().map(|f| f.name()).collect::<Vec<_>>().join(">") } }
    /// a catchable failure in the hole does not reach the top (a par swallows it)
    fn swallows(&self) -> bool { self.frames.iter().any(|f| f.is_par()) }
    /// `:error:` setting is disabled at the hole because a par swallowed an earlier failure (known finding)
    fn stale(&self) -> bool {
        let mut stale = false;
        for f in &self.frames { match f {
            Frame::StaleParLeftFailed | Frame::StaleAfterPar | Frame::StaleAfterParRight => stale = true,
            Frame::XorRightFail | Frame::XorRightService(_) | Frame::XorRightMatch | Frame::AfterCaughtFail | Frame::AfterCaughtService(_) => stale = false,
            _ => {} } }
        stale
    }
    /// the `:error:` *object* seen at the hole is the one of a failure swallowed by a par: the left branch of an
    /// enclosing xor failed while error setting was still disabled (matters to `fail :error:` only)
    fn error_object_stale(&self) -> bool {
        let (mut disabled, mut seen) = (false, false);
        for f in &self.frames { match f {
            Frame::StaleParLeftFailed | Frame::StaleAfterPar | Frame::StaleAfterParRight => disabled = true,
            Frame::XorRightFail | Frame::XorRightService(_) | Frame::XorRightMatch => { seen = disabled; disabled = false; }
            Frame::AfterCaughtFail | Frame::AfterCaughtService(_) => { seen = false; disabled = false; }
            _ => {} } }
        seen || disabled
    }
    fn stale_instructions(&self) -> Vec<String> {
        self.frames.iter().enumerate().filter_map(|(d, f)| match f { Frame::StaleParLeftFailed => Some(format!("fail 3{d} \"sibling {d}\"")), Frame::StaleAfterPar | Frame::StaleAfterParRight => Some(format!("fail 3{d} \"swallowed {d}\"")), _ => None }).collect()
    }
    fn unswallowed(&self) -> Context { Context { frames: self.frames.iter().map(|f| f.unswallowed()).collect() } }
    fn executions(&self) -> usize { self.frames.iter().map(|f| f.fold_len()).product() }
    fn in_fold(&self) -> bool { self.frames.iter().any(|f| f.is_fold()) }
}

fn gen_context(rng: &mut Rng, svc: &mut Svc, allow_stale: bool) -> Context {
    let depth = match rng.below(10) { 0 => 0, 1..=5 => 1, 6..=8 => 2, _ => 3 };
    let mut frames = vec![];
    let mut folds = 0;
    for _ in 0..depth {
        let f = match rng.below(if allow_stale { 24 } else { 21 }) {
            0 => Frame::SeqAfterCall, 1 => Frame::SeqAfterAp, 2 | 3 => Frame::SeqBefore, 4 => Frame::ParLeftLocal, 5 => Frame::ParRightLocal, 6 => Frame::ParLeftRemote, 7 => Frame::ParRightRemote,
            8 | 9 => Frame::FoldSeq(1 + rng.below(2)), 10 => Frame::FoldPar(1 + rng.below(2)), 11 => Frame::NewScalar, 12 => Frame::NewStream, 13 => Frame::MatchBody, 14 => Frame::MismatchBody,
            15 | 16 => Frame::XorRightFail, 17 => Frame::XorRightService(svc.err(*rng.pick(RET_CODES), *rng.pick(MSGS))), 18 => Frame::XorRightMatch,
            19 => Frame::AfterCaughtFail, 20 => Frame::AfterCaughtService(svc.err(*rng.pick(RET_CODES), *rng.pick(MSGS))),
            21 => Frame::StaleParLeftFailed, 22 => Frame::StaleAfterPar, _ => Frame::StaleAfterParRight,
        };
        if f.is_fold() { folds += 1; if folds > 1 { continue; } }
        frames.push(f);
    }
    Context { frames }
}

/// the whole script around a body: scalars of the setup are defined by one par tree of local calls
fn script(body: &str, setup: &[(String, String)], needs_w: bool, me: &str, other: &str) -> String {
    let mut s = body.to_string();
    if !setup.is_empty() {
        let mut tree = String::new();
        for (i, (name, func)) in setup.iter().enumerate() {
            let call = format!("(call \"{me}\" (\"val\" \"{func}\") [] {name})");
            tree = if i == 0 { call } else { format!("(par {tree} {call})") };
        }
        s = format!("(seq {tree} {s})");
    }
    if needs_w { s = format!("(par (call \"{other}\" (\"ok\" \"w\") [] w) {s})"); }
    s
}

/// everything the oracle needs to know about a case (recorded with a failure, so that a replay re-runs the oracle)
#[derive(Clone, Debug)]
struct Params { name: String, context: String, frames: Vec<String>, inner: Option<String>, expect: (String, String), is_call: bool, is_fail_error: bool, state_dependent: bool, has_float: bool,
    executions: usize, stale: bool, error_object_stale: bool,
    /// texts of the instructions whose failure a par of the context swallows
    stale_instructions: Vec<String> }
impl Params {
    fn to_json(&self) -> Value { json!({"name": self.name, "context": self.context, "frames": self.frames, "inner": self.inner, "expect": [self.expect.0, self.expect.1], "is_call": self.is_call, "is_fail_error": self.is_fail_error,
        "state_dependent": self.state_dependent, "has_float": self.has_float, "executions": self.executions, "stale": self.stale, "error_object_stale": self.error_object_stale, "stale_instructions": self.stale_instructions}) }
    fn from_json(v: &Value) -> Params {
        let s = |k: &str| v[k].as_str().unwrap_or("").to_string(); let b = |k: &str| v[k].as_bool().unwrap_or(false);
        Params { name: s("name"), context: s("context"), frames: v["frames"].as_array().map(|a| a.iter().map(|x| x.as_str().unwrap_or("").to_string()).collect()).unwrap_or_default(),
            inner: v["inner"].as_str().map(String::from), expect: (v["expect"][0].as_str().unwrap_or("").into(), v["expect"][1].as_str().unwrap_or("").into()),
            is_call: b("is_call"), is_fail_error: b("is_fail_error"), state_dependent: b("state_dependent"), has_float: b("has_float"), executions: v["executions"].as_u64().unwrap_or(1) as usize, stale: b("stale"), error_object_stale: b("error_object_stale"),
            stale_instructions: v["stale_instructions"].as_array().map(|a| a.iter().map(|x| x.as_str().unwrap_or("").to_string()).collect()).unwrap_or_default() }
    }
}

struct Case { p: Params, svc: Svc, baseline: String, uncaught: String, caught: String, pre: String, unswallowed: Option<String> }
impl Case {
    fn to_json(&self) -> Value { json!({"params": self.p.to_json(), "services": self.svc.to_json(), "baseline_script": self.baseline, "uncaught_script": self.uncaught, "caught_script": self.caught, "pre_script": self.pre, "unswallowed_script": self.unswallowed}) }
    fn from_json(v: &Value) -> Option<Case> {
        Some(Case { p: Params::from_json(&v["params"]), svc: Svc::from_json(&v["services"]), baseline: v["baseline_script"].as_str()?.into(), uncaught: v["uncaught_script"].as_str()?.into(), caught: v["caught_script"].as_str()?.into(),
                    pre: v["pre_script"].as_str()?.into(), unswallowed: v["unswallowed_script"].as_str().map(String::from) })
    }
}

const REPORT: &str = "[:error: %last_error%]";

fn build_case(kind: FKind, ctx: Context, mut svc: Svc, me: &str, other: &str) -> Case {
    let mut setup: Vec<(String, String)> = kind.setup.iter().map(|(n, v)| (n.clone(), svc.val(v.clone()))).collect();
    if ctx.in_fold() { setup.push(("farr".into(), svc.val(json!(["x", "y"])))); setup.push(("fone".into(), svc.val(json!([0])))); }
    let catcher = match kind.expect { Expect::Catch(_) => format!("(call \"{me}\" (\"report\" \"err\") {REPORT})"), _ => format!("(call \"{me}\" (\"canary\" \"right\") {REPORT})") };
    let f = &kind.text;
    let baseline = script(f, &setup, kind.needs_w, me, other);
    let uncaught = script(&ctx.fill(f, me, other), &setup, kind.needs_w, me, other);
    let caught = script(&ctx.fill(&format!("(xor {f} {catcher})"), me, other), &setup, kind.needs_w, me, other);
    let pre = script(&ctx.fill(&format!("(call \"{me}\" (\"report\" \"pre\") {REPORT})"), me, other), &setup, kind.needs_w, me, other);
    let unswallowed = if ctx.swallows() { Some(script(&ctx.unswallowed().fill(f, me, other), &setup, kind.needs_w, me, other)) } else { None };
    let expect = match &kind.expect { Expect::Catch(v) => ("catch".to_string(), v.to_string()), Expect::Ok => ("ok".to_string(), String::new()), Expect::Uncatchable(v) => ("uncatchable".to_string(), v.to_string()) };
    let p = Params { name: kind.name.clone(), context: ctx.name(), frames: ctx.frames.iter().map(|f| f.name().to_string()).collect(), inner: kind.inner.clone(), expect, is_call: kind.is_call, is_fail_error: kind.is_fail_error,
        state_dependent: kind.state_dependent(), has_float: kind.has_float(), executions: ctx.executions(), stale: ctx.stale(), error_object_stale: ctx.error_object_stale(), stale_instructions: ctx.stale_instructions() };
    Case { p, svc, baseline, uncaught, caught, pre, unswallowed }
}

fn is_catchable(c: i64) -> bool { (10000..=19999).contains(&c) }
fn is_uncatchable(c: i64) -> bool { (20000..=29999).contains(&c) }

/// the object a `fail` threw, recovered from the uncaught message
fn thrown_object(msg: &str) -> Option<Value> {
    let body = msg.strip_prefix("fail with '")?.strip_suffix("' is used without corresponding xor")?;
    serde_json::from_str(body).ok()
}

fn field_set(v: &Value) -> Vec<String> { let mut k: Vec<String> = v.as_object().map(|o| o.keys().cloned().collect()).unwrap_or_default(); k.sort(); k }

/// The property on the real outputs.  Returns (reason, explained-by-the-known-finding).
fn oracle(case: &Case, baseline: &Driven, uncaught: &Driven, caught: &Driven, pre: &Driven, unswallowed: Option<&Driven>, me: &str) -> Vec<(String, bool)> {
    let mut bad: Vec<(String, bool)> = vec![];
    let k = &case.p;
    // 0. the generator's intention, on the instruction alone
    let expect = match k.expect.0.as_str() { "catch" => Expect::Catch(codes::CATCHABLE_VARIANTS.iter().find(|v| **v == k.expect.1).copied().unwrap_or("?")), "uncatchable" => Expect::Uncatchable(codes::UNCATCHABLE_VARIANTS.iter().find(|v| **v == k.expect.1).copied().unwrap_or("?")), _ => Expect::Ok };
    match &expect {
        Expect::Catch(v) => if baseline.code != codes::catchable(v) { bad.push((format!("{} alone: expected the catchable error {v} ({}), the run returned {} {:?}", k.name, codes::catchable(v), baseline.code, baseline.msg), false)); },
        Expect::Ok => if baseline.code != 0 { bad.push((format!("{} alone: expected success / waiting, the run returned {} {:?}", k.name, baseline.code, baseline.msg), false)); },
        Expect::Uncatchable(v) => if baseline.code != codes::uncatchable(v) { bad.push((format!("{} alone: expected the uncatchable error {v} ({}), the run returned {} {:?}", k.name, codes::uncatchable(v), baseline.code, baseline.msg), false)); },
    }
    if baseline.canary || uncaught.canary { bad.push(("a body that must not run (canary) was executed in the uncaught variant".into(), false)); }
    // 1. the reference result of "the same failure when not caught"
    let (ref_code, ref_msg, ref_src) = if is_catchable(uncaught.code) || is_uncatchable(uncaught.code) { (uncaught.code, uncaught.msg.clone(), "uncaught run in the same context") }
        else if let (0, Some(u)) = (uncaught.code, unswallowed) { (u.code, u.msg.clone(), "uncaught run in the same context with its par frames turned into seq (the par swallows the failure)") }
        else { (uncaught.code, uncaught.msg.clone(), "uncaught run in the same context") };
    if !(ref_code == 0 || is_catchable(ref_code) || is_uncatchable(ref_code)) { bad.push((format!("unexpected return code {ref_code} of the uncaught variant: {ref_msg:?}"), false)); return bad; }
    let stale = k.stale || (k.is_fail_error && k.error_object_stale);
    let pre_args = pre_report(pre);
    if is_catchable(ref_code) {
        // 2. caught: the right branch ran, once per execution of the hole, and the xor made the failure disappear
        let want = k.executions;
        if caught.reports.len() != want { bad.push((format!("left branch failed with {ref_code}: expected {want} execution(s) of the right branch, observed {}", caught.reports.len()), false)); }
        if caught.code != 0 { bad.push((format!("the failure {ref_code} was caught but the run returned {} {:?}", caught.code, caught.msg), false)); }
        if caught.canary { bad.push(("a body that must not run (canary) was executed in the caught variant".into(), false)); }
        for (i, args) in caught.reports.iter().enumerate() {
            // later executions of a state-dependent instruction (in a fold) start from the error values left by the first one: no reference run exists for them
            if i > 0 && k.state_dependent { break; }
            let (err, last) = (args.get(0).cloned().unwrap_or(Value::Null), args.get(1).cloned().unwrap_or(Value::Null));
            let pre_err = pre_args.as_ref().and_then(|a| a.get(0)).cloned().unwrap_or(Value::Null);
            let pre_last = pre_args.as_ref().and_then(|a| a.get(1)).cloned().unwrap_or(Value::Null);
            // a deviation is explained by the known finding iff the context is a stale one and the value is the one from before the failure
            let from_swallowed = |v: &Value| v["instruction"].as_str().map(|t| k.stale_instructions.iter().any(|x| x == t)).unwrap_or(false);
            let known_err = stale && (err == pre_err || from_swallowed(&err));
            let known_last = stale && (last == pre_last || from_swallowed(&last));
            let fail_error_passthrough = k.is_fail_error && pre_err["error_code"].as_i64().unwrap_or(0) != 0;
            // :error:
            if err["error_code"].as_i64() != Some(ref_code) { bad.push((format!("report {i}: :error:.error_code = {} but the {ref_src} returned {ref_code}", err["error_code"]), known_err)); }
            if err["message"].as_str() != Some(ref_msg.as_str()) { bad.push((format!("report {i}: :error:.message = {} but the {ref_src} reported {:?}", err["message"], ref_msg), known_err)); }
            if fail_error_passthrough {
                if err != pre_err { bad.push((format!("report {i}: `fail :error:` changed :error: from {pre_err} to {err}"), known_err)); }
            } else {
                if let Some(inner) = &k.inner { if err["instruction"].as_str() != Some(inner.as_str()) { bad.push((format!("report {i}: :error:.instruction = {} but the failing instruction is {:?}", err["instruction"], inner), known_err)); } }
                let want_fields: Vec<String> = if k.is_call { vec!["error_code", "instruction", "message", "peer_id"] } else { vec!["error_code", "instruction", "message"] }.into_iter().map(String::from).collect();
                if field_set(&err) != want_fields { bad.push((format!("report {i}: :error: has fields {:?}, expected {:?}", field_set(&err), want_fields), known_err)); }
                if k.is_call && err["peer_id"].as_str() != Some(me) { bad.push((format!("report {i}: :error:.peer_id = {} but the call ran on {me}", err["peer_id"]), known_err)); }
            }
            // %last_error%
            let no_last = ref_code == codes::catchable("MatchValuesNotEqual") || ref_code == codes::catchable("MismatchValuesEqual");
            if fail_error_passthrough {
                // fail_with_error_object stores the :error: object
                if last != pre_err { bad.push((format!("report {i}: after `fail :error:` %last_error% = {last}, expected the :error: object {pre_err}"), known_last)); }
            } else if no_last {
                if last != pre_last { bad.push((format!("report {i}: a match/mismatch failure changed %last_error% from {pre_last} to {last}"), false)); }
            } else if ref_code == codes::catchable("UserError") {
                match thrown_object(&ref_msg) { Some(o) => if last != o { bad.push((format!("report {i}: %last_error% = {last} but the thrown error object is {o}"), known_last)); },
                    None => bad.push((format!("report {i}: cannot recover the thrown object from {:?}", ref_msg), false)) }
            } else {
                if last["error_code"].as_i64() != Some(ref_code) || last["message"].as_str() != Some(ref_msg.as_str()) { bad.push((format!("report {i}: %last_error% = {last} but the {ref_src} returned {ref_code} {:?}", ref_msg), known_last)); }
                else {
                    if let Some(inner) = &k.inner { if last["instruction"].as_str() != Some(inner.as_str()) { bad.push((format!("report {i}: %last_error%.instruction = {} but the failing instruction is {:?}", last["instruction"], inner), known_last)); } }
                    if last["peer_id"].as_str() != Some(me) { bad.push((format!("report {i}: %last_error%.peer_id = {} but the failure happened on {me}", last["peer_id"]), known_last)); }
                }
            }
        }
    } else {
        // 3. success, waiting, or an uncatchable failure: the right branch must not run and the xor is transparent
        if !caught.reports.is_empty() || caught.canary { bad.push((format!("the left branch {} but the right branch of the xor ran", if ref_code == 0 { "succeeded or is waiting".to_string() } else { format!("failed with the uncatchable code {ref_code}") }), false)); }
        if caught.code != uncaught.code { bad.push((format!("not a catchable failure, yet the run with the xor returned {} instead of {}", caught.code, uncaught.code), false)); }
        if is_uncatchable(ref_code) && caught.msg != uncaught.msg { bad.push((format!("uncatchable failure reported as {:?} with the xor and as {:?} without", caught.msg, uncaught.msg), false)); }
        let (mut a, mut b) = (caught.next_peers.clone(), uncaught.next_peers.clone()); a.sort(); b.sort();
        if a != b { bad.push((format!("next peers differ with the xor ({}) and without ({})", a.len(), b.len()), false)); }
    }
    bad
}

/// lock-step correspondence of every run of a driven script with the model
fn correspond(ctx: &mut Ctx, rep: &mut Report, d: &Driven, air: &str, svc: &Svc) {
    let ast = match air_parser::parse(air) { Ok(a) => serde_json::to_value(&a).unwrap(), Err(_) => return };
    for st in &d.net.log {
        if st.outcome.ret_code == PANIC_CODE { rep.oracle_fail(json!({"why": format!("the interpreter panicked: {}", st.outcome.error_message), "input": step_json(&d.net, st)})); continue; }
        let mut req = exec_request(&d.net, st, &ast);
        req["op"] = json!("c18_exec");
        let m = ctx.driver.ask(&req);
        if let Some(u) = m.get("unmodelled") { rep.unmodelled += 1; rep.stat(&format!("unmodelled:{}", u.as_str().unwrap_or("?").chars().take(40).collect::<String>())); continue; }
        rep.model_compared += 1;
        if m.get("panic").is_some() || m.get("protocol_error").is_some() || m["error"].is_string() { rep.disagree(json!({"op": "c18_exec", "why": "model panics / does not answer, implementation does not", "model": m, "air": air, "services": svc.to_json(), "step": step_json(&d.net, st)})); continue; }
        if let Some(why) = compare_exec_projected(&m, &d.net, st, &["code", "msg", "requests", "next"]) {
            rep.disagree(json!({"op": "c18_exec", "why": why, "air": air, "services": svc.to_json(), "step": step_json(&d.net, st), "model": {"code": m["code"], "msg": m["msg"], "requests": m["requests"], "error": m["error"], "last_error": m["last_error"]},
                                "implementation": outcome_brief(&st.outcome)}));
        }
    }
}

fn run_case(ctx: &mut Ctx, rep: &mut Report, case: &Case, peers: &[Peer], known_hits: &mut Vec<Value>) {
    let me = peers[0].id.clone();
    let baseline = drive(&case.baseline, peers, &case.svc);
    let uncaught = drive(&case.uncaught, peers, &case.svc);
    let caught = drive(&case.caught, peers, &case.svc);
    let pre = drive(&case.pre, peers, &case.svc);
    let unswallowed = case.unswallowed.as_ref().map(|a| drive(a, peers, &case.svc));
    if [&baseline, &uncaught, &caught, &pre].iter().any(|d| (1..=9999).contains(&d.code)) {
        // preparation errors: the generated text is not a valid script (generator's fault, never the property's)
        rep.stat("generated_script_rejected"); rep.stat(&format!("rejected:{}", case.p.name));
        if rep.stats["generated_script_rejected"] <= 3 { eprintln!("rejected script ({}): {}\n   {}", case.p.name, case.caught, [&baseline, &uncaught, &caught, &pre].iter().map(|d| d.msg.clone()).find(|m| !m.is_empty()).unwrap_or_default()); }
        return;
    }
    let class = if is_catchable(uncaught.code) { "catchable" } else if is_uncatchable(uncaught.code) { "uncatchable" } else if uncaught.code == 0 && unswallowed.as_ref().map(|u| is_catchable(u.code)).unwrap_or(false) { "catchable_swallowed_by_par" }
        else if uncaught.code == 0 { if uncaught.next_peers.is_empty() && baseline.code == 0 && case.p.name.starts_with("ok") { "success" } else { "success_or_waiting" } } else { "other" };
    rep.stat(&format!("kind:{}", case.p.name.split('+').next().unwrap())); rep.stat(&format!("class:{class}"));
    if case.p.name.ends_with("+bubble") { rep.stat("failure_bubbles_through_frames_inside_xor"); }
    for f in &case.p.frames { rep.stat(&format!("frame:{f}")); }
    rep.stat(&format!("context_depth:{}", case.p.frames.len()));
    if is_catchable(uncaught.code) { rep.stat(&format!("error:{}", codes::name_of(uncaught.code))); } else if is_catchable(baseline.code) { rep.stat(&format!("error:{}", codes::name_of(baseline.code))); }
    if is_uncatchable(uncaught.code) { rep.stat(&format!("error:{}", codes::name_of(uncaught.code))); }
    rep.stat_n("right_branch_executions", caught.reports.len() as u64);
    rep.stat_n("interpreter_runs", (baseline.net.log.len() + uncaught.net.log.len() + caught.net.log.len() + pre.net.log.len()) as u64);
    let canon = format!("{}|{}|{}", case.p.name, case.p.context, case.caught);
    let nontrivial = class != "success";
    rep.case(&canon, nontrivial, || json!({"kind": case.p.name, "context": case.p.context, "caught_script": case.caught, "uncaught": [uncaught.code, uncaught.msg], "reports": caught.reports}));
    let input = || { let mut j = case.to_json(); j["kind"] = json!(case.p.name); j["context"] = json!(case.p.context); j["peers"] = json!(["a", "b"]);
        j["observed"] = json!({"baseline": [baseline.code, baseline.msg], "uncaught": [uncaught.code, uncaught.msg], "caught": [caught.code, caught.msg], "caught_reports": caught.reports, "pre_report": pre_report(&pre), "canary_ran": caught.canary,
            "unswallowed": unswallowed.as_ref().map(|u| json!([u.code, u.msg]))}); j };
    let bad = oracle(case, &baseline, &uncaught, &caught, &pre, unswallowed.as_ref(), &me);
    if !bad.is_empty() {
        let all_known = bad.iter().all(|(_, known)| *known);
        let why = bad.iter().map(|(w, _)| w.clone()).collect::<Vec<_>>().join(" || ");
        // the report keeps the first 20 failures only: genuine violations are recorded at once, hits of the known finding are counted and a few are recorded at the end
        if all_known { rep.stat("known_finding:stale_error_after_swallowed_par_failure"); if known_hits.len() < 3 { known_hits.push(json!({"why": why, "finding_key": FINDING_STALE, "input": input()})); } }
        else { rep.oracle_fail(json!({"why": why, "input": input()})); }
    } else if case.p.stale && is_catchable(uncaught.code) { rep.stat("stale_context_without_deviation"); }
    if case.p.has_float { rep.unmodelled += 1; rep.stat("unmodelled:values with a fractional part"); return; }
    for (d, air) in [(&baseline, &case.baseline), (&uncaught, &case.uncaught), (&caught, &case.caught), (&pre, &case.pre)] { correspond(ctx, rep, d, air, &case.svc); }
    if let (Some(d), Some(air)) = (&unswallowed, &case.unswallowed) { correspond(ctx, rep, d, air, &case.svc); }
}

/// Replay faithfulness: the failure is caught where it is REPLAYED from data, not where it happened — the handler sits on
/// another peer, or the failing peer runs again on its own data.  The error object the handler receives must carry the code
/// and message the uncaught failure reported in the run that received the service's answer.
fn replay_faithfulness(ctx: &mut Ctx, rep: &mut Report, peers: &[Peer]) {
    let (me, other) = (peers[0].id.clone(), peers[1].id.clone());
    let mut svc = Svc::default();
    let e0 = svc.err(7, "boom");
    let e1 = svc.err(i32::MAX, "max");
    let e2 = svc.err(-1, "{\"not\":\"a string\"}");
    let failing: Vec<(String, String)> = vec![
        ("service_error".into(), format!(r#"(call "{me}" ("err" "{e0}") [] x)"#)),
        ("service_error_max_code".into(), format!(r#"(call "{me}" ("err" "{e1}") [])"#)),
        ("service_error_negative_code".into(), format!(r#"(call "{me}" ("err" "{e2}") [] $s)"#)),
        ("result_not_json".into(), format!(r#"(call "{me}" ("raw" "r0") [] x)"#)),
        ("result_not_json_stream".into(), format!(r#"(call "{me}" ("raw" "r1") [] $s)"#)),
        ("result_not_json_unused".into(), format!(r#"(call "{me}" ("raw" "r2") [])"#)),
    ];
    for (name, f) in &failing {
        for (frame_name, wrap) in [("top", "{}"), ("seq", "(seq (null) {})"), ("new", "(new y {})"), ("par_left", "(par {} (null))")] {
            let hole = |x: &str| wrap.replace("{}", x);
            let uncaught_air = hole(f);
            let remote_air = hole(&format!(r#"(xor {f} (call "{other}" ("report" "err") [:error: %last_error%]))"#));
            let uncaught = drive(&uncaught_air, peers, &svc);
            correspond(ctx, rep, &uncaught, &uncaught_air, &svc);
            // the run that received the answer reports the failure; a par swallows it (then the reference is the plain instruction)
            let reference = if is_catchable(uncaught.code) { (uncaught.code, uncaught.msg.clone()) } else { let d = drive(f, peers, &svc); (d.code, d.msg) };
            rep.case(&format!("replay|{name}|{frame_name}"), true, || json!({"replay_faithfulness": name, "frame": frame_name, "uncaught": [reference.0, reference.1.clone()]}));
            rep.stat(&format!("replay_kind:{name}"));
            if !is_catchable(reference.0) { rep.oracle_fail(json!({"why": format!("harness: the failing instruction of the replay scenario {name} did not fail catchably ({} {:?})", reference.0, reference.1), "input": {"air": uncaught_air}})); continue; }
            // handler on another peer: `me` runs until nothing is left to answer, its data travels to `other`
            let first = drive(&remote_air, peers, &svc);
            correspond(ctx, rep, &first, &remote_air, &svc);
            let data = first.net.peers[0].prev.clone();
            let mut net = Net::new(&remote_air, peers, "c18");
            net.run_peer(1, &data, CallResults::new(), "deliver".into());
            let st = net.log.last().unwrap();
            let reqs = decode_requests(&st.outcome.call_requests).unwrap_or_default();
            let reports: Vec<Vec<Value>> = { let mut ids: Vec<&u32> = reqs.keys().collect(); ids.sort(); ids.into_iter().filter(|i| reqs[*i].service_id == "report").map(|i| decode_args(&reqs[i])).collect() };
            let input = || json!({"air": remote_air, "services": svc.to_json(), "peers": ["a", "b"], "scenario": format!("replay faithfulness: {name} in {frame_name}, handler on the other peer"), "prev_hex": "", "cur_hex": hex(&data), "results": {}});
            if st.outcome.ret_code != 0 { rep.oracle_fail(json!({"why": format!("the peer with the handler returned {} {:?} on the data of the failing peer", st.outcome.ret_code, st.outcome.error_message), "input": input()})); continue; }
            if reports.len() != 1 { rep.oracle_fail(json!({"why": format!("the failure was replayed from data on the handler's peer: expected one execution of the right branch there, observed {}", reports.len()), "input": input()})); continue; }
            let e = &reports[0][0];
            if e["error_code"].as_i64() != Some(reference.0) || e["message"].as_str() != Some(reference.1.as_str()) {
                rep.oracle_fail(json!({"why": format!("the handler on another peer received :error: = code {} message {:?}, the uncaught failure reported {} {:?}", e["error_code"], e["message"].as_str().unwrap_or("?"), reference.0, reference.1), "input": input()}));
                continue;
            }
            if reports[0].get(1).map(|l| l["error_code"].as_i64() != Some(reference.0) || l["message"].as_str() != Some(reference.1.as_str())).unwrap_or(true) {
                rep.oracle_fail(json!({"why": format!("the handler on another peer received %last_error% = {}, the uncaught failure reported {} {:?}", reports[0].get(1).cloned().unwrap_or(Value::Null), reference.0, reference.1), "input": input()}));
                continue;
            }
            // the failing peer runs again on its own data (nothing new): the uncaught variant reports the same failure again
            let mut again = Net::new(&uncaught_air, peers, "c18");
            again.peers[0].prev = uncaught.net.peers[0].prev.clone();
            again.run_peer(0, &[], CallResults::new(), "rerun".into());
            let st2 = again.log.last().unwrap();
            if is_catchable(uncaught.code) && (st2.outcome.ret_code != uncaught.code || st2.outcome.error_message != uncaught.msg) {
                rep.oracle_fail(json!({"why": format!("re-running the failing peer on its own data reports {} {:?}, the first report was {} {:?}", st2.outcome.ret_code, st2.outcome.error_message, uncaught.code, uncaught.msg),
                    "input": {"air": uncaught_air, "services": svc.to_json(), "prev_hex": hex(&again.peers[0].prev), "cur_hex": "", "results": {}}}));
            }
        }
    }
}

pub const FINDING_STALE: &str = "error-stale-after-par-swallowed-a-failure";

/// fixed scenarios: the minimal forms of everything the property speaks about (run in every tier)
fn fixed_cases(me: &str, other: &str) -> Vec<Case> {
    let mut out = vec![];
    let top = || Context { frames: vec![] };
    let simple = |name: &str, text: &str, inner: &str, variant: &'static str, is_call: bool| FKind { name: name.into(), setup: vec![], text: text.into(), inner: Some(inner.into()), expect: Expect::Catch(variant), is_call, needs_w: false, is_fail_error: false };
    let mut svc = Svc::default();
    let e0 = svc.err(7, "boom");
    let call_inner = format!("call \"{me}\" (\"err\" \"{e0}\") [] ");
    let ks = vec![
        simple("service_error", &format!("(call \"{me}\" (\"err\" \"{e0}\") [])"), &call_inner, "LocalServiceError", true),
        simple("fail_literal", "(fail 7 \"msg\")", "fail 7 \"msg\"", "UserError", false),
        simple("match_unequal", "(match 1 2 (null))", "match 1 2", "MatchValuesNotEqual", false),
        simple("mismatch_equal", "(mismatch 1 1 (null))", "mismatch 1 1", "MismatchValuesEqual", false),
        { let mut k = simple("fail_error", "(fail :error:)", "fail :error:", "InvalidErrorObjectError", false); k.is_fail_error = true; k },
        simple("fail_last_error", "(fail %last_error%)", "fail %last_error%", "InvalidErrorObjectError", false),
    ];
    for k in &ks {
        for frames in [vec![], vec![Frame::XorRightFail], vec![Frame::AfterCaughtFail], vec![Frame::FoldSeq(2)], vec![Frame::ParLeftLocal], vec![Frame::NewScalar, Frame::SeqBefore],
                       vec![Frame::StaleAfterPar], vec![Frame::StaleParLeftFailed], vec![Frame::StaleAfterPar, Frame::XorRightMatch]] {
            out.push(build_case(k.clone(), Context { frames }, svc.clone(), me, other));
        }
    }
    for w in 0..N_NON_FAILING { out.push(build_case(non_failing(w, me, other, 0), top(), Svc::default(), me, other)); }
    for w in 0..N_UNCATCHABLE {
        out.push(build_case(uncatchable(w, me, 0), top(), Svc::default(), me, other));
        out.push(build_case(uncatchable(w, me, 0), Context { frames: vec![Frame::XorRightFail, Frame::NewScalar] }, Svc::default(), me, other));
    }
    out
}

pub fn run(ctx: &mut Ctx, rep: &mut Report) {
    let peers = [Peer::new("a"), Peer::new("b")];
    let (me, other) = (peers[0].id.clone(), peers[1].id.clone());
    if let Ok(path) = std::env::var("AQUA_C18_PROBE") {
        let text = std::fs::read_to_string(path).unwrap();
        let mut svc = Svc::default();
        svc.val(json!([1, 2])); svc.val(json!({"a": 1})); svc.val(json!("str")); svc.err(7, "boom");
        for line in text.lines().filter(|l| !l.trim().is_empty()) {
            let air = line.replace("ME", &format!("\"{me}\"")).replace("OTHER", &format!("\"{other}\""));
            let d = drive(&air, &peers, &svc);
            println!("{line}\n   -> code {} msg {:?} steps {} canary {} next {}\n   reports {}", d.code, d.msg, d.net.log.len(), d.canary, d.next_peers.len(), serde_json::to_string(&d.reports).unwrap());
        }
        return;
    }
    rep.rule = "case = one instruction F (a catchable failure of every kind: service errors with boundary return codes and messages with quotes/unicode, fail with literals / valid / invalid / lens-selected error objects, fail :error:, fail %last_error%, \
        match/mismatch on literals and scalars, every lens error reachable from scalars in ap / call-argument / match position, non-array fold, non-string triplet parts, .length of a non-array, scalar cleared by new, canon-stream lens errors; optionally bubbling through seq/new/match frames; \
        or an uncatchable failure; or an instruction that succeeds or waits) placed in a context of 0-3 nested frames (seq after calls, seq before, par left/right with local/remote sibling, scalar fold iteration in seq/par position, new, match/mismatch body, right branch of an outer xor, after an earlier caught error, after/inside a par that swallowed a failure); \
        each case = 4 scripts (F alone, K[F], K[(xor F report)], K[report]) driven to quiescence through execute_air, every run also executed by the model; non-trivial = F does not simply succeed; distinct by hash of (kind, context, script)".into();
    // replay of a recorded failure: exactly that case (implementation, oracle, model)
    if let Some(path) = &ctx.replay {
        let v: Value = std::fs::read_to_string(path).ok().and_then(|t| serde_json::from_str(&t).ok()).unwrap_or(Value::Null);
        let inp = if v.get("failure").is_some() { v["failure"]["input"].clone() } else if v.get("input").is_some() { v["input"].clone() } else { v };
        match Case::from_json(&inp) {
            Some(case) => { rep.stat("replayed_cases"); let mut known_hits = vec![]; run_case(ctx, rep, &case, &peers, &mut known_hits); for k in known_hits { rep.oracle_fail(k); } }
            None => rep.stat("replay_file_without_a_recorded_case"),
        }
        return;
    }
    let mut known_hits: Vec<Value> = vec![];
    for case in fixed_cases(&me, &other) { rep.stat("fixed_scenarios"); run_case(ctx, rep, &case, &peers, &mut known_hits); }
    replay_faithfulness(ctx, rep, &peers);
    let mut rng = Rng::new(ctx.seed ^ 0xC18);
    let n = if ctx.thorough { 150000 } else { 6000 };
    for i in 0..n {
        let mut svc = Svc::default();
        let kind = match rng.below(20) {
            0..=12 => { let k = gen_failing(&mut rng, &mut svc, &me, i); bubble(&mut rng, k, &me, i) }
            13 => gen_failing_stream(&mut rng, &me, i),
            14..=16 => gen_non_failing(&mut rng, &me, &other, i),
            _ => gen_uncatchable(&mut rng, &me, i),
        };
        let kctx = gen_context(&mut rng, &mut svc, true);
        let case = build_case(kind, kctx, svc, &me, &other);
        run_case(ctx, rep, &case, &peers, &mut known_hits);
    }
    for k in known_hits { rep.oracle_fail(k); }
}
