//! C01 — the interpreter never crashes or runs out of memory on adversarial input; every public entry point
//! that takes untrusted bytes or text is total.
//!
//! Direct oracle: every case runs under `catch_unwind` with a counting global allocator; cases that can ABORT
//! (stack exhaustion, allocation failure) run in a child process (this binary re-executed with `c01-child`,
//! RLIMIT_AS = 2 GiB, 8 MiB stack).  Any panic / abort / allocation out of proportion to the input is an oracle
//! failure whose `finding_key` is a stable site class (`panic:<file>:<fn>:<message class>`, never a line number).
//! Correspondence: (1) the scanned panic-site inventory must be covered by sites/panic_sites.json; (2) data-level
//! cases inside the modelled fragment are shipped to the `exec` op and the outcome KIND is compared
//! (returned(code) | panic(site)); (3) the trace-handler op sequences of `traceops` (panic vs panic).
use crate::host::*;
use crate::props::c01_adv::*;
use crate::props::hist::{gen_history, peers_for};
use crate::sim::*;
use crate::util::*;
use crate::Ctx;
use air_interpreter_interface::{CallResults, CallServiceResult};
use serde_json::{json, Value};
use std::alloc::{GlobalAlloc, Layout, System};
use std::cell::{Cell, RefCell};
use std::collections::{BTreeMap, BTreeSet};
use std::sync::atomic::{AtomicUsize, Ordering};
use std::sync::Mutex;

// ------------------------------------------------------------------------------------------------
// counting allocator

pub struct Counting;
static CURRENT: AtomicUsize = AtomicUsize::new(0);
static PEAK: AtomicUsize = AtomicUsize::new(0);
/// single requests above this size are traced (when armed) so that the allocation site can be named
const BIG_REQUEST: usize = 16 << 20;
static BIG_SITE: Mutex<Option<(usize, String)>> = Mutex::new(None);
thread_local! { static ARMED: Cell<bool> = const { Cell::new(false) }; static IN_TRACE: Cell<bool> = const { Cell::new(false) }; }

fn note(size: usize) {
    let cur = CURRENT.fetch_add(size, Ordering::Relaxed) + size;
    PEAK.fetch_max(cur, Ordering::Relaxed);
    if size >= BIG_REQUEST {
        let armed = ARMED.try_with(|a| a.get()).unwrap_or(false);
        let busy = IN_TRACE.try_with(|a| a.get()).unwrap_or(true);
        if armed && !busy {
            let _ = IN_TRACE.try_with(|a| a.set(true));
            let bt = std::backtrace::Backtrace::force_capture().to_string();
            if let Ok(mut g) = BIG_SITE.try_lock() { if g.is_none() { *g = Some((size, bt)); } }
            let _ = IN_TRACE.try_with(|a| a.set(false));
        }
    }
}
/// a request the system refused (RLIMIT_AS in the child process): name the asking frame before the runtime aborts
fn note_failed(size: usize) {
    let armed = ARMED.try_with(|a| a.get()).unwrap_or(false);
    let busy = IN_TRACE.try_with(|a| a.get()).unwrap_or(true);
    if armed && !busy {
        let _ = IN_TRACE.try_with(|a| a.set(true));
        let bt = std::backtrace::Backtrace::force_capture().to_string();
        eprintln!("C01ALLOCFAIL {} | {size}", first_repo_frame(&bt).unwrap_or_else(|| "?".into()));
        let _ = IN_TRACE.try_with(|a| a.set(false));
    }
}
unsafe impl GlobalAlloc for Counting {
    unsafe fn alloc(&self, l: Layout) -> *mut u8 { let p = System.alloc(l); if !p.is_null() { note(l.size()); } else { note_failed(l.size()); } p }
    unsafe fn alloc_zeroed(&self, l: Layout) -> *mut u8 { let p = System.alloc_zeroed(l); if !p.is_null() { note(l.size()); } p }
    unsafe fn dealloc(&self, p: *mut u8, l: Layout) { System.dealloc(p, l); CURRENT.fetch_sub(l.size(), Ordering::Relaxed); }
    unsafe fn realloc(&self, p: *mut u8, l: Layout, new: usize) -> *mut u8 {
        let q = System.realloc(p, l, new);
        if !q.is_null() { if new >= l.size() { note(new - l.size()); } else { CURRENT.fetch_sub(l.size() - new, Ordering::Relaxed); } } else { note_failed(new); }
        q
    }
}
#[global_allocator]
static GLOBAL: Counting = Counting;

const ALLOC_FACTOR: usize = 64;
/// text entry points build an AST: one nesting level of 5-7 bytes costs a boxed node plus parser stack entries (linear, large constant)
const ALLOC_FACTOR_TEXT: usize = 256;
const ALLOC_SLACK: usize = 64 << 20;

// ------------------------------------------------------------------------------------------------
// panic capture and site classes

#[derive(Clone, Debug, Default)]
struct PanicInfo { file: String, line: u32, msg: String, backtrace: String }
thread_local! { static LAST_PANIC: RefCell<Option<PanicInfo>> = const { RefCell::new(None) }; }

static CHILD_MODE: std::sync::atomic::AtomicBool = std::sync::atomic::AtomicBool::new(false);
static INV: std::sync::OnceLock<Inventory> = std::sync::OnceLock::new();

fn install_hook() {
    std::panic::set_hook(Box::new(|info| {
        let (file, line) = info.location().map(|l| (l.file().to_string(), l.line())).unwrap_or_default();
        let msg = if let Some(s) = info.payload().downcast_ref::<String>() { s.clone() } else if let Some(s) = info.payload().downcast_ref::<&str>() { s.to_string() } else { "panic".into() };
        if std::env::var("C01_DEBUG").is_ok() { eprintln!("C01_DEBUG panic at {file}:{line}: {msg}"); if msg.contains("unsafe precondition") { eprintln!("C01_DEBUG_BT {}", std::backtrace::Backtrace::force_capture()); } }
        // arithmetic of the u32 newtypes panics inside the operator impls generated in these files: the caller is what matters
        let in_repo = repo_rel(&file).is_some() && !file.ends_with("/trace_pos.rs") && !file.ends_with("/generation_idx.rs");
        let backtrace = if in_repo { String::new() } else { std::backtrace::Backtrace::force_capture().to_string() };
        let pi = PanicInfo { file, line, msg, backtrace };
        if CHILD_MODE.load(Ordering::Relaxed) {
            // a panic that cannot unwind (raised in a `nounwind` context) kills the process: leave a trace for the parent
            if let Some(inv) = INV.get() { let (key, _) = inv.classify(&pi); eprintln!("C01PANIC {key} | {}", pi.msg.replace('\n', " ").chars().take(200).collect::<String>()); }
        }
        LAST_PANIC.with(|p| *p.borrow_mut() = Some(pi));
    }));
}

/// path relative to the repository root for the crates that are scanned
fn repo_rel(file: &str) -> Option<String> {
    for marker in ["crates/air-lib/", "crates/beautifier/", "air/src/"] {
        if let Some(i) = file.find(marker) {
            // `…/repo/air/src/…`: make sure `air/src` is a path component start
            if i == 0 || file.as_bytes()[i - 1] == b'/' { return Some(file[i..].to_string()); }
        }
    }
    None
}

/// class of a panic message with everything input-dependent removed
fn msg_class(msg: &str) -> String {
    let m = msg;
    if m.contains("Option::unwrap()") { return "unwrap-none".into(); }
    if m.contains("Result::unwrap()") { return "unwrap-err".into(); }
    if m.starts_with("attempt to add with overflow") { return "add-overflow".into(); }
    if m.starts_with("attempt to subtract with overflow") { return "sub-overflow".into(); }
    if m.starts_with("attempt to multiply with overflow") { return "mul-overflow".into(); }
    if m.starts_with("index out of bounds") { return "index-out-of-bounds".into(); }
    if m.contains("is not a char boundary") || m.contains("byte index") { return "str-slice-boundary".into(); }
    if m.contains("out of range for slice") || m.contains("slice index starts at") { return "slice-range".into(); }
    if m.starts_with("internal error: entered unreachable code") { return "unreachable".into(); }
    if m.starts_with("not implemented") { return "unimplemented".into(); }
    if m.contains("already borrowed") || m.contains("already mutably borrowed") { return "refcell-borrow".into(); }
    if m.starts_with("capacity overflow") { return "capacity-overflow".into(); }
    if m.starts_with("unsafe precondition(s) violated") { return format!("ub-precondition({})", m.split(':').nth(1).unwrap_or("").split_whitespace().next().unwrap_or("")); }
    // `expect("text")`: "text: Error(..)" or just "text"
    let head: String = m.split(':').next().unwrap_or("").chars().filter(|c| !c.is_ascii_digit()).take(48).collect();
    format!("msg({})", head.trim())
}

pub struct Inventory {
    /// file → [(first line, last line, fn name)]
    functions: BTreeMap<String, Vec<(u32, u32, String)>>,
    /// (file, line) → keys of the scanned sites on that line
    by_line: BTreeMap<(String, u32), Vec<String>>,
    /// (key, file, fn, kind, snippet) of every scanned site
    sites: Vec<(String, String, String, String, String)>,
    classification: BTreeMap<String, String>,
    pub unclassified: Vec<String>,
    pub unreviewed: Vec<String>,
    pub scanned: usize,
    pub stale: usize,
}

pub fn verif_root() -> std::path::PathBuf {
    if let Ok(exe) = std::env::current_exe() { if let Some(p) = exe.ancestors().nth(4) { if p.join("lean").exists() { return p.to_path_buf(); } } }
    std::env::current_dir().unwrap_or_default()
}

impl Inventory {
    pub fn load() -> Option<Inventory> {
        let root = verif_root();
        let inv: Value = serde_json::from_str(&std::fs::read_to_string(root.join("lean/Aqua/Gen/PanicSites.json")).ok()?).ok()?;
        let cls: Value = serde_json::from_str(&std::fs::read_to_string(root.join("sites/panic_sites.json")).ok()?).ok()?;
        let classification: BTreeMap<String, String> = cls["sites"].as_object()?.iter().map(|(k, v)| (k.clone(), v.as_str().unwrap_or("").to_string())).collect();
        let mut functions: BTreeMap<String, Vec<(u32, u32, String)>> = BTreeMap::new();
        for (f, v) in inv["functions"].as_object()? { functions.insert(f.clone(), v.as_array()?.iter().map(|e| (e[0].as_u64().unwrap_or(0) as u32, e[1].as_u64().unwrap_or(0) as u32, e[2].as_str().unwrap_or("").to_string())).collect()); }
        let mut by_line: BTreeMap<(String, u32), Vec<String>> = BTreeMap::new();
        let mut scanned_keys = BTreeSet::new();
        let mut sites = vec![];
        for s in inv["sites"].as_array()? {
            let key = s["key"].as_str()?.to_string();
            by_line.entry((s["file"].as_str()?.to_string(), s["line"].as_u64()? as u32)).or_default().push(key.clone());
            sites.push((key.clone(), s["file"].as_str()?.to_string(), s["fn"].as_str()?.to_string(), s["kind"].as_str()?.to_string(), s["snippet"].as_str()?.to_string()));
            scanned_keys.insert(key);
        }
        let unclassified: Vec<String> = scanned_keys.iter().filter(|k| !classification.contains_key(*k)).cloned().collect();
        let unreviewed: Vec<String> = scanned_keys.iter().filter(|k| classification.get(*k).map(|v| v == "unreviewed").unwrap_or(false)).cloned().collect();
        let stale = classification.keys().filter(|k| !scanned_keys.contains(*k)).count();
        Some(Inventory { functions, by_line, sites, classification, unclassified, unreviewed, scanned: scanned_keys.len(), stale })
    }
    fn function_at(&self, file: &str, line: u32) -> String {
        let mut best: Option<&(u32, u32, String)> = None;
        for r in self.functions.get(file).map(|v| v.as_slice()).unwrap_or(&[]) { if r.0 <= line && line <= r.1 && best.map(|b| r.0 >= b.0).unwrap_or(true) { best = Some(r); } }
        best.map(|b| b.2.clone()).unwrap_or_else(|| "?".into())
    }
    /// (finding key, model site strings the classification gives for the scanned sites on that line)
    fn classify(&self, p: &PanicInfo) -> (String, Vec<String>) {
        let operator_file = p.file.ends_with("/trace_pos.rs") || p.file.ends_with("/generation_idx.rs");
        match repo_rel(&p.file).filter(|_| !operator_file) {
            Some(rel) => {
                let f = self.function_at(&rel, p.line);
                let mut modelled = vec![];
                for k in self.by_line.get(&(rel.clone(), p.line)).cloned().unwrap_or_default() {
                    if let Some(c) = self.classification.get(&k) { if let Some(m) = c.strip_prefix("modelled:") { for s in m.split(" || ") { modelled.push(s.trim().to_string()); } } }
                }
                (format!("panic:{}:{}:{}", rel, f, msg_class(&p.msg)), modelled)
            }
            None => {
                // the panic was raised inside a dependency (newtype arithmetic, std): name the first frame of the scanned crates
                let frame = first_repo_frame(&p.backtrace).unwrap_or_else(|| "?".into());
                if operator_file {
                    // `TracePos + u32` etc.: find the scanned arithmetic sites of the calling function
                    let segs: Vec<&str> = frame.split("::").collect();
                    let last = segs.last().cloned().unwrap_or("");
                    let op = if p.msg.contains("add") { "+" } else if p.msg.contains("subtract") { "-" } else { "*" };
                    let mut modelled = vec![];
                    for (key, file, f, kind, snippet) in &self.sites {
                        let stem = file.rsplit('/').next().unwrap_or("").trim_end_matches(".rs");
                        if kind == "arith" && (f == last || f.ends_with(&format!("::{last}"))) && segs.contains(&stem) && snippet.contains(op) {
                            if let Some(c) = self.classification.get(key) { if let Some(m) = c.strip_prefix("modelled:") { for s in m.split(" || ") { modelled.push(s.trim().to_string()); } } }
                        }
                    }
                    return (format!("panic:{}:{}", frame, msg_class(&p.msg)), modelled);
                }
                let dep = p.file.rsplit("/registry/src/").next().map(|s| s.splitn(2, '/').nth(1).unwrap_or(s)).unwrap_or(&p.file).split('/').next().unwrap_or("").trim_end_matches(|c: char| c.is_ascii_digit() || c == '.' || c == '-');
                (format!("panic:{}:{}:{}", dep, frame, msg_class(&p.msg)), vec![])
            }
        }
    }
}

/// first backtrace frame that belongs to the interpreter crates, as a path without hashes and generics
fn first_repo_frame(bt: &str) -> Option<String> {
    for line in bt.lines() {
        let l = line.trim();
        let l = l.splitn(2, ": ").nth(1).unwrap_or(l);
        let l = l.trim_start_matches('<');
        for prefix in ["air::", "air_trace_handler::", "air_interpreter_data::", "air_parser::", "air_lambda_parser::", "air_beautifier::", "air_interpreter_cid::", "air_interpreter_value::", "air_interpreter_signatures::", "air_interpreter_sede::", "polyplets::", "air_lambda_ast::"] {
            if l.starts_with(prefix) {
                if l.contains("::ops::") && (l.contains("Add") || l.contains("Sub")) { continue; }   // the newtype operator itself
                let mut s = l.to_string();
                if let Some(i) = s.rfind("::h") { if s[i + 3..].chars().all(|c| c.is_ascii_hexdigit()) { s.truncate(i); } }
                let mut out = String::new(); let mut depth = 0;
                for ch in s.chars() { match ch { '<' => depth += 1, '>' => depth -= 1, _ if depth == 0 => out.push(ch), _ => {} } }
                return Some(out.replace("::{{closure}}", ""));
            }
        }
    }
    None
}

// ------------------------------------------------------------------------------------------------
// guarded execution

#[derive(Clone, Debug)]
pub enum Kind { Returned(i64), Panic { key: String, modelled: Vec<String>, msg: String }, Abort { key: String, detail: String }, Alloc { key: String, peak: usize, limit: usize } }
impl Kind {
    fn brief(&self) -> Value { match self {
        Kind::Returned(c) => json!({"returned": c}), Kind::Panic { key, msg, modelled } => json!({"panic": key, "message": msg.chars().take(200).collect::<String>(), "modelled_as": modelled}),
        Kind::Abort { key, detail } => json!({"abort": key, "detail": detail}), Kind::Alloc { key, peak, limit } => json!({"alloc_blowup": key, "peak_bytes": peak, "limit_bytes": limit}) } }
    fn finding_key(&self) -> Option<String> { match self { Kind::Returned(_) => None, Kind::Panic { key, .. } | Kind::Abort { key, .. } | Kind::Alloc { key, .. } => Some(key.clone()) } }
}

/// run `f` under catch_unwind with allocation accounting; `input_size` = total bytes of the inputs
fn guarded<T>(inv: &Inventory, input_size: usize, f: impl FnOnce() -> T) -> (Option<T>, Option<Kind>) { guarded_f(inv, input_size, ALLOC_FACTOR, f) }
fn guarded_text<T>(inv: &Inventory, input_size: usize, f: impl FnOnce() -> T) -> (Option<T>, Option<Kind>) { guarded_f(inv, input_size, ALLOC_FACTOR_TEXT, f) }
fn guarded_f<T>(inv: &Inventory, input_size: usize, factor: usize, f: impl FnOnce() -> T) -> (Option<T>, Option<Kind>) {
    LAST_PANIC.with(|p| *p.borrow_mut() = None);
    if let Ok(mut g) = BIG_SITE.lock() { *g = None; }
    let base = CURRENT.load(Ordering::Relaxed);
    PEAK.store(base, Ordering::Relaxed);
    ARMED.with(|a| a.set(true));
    let r = std::panic::catch_unwind(std::panic::AssertUnwindSafe(f));
    ARMED.with(|a| a.set(false));
    let peak = PEAK.load(Ordering::Relaxed).saturating_sub(base);
    match r {
        Err(_) => {
            let p = LAST_PANIC.with(|p| p.borrow().clone()).unwrap_or_default();
            let (key, modelled) = inv.classify(&p);
            (None, Some(Kind::Panic { key, modelled, msg: format!("{} ({}:{})", p.msg, p.file.rsplit('/').take(2).collect::<Vec<_>>().into_iter().rev().collect::<Vec<_>>().join("/"), p.line) }))
        }
        Ok(v) => {
            let limit = factor * input_size + ALLOC_SLACK;
            if peak > limit {
                let site = BIG_SITE.lock().ok().and_then(|g| g.clone()).and_then(|(_, bt)| first_repo_frame(&bt)).unwrap_or_else(|| "?".into());
                // module granularity: the frame that asks for the memory depends on inlining
                let segs: Vec<&str> = site.split("::").collect();
                let lower: Vec<&str> = segs.iter().cloned().take_while(|seg| seg.chars().next().map(|c| c.is_lowercase() || c == '_').unwrap_or(false)).collect();
                let module = if lower.len() < segs.len() { lower.join("::") } else if lower.len() > 1 { lower[..lower.len() - 1].join("::") } else { site.clone() };
                (Some(v), Some(Kind::Alloc { key: format!("alloc:{module}"), peak, limit }))
            } else { (Some(v), None) }
        }
    }
}

#[derive(Clone)]
pub struct Case { pub label: String, pub air: String, pub prev: Vec<u8>, pub cur: Vec<u8>, pub peer: Peer, pub init_id: String, pub particle: String,
    pub results: CallResults, pub raw_results: Option<Vec<u8>>, pub outside_quantifier: bool, pub note: String,
    /// the data may make the decoder abort the process (non-unwinding panic): run in a child, never decode in the parent
    pub abort_risk: bool }

const TS: u64 = 1_700_000_000_000;
const TTL: u32 = 120_000;

impl Case {
    fn input_size(&self) -> usize { self.air.len() + self.prev.len() + self.cur.len() + self.raw_results.as_ref().map(|r| r.len()).unwrap_or_else(|| self.results.values().map(|r| r.result.len() + 16).sum()) }
    fn run_here(&self, inv: &Inventory) -> (Kind, Option<air_interpreter_interface::InterpreterOutcome>) {
        let args = RunArgs { air: &self.air, prev: &self.prev, cur: &self.cur, init_peer_id: &self.init_id, peer: &self.peer, particle_id: &self.particle, timestamp: TS, ttl: TTL, results: &self.results, limits: Limits::unlimited() };
        let raw = self.raw_results.clone().unwrap_or_else(|| encode_results(&self.results));
        let (o, bad) = guarded(inv, self.input_size(), || run_raw(&args, raw));
        match (o, bad) { (_, Some(k)) => (k, None), (Some(o), None) => (Kind::Returned(o.ret_code), Some(o)), (None, None) => (Kind::Returned(i64::MIN), None) }
    }
    fn to_json(&self) -> Value {
        json!({"label": self.label, "note": self.note, "air": self.air, "prev_hex": hex(&self.prev), "cur_hex": hex(&self.cur), "peer": self.peer.name, "init_peer_id": self.init_id, "particle": self.particle,
               "results": self.results.iter().map(|(k, v)| (k.clone(), json!({"ret_code": v.ret_code, "result": v.result}))).collect::<BTreeMap<_, _>>(),
               "raw_results_hex": self.raw_results.as_ref().map(|r| hex(r)), "outside_quantifier": self.outside_quantifier, "abort_risk": self.abort_risk,
               "how_to_replay": "aquaharness c01-child run <this file's failure.input saved as json>"})
    }
    fn from_json(v: &Value) -> Case {
        let mut results = CallResults::new();
        if let Some(m) = v["results"].as_object() { for (k, r) in m { results.insert(k.clone(), CallServiceResult { ret_code: r["ret_code"].as_i64().unwrap_or(0) as i32, result: r["result"].as_str().unwrap_or("").to_string() }); } }
        Case { label: v["label"].as_str().unwrap_or("").into(), note: v["note"].as_str().unwrap_or("").into(), air: v["air"].as_str().unwrap_or("").into(), prev: unhex(v["prev_hex"].as_str().unwrap_or("")), cur: unhex(v["cur_hex"].as_str().unwrap_or("")),
               peer: Peer::new(v["peer"].as_str().unwrap_or("a")), init_id: v["init_peer_id"].as_str().unwrap_or("").into(), particle: v["particle"].as_str().unwrap_or("").into(), results,
               raw_results: v["raw_results_hex"].as_str().map(unhex), outside_quantifier: v["outside_quantifier"].as_bool().unwrap_or(false), abort_risk: v["abort_risk"].as_bool().unwrap_or(false) }
    }
}

// ------------------------------------------------------------------------------------------------
// child process

/// `aquaharness c01-child <kind> <file>`: runs one case without a safety net and prints one line `C01CHILD <json>`
pub fn child_main(args: &[String]) {
    install_hook();
    CHILD_MODE.store(true, Ordering::Relaxed);
    let _ = INV.set(Inventory::load().expect("inventory"));
    let inv = INV.get().expect("inventory");
    let inv: &Inventory = inv;
    let kind = args.first().map(|s| s.as_str()).unwrap_or("");
    let text = std::fs::read_to_string(args.get(1).expect("input file")).expect("read input");
    let out = match kind {
        "parse" => { let (r, bad) = guarded_text(inv, text.len(), || air_parser::parse(&text).is_ok()); bad.map(|k| k.brief()).unwrap_or(json!({"returned": r})) }
        "beautify" => { let (r, bad) = guarded_text(inv, text.len(), || { let mut out = vec![]; air_beautifier::Beautifier::new(&mut out).beautify(&text).is_ok() }); bad.map(|k| k.brief()).unwrap_or(json!({"returned": r})) }
        "run" => { let v: Value = serde_json::from_str(&text).expect("case json"); let v = if v.get("failure").is_some() { v["failure"]["input"].clone() } else { v }; let c = Case::from_json(&v); let (k, o) = c.run_here(inv);
                   let mut b = k.brief(); if let Some(o) = o { b["error_message"] = json!(o.error_message.chars().take(300).collect::<String>()); } b }
        "hrd" => { let bytes = unhex(text.trim()); let n = bytes.len(); let (r, bad) = guarded(inv, n, || air::to_human_readable_data(bytes).is_ok()); bad.map(|k| k.brief()).unwrap_or(json!({"returned": r})) }
        "inspect" => { // debugging aid: lengths and validity of the strings of a decoded trace
            let v: Value = serde_json::from_str(&text).expect("case json"); let c = Case::from_json(&v);
            let env = air_interpreter_data::InterpreterDataEnvelope::try_from_slice(&c.cur).expect("envelope");
            let d = air_interpreter_data::InterpreterData::try_from_slice(&env.inner_data).expect("inner");
            let mut rows = vec![];
            for (i, st) in d.trace.iter().enumerate() {
                if let air_interpreter_data::ExecutedState::Call(cr) = st { if let Some(cid) = cr.get_cid() { let s = cid.get_inner(); let b = s.as_bytes();
                    rows.push(json!({"pos": i, "len": b.len(), "utf8": std::str::from_utf8(b).is_ok(), "head": String::from_utf8_lossy(&b[..b.len().min(70)]), "ptr_in_input": (b.as_ptr() as usize) })); } }
            }
            json!({"inner_len": env.inner_data.len(), "cids": rows}) }
        _ => json!({"bad_kind": kind}),
    };
    println!("C01CHILD {}", out);
}

/// runs a case in a child with RLIMIT_AS and an 8 MiB stack; classifies death by signal
fn in_child(kind: &str, payload: &str, tag: &str) -> Kind {
    use std::os::unix::process::{CommandExt, ExitStatusExt};
    let dir = verif_root().join("work");
    let _ = std::fs::create_dir_all(&dir);
    let path = dir.join(format!("c01_child_{}_{}.in", std::process::id(), tag));
    std::fs::write(&path, payload).expect("write child input");
    let exe = std::env::current_exe().expect("exe");
    let mut cmd = std::process::Command::new(exe);
    cmd.arg("c01-child").arg(kind).arg(&path).stdin(std::process::Stdio::null()).stdout(std::process::Stdio::piped()).stderr(std::process::Stdio::piped());
    unsafe {
        cmd.pre_exec(|| {
            let as_lim = libc::rlimit { rlim_cur: 2 << 30, rlim_max: 2 << 30 };
            libc::setrlimit(libc::RLIMIT_AS, &as_lim);
            let st = libc::rlimit { rlim_cur: 8 << 20, rlim_max: 8 << 20 };
            libc::setrlimit(libc::RLIMIT_STACK, &st);
            let core = libc::rlimit { rlim_cur: 0, rlim_max: 0 };
            libc::setrlimit(libc::RLIMIT_CORE, &core);
            Ok(())
        });
    }
    let out = cmd.output().expect("spawn child");
    let _ = std::fs::remove_file(&path);
    let stdout = String::from_utf8_lossy(&out.stdout).to_string();
    let stderr = String::from_utf8_lossy(&out.stderr).to_string();
    if let Some(line) = stdout.lines().find(|l| l.starts_with("C01CHILD ")) {
        let v: Value = serde_json::from_str(&line[9..]).unwrap_or(Value::Null);
        if let Some(k) = v.get("panic").and_then(|k| k.as_str()) { return Kind::Panic { key: k.to_string(), modelled: v["modelled_as"].as_array().map(|a| a.iter().filter_map(|x| x.as_str().map(|s| s.to_string())).collect()).unwrap_or_default(), msg: v["message"].as_str().unwrap_or("").to_string() }; }
        if let Some(k) = v.get("alloc_blowup").and_then(|k| k.as_str()) { return Kind::Alloc { key: k.to_string(), peak: v["peak_bytes"].as_u64().unwrap_or(0) as usize, limit: v["limit_bytes"].as_u64().unwrap_or(0) as usize }; }
        return Kind::Returned(v["returned"].as_i64().unwrap_or(if v["returned"].as_bool().unwrap_or(false) { 1 } else { 0 }));
    }
    let sig = out.status.signal();
    if let Some(l) = stderr.lines().filter(|l| l.starts_with("C01PANIC ")).last() {
        let mut it = l[9..].splitn(2, " | ");
        let key = it.next().unwrap_or("").trim().trim_start_matches("panic:").to_string();
        return Kind::Abort { key: format!("abort:non-unwinding-panic:{key}"), detail: format!("signal {:?}; {}", sig, it.next().unwrap_or("")) };
    }
    if let Some(l) = stderr.lines().filter(|l| l.starts_with("C01ALLOCFAIL ")).last() {
        let site = l[13..].split(" | ").next().unwrap_or("?").trim().to_string();
        let segs: Vec<&str> = site.split("::").collect();
        let lower: Vec<&str> = segs.iter().cloned().take_while(|seg| seg.chars().next().map(|c| c.is_lowercase() || c == '_').unwrap_or(false)).collect();
        let module = if lower.len() < segs.len() { lower.join("::") } else if lower.len() > 1 { lower[..lower.len() - 1].join("::") } else { site.clone() };
        return Kind::Abort { key: format!("abort:allocation-failure:{module}"), detail: format!("signal {:?}; {}", sig, stderr.lines().filter(|l| l.contains("memory allocation of")).last().unwrap_or("")) };
    }
    let what = if stderr.contains("has overflowed its stack") { "stack-overflow" } else if stderr.contains("memory allocation of") { "allocation-failure" } else { "killed" };
    let detail = format!("signal {:?}, exit {:?}, stderr: {}", sig, out.status.code(), stderr.lines().filter(|l| !l.trim().is_empty()).last().unwrap_or("").chars().take(160).collect::<String>());
    Kind::Abort { key: format!("abort:{kind}:{what}"), detail }
}

// ------------------------------------------------------------------------------------------------
// reporting

struct Sink<'a> { rep: &'a mut Report, seen: BTreeSet<String> }
impl<'a> Sink<'a> {
    /// one oracle failure per distinct finding key (the report keeps at most 20 entries)
    /// `cause` = class of the triggering input (see `case_cause` / `text_cause`): it is part of the finding key, so that a
    /// known finding does not mask a panic at the same site that has another kind of cause
    fn fail(&mut self, k: &Kind, entry: &str, input: Value, outside_quantifier: bool, cause: &str) {
        let key = format!("{}@{cause}", k.finding_key().unwrap_or_default());
        self.rep.stat(&format!("bad_outcome[{entry}]:{key}"));
        if outside_quantifier { self.rep.stat(&format!("outside_quantifier:{key}")); return; }
        if self.seen.insert(key.clone()) {
            self.rep.oracle_fail(json!({"why": format!("{entry}: {}", k.brief()), "finding_key": key, "entry_point": entry, "input": input}));
        }
    }
}

// ------------------------------------------------------------------------------------------------
// cause classes (second half of a finding key)

/// class of an AIR text: bracket nesting depth and character set
fn text_cause(text: &str) -> &'static str {
    let (mut d, mut max) = (0i64, 0i64);
    for b in text.bytes() { match b { b'(' | b'[' => { d += 1; if d > max { max = d; } } b')' | b']' => d -= 1, _ => {} } }
    if max >= 10_000 { "nesting>=10000" } else if max >= 1_000 { "nesting>=1000" } else if !text.is_ascii() { "non-ascii-text" } else { "ascii-text" }
}

const MALFORMED_KINDS: [&str; 9] = ["bitflip", "bytes-overwritten", "truncated", "random-bytes", "rkyv-bytes-damaged", "envelope-claims-4GiB-inner", "call-results-bytes-damaged", "call-results-random-bytes", "odd-interpreter-version"];

fn has_empty_string_field(j: &Value) -> bool {
    let ci = &j["cid_info"];
    let empty_key_or = |store: &str, f: &dyn Fn(&Value) -> bool| ci[store].as_object().map(|o| o.iter().any(|(k, v)| k.is_empty() || f(v))).unwrap_or(false);
    empty_key_or("value_store", &|v| v.as_str() == Some("")) || empty_key_or("service_result_store", &|v| v["argument_hash"].as_str() == Some("") || v["value_cid"].as_str() == Some("") || v["tetraplet_cid"].as_str() == Some(""))
        || j["trace"].as_array().map(|t| t.iter().any(|s| s.to_string().contains("\"\""))).unwrap_or(false)
}

/// class of the input of an `execute_air` case: where the data comes from and which gross feature it has
fn case_cause(c: &Case, cur_j: Option<&Value>, prev_j: Option<&Value>) -> String {
    if MALFORMED_KINDS.contains(&c.note.as_str()) { return if c.raw_results.is_some() { "damaged-call-results".into() } else { "byte-damage".into() }; }
    if c.outside_quantifier { return "crafted-previous-data".into(); }
    if c.cur.is_empty() { return "honest-data".into(); }
    let gen = cur_j.map(max_generation).unwrap_or(0).max(prev_j.map(max_generation).unwrap_or(0));
    // crafted data that must not be decoded in this process carries an empty string (see the catalog)
    if c.abort_risk || cur_j.map(has_empty_string_field).unwrap_or(false) { return "crafted-data:empty-string-field".into(); }
    if gen >= (1 << 20) { return "crafted-data:generation>=2^20".into(); }
    "crafted-data".into()
}

// ------------------------------------------------------------------------------------------------
// text corpus (parse / beautify)

const NON_ASCII: [&str; 8] = ["é", "ß", "λ", "Ж", "中", "\u{0661}", "\u{1F600}", "\u{00A0}"];

fn seed_texts(rng: &mut Rng) -> Vec<String> {
    let me = Peer::new("a").id;
    let mut v: Vec<String> = vec![
        r#"(call "p" ("s" "f") [x.$.é])"#.into(),
        r#"(call "p" ("s" "f") [x.$.a.[0].b!] y)"#.into(),
        format!(r#"(seq (call "{me}" ("s" "arr") [] x) (fold x x (seq (call "{me}" ("s" "id") [x]) (next x))))"#),
        r#"(seq (ap "a" $s) (fold $s i (seq (canon %init_peer_id% $s #c) (next i))))"#.into(),
        r#"(new $s (seq (ap 1 $s) (canon "p" $s #c)))"#.into(),
        r#"(xor (match 1 1 (fail 1 "x")) (fail %last_error%))"#.into(),
        r#"(seq (ap ("k" 1) %m) (seq (canon "p" %m #%c) (call "p" ("s" "f") [#%c.$.k.[0] %last_error%.$.message :error:.$.error_code %ttl% %timestamp% -1 1.5 true []])))"#.into(),
        r#"(fold #c.$.[0] i (par (next i) (never)) (null))"#.into(),
        r#"(call %init_peer_id% (s.$.a f.$.[0]) [$s #c.length x.length])"#.into(),
        "".into(), "(".into(), ")".into(), "(seq)".into(), "(call".into(), "\"".into(), "(null) (null)".into(), "; comment only".into(), "(null) ; trailing".into(),
    ];
    for _ in 0..12 {
        let cfg = crate::script::GenCfg { peers: peers_for(3).iter().map(|p| p.id.clone()).collect(), streams: true, fragment: false, budget: 10, failing_services: true };
        let mut g = crate::script::Gen::new(rng, cfg);
        v.push(g.script().text());
    }
    v
}

/// token-class aware and byte-level mutations of AIR text
fn mutate_text(t: &str, rng: &mut Rng) -> String {
    let chars: Vec<char> = t.chars().collect();
    let pos = |rng: &mut Rng| if chars.is_empty() { 0 } else { rng.below(chars.len() + 1) };
    let ins = |i: usize, s: &str| -> String { let mut o: String = chars[..i].iter().collect(); o.push_str(s); o.extend(chars[i..].iter()); o };
    match rng.below(12) {
        0 | 1 | 2 => { // a non-ASCII character inside a token of a chosen class
            let classes: Vec<usize> = chars.iter().enumerate().filter(|(_, c)| match rng.0 % 5 { 0 => c.is_ascii_alphabetic(), 1 => c.is_ascii_digit(), 2 => **c == '.' || **c == '$', 3 => **c == '"' || **c == '%' || **c == '#', _ => **c == '[' || **c == ']' || **c == '(' }).map(|(i, _)| i).collect();
            let i = if classes.is_empty() { pos(rng) } else { classes[rng.below(classes.len())] + rng.below(2) };
            ins(i.min(chars.len()), *rng.pick(&NON_ASCII))
        }
        3 => { if chars.is_empty() { return t.into(); } let i = rng.below(chars.len()); let mut c = chars.clone(); c.remove(i); c.into_iter().collect() }
        4 => { let i = pos(rng); ins(i, *rng.pick(&["(", ")", "[", "]", "\"", ".", "$", "!", "#", "%", "-", " ", "\n", ";", ".$.", ".length", "\\", "\0", "\u{feff}"])) }
        5 => { // lens appended to some identifier
            let ids: Vec<usize> = (1..chars.len()).filter(|&i| chars[i - 1].is_ascii_alphanumeric() && (chars[i] == ' ' || chars[i] == ']' || chars[i] == ')')).collect();
            if ids.is_empty() { return t.into(); }
            let lens = *rng.pick(&[".$.a", ".$.[0]", ".$.é", ".$.[4294967296]", ".$.[99999999999999999999]", ".$.a!", ".$.[x]", ".$.[x.$.y]", ".$", ".$.", ".length", ".$.a.[0].b.[1]!", ".$.[-1]", ".$.\u{0661}"]);
            ins(ids[rng.below(ids.len())], lens)
        }
        6 => { // numbers at the limits
            let n = *rng.pick(&["9223372036854775807", "9223372036854775808", "-9223372036854775809", "1e999", "-0", "0x10", "1.7976931348623157e309", "00", "1.", ".5", "1e-999", "١٢"]);
            ins(pos(rng), &format!(" {n} "))
        }
        7 => { let mut b = t.as_bytes().to_vec(); if b.is_empty() { return t.into(); } let i = rng.below(b.len()); b[i] ^= 1 << rng.below(8); String::from_utf8_lossy(&b).into_owned() }
        8 => { let i = pos(rng); chars[..i].iter().collect() }
        9 => { let (i, j) = (pos(rng), pos(rng)); let (i, j) = (i.min(j), i.max(j)); let mid: String = chars[i..j].iter().collect(); ins(j, &mid) }
        10 => { // keyword / sigil substitutions
            let (a, b) = *rng.pick(&[("seq", "par"), ("call", "canon"), ("fold", "new"), ("$", "#"), ("#", "#%"), ("%", "$"), ("next", "fail"), ("xor", "match"), ("ap", "call")]);
            t.replacen(a, b, 1)
        }
        _ => { let i = pos(rng); let k = 1 + rng.below(40); ins(i, &rng.pick(&["(seq ", "[", "(", "\"", ".$.a", "(new $s "]).repeat(k)) }
    }
}

pub fn deep_text(kind: &str, depth: usize) -> String {
    match kind {
        "seq" => format!("{}(null){}", "(seq (null) ".repeat(depth), ")".repeat(depth)),
        "par" => format!("{}(null){}", "(par ".repeat(depth), " (null))".repeat(depth)),
        "xor" => format!("{}(null){}", "(xor (null) ".repeat(depth), ")".repeat(depth)),
        "new" => format!("{}(null){}", "(new x ".repeat(depth), ")".repeat(depth)),
        // distinct iterator names: with one name the validator reports `depth` errors and rendering them is quadratic (minutes at 5000)
        "fold" => format!("{}(null){}", (0..depth).map(|k| format!("(fold [] i{k} ")).collect::<String>(), ")".repeat(depth)),
        "match" => format!("{}(null){}", "(match 1 1 ".repeat(depth), ")".repeat(depth)),
        "open" => "(".repeat(depth),
        "bracket" => format!("(call \"p\" (\"s\" \"f\") [{}])", "[".repeat(depth)),
        "lens" => format!("(call \"p\" (\"s\" \"f\") [x.${}])", ".[0]".repeat(depth)),
        _ => format!("{}(null){}", "(seq (null) ".repeat(depth), ")".repeat(depth)),
    }
}

fn check_text(inv: &Inventory, sink: &mut Sink, text: &str, label: &str) {
    let (r, bad) = guarded_text(inv, text.len(), || air_parser::parse(text).map(|_| ()).map_err(|e| e.len()));
    sink.rep.stat(match (&r, &bad) { (_, Some(_)) => "parse:bad", (Some(Ok(())), _) => "parse:ok", _ => "parse:rejected" });
    let short = || -> Value { if text.len() <= 400 { json!({"air": text, "label": label}) } else { json!({"air_prefix": text.chars().take(120).collect::<String>(), "air_len": text.len(), "label": label, "recipe": label}) } };
    if let Some(k) = &bad { sink.fail(k, "air_parser::parse", short(), false, text_cause(text)); }
    let (r2, bad2) = guarded_text(inv, text.len(), || { let mut out = vec![]; air_beautifier::Beautifier::new(&mut out).enable_all_patterns().beautify(text).is_ok() });
    sink.rep.stat(match (&r2, &bad2) { (_, Some(_)) => "beautify:bad", (Some(true), _) => "beautify:ok", _ => "beautify:rejected" });
    if let Some(k) = &bad2 { sink.fail(k, "air_beautifier::Beautifier::beautify", short(), false, text_cause(text)); }
    let nontrivial = text.len() > 2;
    sink.rep.case(&format!("text|{text}"), nontrivial, || json!({"text": text.chars().take(160).collect::<String>(), "label": label, "parse": bad.as_ref().map(|k| k.brief()).unwrap_or(json!(r.map(|x| x.is_ok()))), "beautify": bad2.as_ref().map(|k| k.brief())}));
}

// ------------------------------------------------------------------------------------------------
// data-level cases: run, oracle, model comparison, pretty printer

fn data_or_null(b: &[u8]) -> Option<Value> { if b.is_empty() { return Some(Value::Null); } let j = data_json(b); if j.is_null() || j.get("panic_while_printing_decoded_data").is_some() { None } else { Some(j["data"].clone()) } }

fn max_generation(j: &Value) -> u64 {
    let mut m = 0;
    for s in j["trace"].as_array().cloned().unwrap_or_default() {
        if let Some(g) = s.get("call").and_then(|c| c.get("executed")).and_then(|e| e.get("stream")).and_then(|x| x["generation"].as_u64()) { m = m.max(g); }
        for g in s.get("ap").and_then(|a| a["gens"].as_array()).cloned().unwrap_or_default() { m = m.max(g.as_u64().unwrap_or(0)); }
    }
    m
}

struct DataRun<'a> { inv: &'a Inventory, child_budget: usize, hrd_seen: BTreeSet<u64> }

impl<'a> DataRun<'a> {
    fn check_hrd(&mut self, sink: &mut Sink, bytes: &[u8], label: &str) {
        if bytes.is_empty() || !self.hrd_seen.insert(fnv(&hex(bytes))) { return; }
        let b = bytes.to_vec();
        let (r, bad) = guarded(self.inv, bytes.len(), || air::to_human_readable_data(b).is_ok());
        sink.rep.stat(match (&r, &bad) { (_, Some(_)) => "human_readable:bad", (Some(true), _) => "human_readable:ok", _ => "human_readable:rejected" });
        sink.rep.evaluations += 1;
        if let Some(k) = &bad { sink.fail(k, "air::to_human_readable_data", json!({"data_hex": hex(bytes), "label": label}), false, if label == "honest" { "honest-data" } else { "crafted-or-damaged-data" }); }
    }

    /// one full case: execute_air (in-process, or in a child when the data could make the process abort), the pretty printer on
    /// its data, and the comparison with the model when the case is inside the modelled fragment
    fn run(&mut self, ctx: &mut Ctx, sink: &mut Sink, c: &Case) -> Kind {
        if std::env::var("C01_DEBUG").is_ok() { eprintln!("C01_DEBUG case {} | {}", c.label, c.note); }
        let cur_j = if c.abort_risk { None } else { data_or_null(&c.cur) };
        let prev_j = if c.abort_risk { None } else { data_or_null(&c.prev) };
        let risky = c.abort_risk || cur_j.as_ref().map(max_generation).unwrap_or(0).max(prev_j.as_ref().map(max_generation).unwrap_or(0)) > 2_000_000;
        let (kind, outcome) = if risky {
            if self.child_budget == 0 { sink.rep.stat("skipped:child_budget_exhausted"); return Kind::Returned(i64::MIN); }
            self.child_budget -= 1;
            sink.rep.stat("ran_in_child_process");
            (in_child("run", &serde_json::to_string(&c.to_json()).unwrap(), &format!("{:x}", fnv(&c.label))), None)
        } else { c.run_here(self.inv) };
        let canon = format!("{}|{}|{}|{}|{}", c.air, fnv(&hex(&c.prev)), fnv(&hex(&c.cur)), c.peer.name, c.results.len());
        let reached = match &kind { Kind::Returned(code) => !(1..=9999).contains(code), _ => true };
        sink.rep.case(&canon, reached, || json!({"label": c.label, "note": c.note, "air": c.air.chars().take(200).collect::<String>(), "outcome": kind.brief()}));
        sink.rep.stat(&match &kind { Kind::Returned(code) => format!("ret_{}", crate::gen_codes::name_of(*code)), Kind::Panic { .. } => "PANIC".into(), Kind::Abort { .. } => "ABORT".into(), Kind::Alloc { .. } => "ALLOC_BLOWUP".into() });
        if kind.finding_key().is_some() { let cause = case_cause(c, cur_j.as_ref(), prev_j.as_ref()); sink.fail(&kind, "air::execute_air", c.to_json(), c.outside_quantifier, &cause); }
        if !c.abort_risk { self.check_hrd(sink, &c.cur, &c.label); }
        if let Some(o) = &outcome { self.check_hrd(sink, &o.data, &c.label); }
        // model: execution stage only, on decoded data
        self.compare_model(ctx, sink, c, &kind, prev_j, cur_j);
        kind
    }

    fn compare_model(&mut self, ctx: &mut Ctx, sink: &mut Sink, c: &Case, kind: &Kind, prev_j: Option<Value>, cur_j: Option<Value>) {
        if c.raw_results.is_some() { return; }
        let (Some(prev_j), Some(cur_j)) = (prev_j, cur_j) else { return; };
        let ast = match std::panic::catch_unwind(|| air_parser::parse(&c.air).ok().map(|a| serde_json::to_value(&a).unwrap())) { Ok(Some(a)) => a, _ => return };
        // outcomes decided before / after the execution stage are outside the `exec` op
        match kind {
            Kind::Returned(code) if (1..=9999).contains(code) || *code == i64::MIN => return,
            Kind::Abort { .. } | Kind::Alloc { .. } => return,
            Kind::Panic { key, modelled, .. } if modelled.is_empty() && !key.contains("execution_step") && !key.contains("trace-handler") && !key.contains("raw_value") => { sink.rep.stat("panic_outside_exec_model"); return; }
            _ => {}
        }
        // `serde_json::from_str` is a parameter of the model: tell it which texts the real parser rejects; texts holding
        // floats are outside the model's JSON values
        let mut texts: Vec<String> = c.results.values().map(|r| r.result.clone()).collect();
        for d in [&prev_j, &cur_j] { for (_, v) in d["cid_info"]["value_store"].as_object().cloned().unwrap_or_default() { if let Some(t) = v.as_str() { texts.push(t.to_string()); } } }
        let mut not_json = vec![];
        fn has_float(v: &Value) -> bool { match v { Value::Number(n) => n.is_f64(), Value::Array(a) => a.iter().any(has_float), Value::Object(o) => o.values().any(has_float), _ => false } }
        for t in texts {
            match serde_json::from_str::<air_interpreter_value::JValue>(&t) {
                Err(_) => not_json.push(t),
                Ok(_) => { if serde_json::from_str::<Value>(&t).map(|v| has_float(&v)).unwrap_or(true) { sink.rep.unmodelled += 1; sink.rep.stat("unmodelled:float or non-portable JSON text in the inputs"); return; } }
            }
        }
        let req = json!({"op": "c01_exec", "not_json": not_json, "ast": ast, "prev": prev_j, "cur": cur_j, "params": {"init": c.init_id, "me": c.peer.id, "ts": TS, "ttl": TTL},
            "results": c.results.iter().map(|(k, v)| (k.clone(), json!({"ret_code": v.ret_code, "result": v.result}))).collect::<BTreeMap<_, _>>()});
        let m = ctx.driver.ask(&req);
        if let Some(u) = m.get("unmodelled") { sink.rep.unmodelled += 1; sink.rep.stat(&format!("unmodelled:{}", u.as_str().unwrap_or("?").chars().take(36).collect::<String>())); return; }
        sink.rep.model_compared += 1;
        let model_kind = if let Some(s) = m.get("panic").and_then(|s| s.as_str()) { format!("panic({s})") } else { format!("returned({})", m["code"]) };
        let agree = match kind {
            Kind::Returned(code) => m.get("panic").is_none() && m["code"].as_i64() == Some(*code),
            Kind::Panic { modelled, .. } => m.get("panic").and_then(|s| s.as_str()).map(|s| modelled.iter().any(|x| x == s)).unwrap_or(false),
            _ => true,
        };
        if m.get("panic").is_some() { sink.rep.stat(&format!("model_{model_kind}")); }
        if !agree {
            sink.rep.disagree(json!({"op": "exec(outcome kind)", "why": format!("model says {model_kind}, implementation {}", kind.brief()), "model": model_kind, "implementation": kind.brief(),
                "classification_of_the_real_site": match kind { Kind::Panic { modelled, .. } => json!(modelled), _ => Value::Null }, "request": req, "case": c.to_json()}));
        }
    }
}

// ------------------------------------------------------------------------------------------------
// the targeted catalog

fn attacker() -> Peer { Peer::new("b") }
fn victim() -> Peer { Peer::new("a") }

fn forged_case(label: &str, note: &str, air: String, craft: Craft, results: CallResults) -> Case {
    let a = attacker();
    let mut c = craft;
    c.resign(&a, "c01");
    Case { label: label.into(), note: note.into(), air, prev: vec![], cur: c.encode().expect("crafted data encodes"), peer: victim(), init_id: a.id.clone(), particle: "c01".into(), results, raw_results: None, outside_quantifier: false, abort_risk: false }
}

/// every known suspect as a deterministic scenario: the attacker `b` sends crafted, consistently signed data to `a`
pub fn catalog() -> Vec<Case> {
    let (a, v) = (attacker(), victim());
    let (aid, vid) = (a.id.clone(), v.id.clone());
    let mut out = vec![];
    // 1. raw value that is not JSON, in a store entry with a matching CID
    for (raw, tag) in [("not json", "not-json"), ("", "empty"), ("{\"a\":", "truncated")] {
        let mut c = Craft::empty();
        let cid = c.forge_result(&a, "s", "f", &[], raw);
        c.trace().push(st_scalar(&cid));
        out.push(forged_case(&format!("raw-value-{tag}"), "value store text that is not JSON under its correct CID; the call result is an executed scalar of the attacker",
            format!(r#"(seq (call "{aid}" ("s" "f") [] x) (call "{vid}" ("s" "id") [x] y))"#), c, CallResults::new()));
    }
    { // the same text in PREVIOUS data is not re-verified (previous data is the peer's own output): outside the quantifier; the model keeps this panic site
      let mut c = Craft::empty(); let cid = c.forge_result(&a, "s", "f", &[], "not json"); c.trace().push(st_scalar(&cid)); c.resign(&a, "c01");
      out.push(Case { label: "raw-value-not-json-in-previous-data".into(), note: "a non-JSON value text in PREVIOUS data (never produced by the interpreter)".into(),
        air: format!(r#"(seq (call "{aid}" ("s" "f") [] x) (call "{vid}" ("s" "id") [x] y))"#), prev: c.encode().unwrap(), cur: vec![], peer: v.clone(), init_id: aid.clone(), particle: "c01".into(),
        results: CallResults::new(), raw_results: None, outside_quantifier: true, abort_risk: false }); }
    // the same through a failed call and through an unused-output call / stream
    { let mut c = Craft::empty(); let cid = c.forge_result(&a, "s", "f", &[], "not json"); c.trace().push(st_failed(&cid));
      out.push(forged_case("raw-value-not-json-failed", "failed-call state whose error value text is not JSON", format!(r#"(xor (call "{aid}" ("s" "f") [] x) (null))"#), c, CallResults::new())); }
    { let mut c = Craft::empty(); let cid = c.forge_result(&a, "s", "f", &[], "not json"); c.trace().push(st_stream(&cid, 0));
      out.push(forged_case("raw-value-not-json-stream", "stream value whose text is not JSON", format!(r#"(call "{aid}" ("s" "f") [] $s)"#), c, CallResults::new())); }
    // 2. trace CID absent from the (verified) stores
    for (st, tag) in [(st_scalar("bagaaihrabogusbogusbogusbogusbogusbogusbogusbogusbogusbogus"), "scalar"), (st_failed("bagaaihrabogus"), "failed"), (json!({"canon": {"executed": "bagaaihrabogus"}}), "canon")] {
        let mut c = Craft::empty(); c.trace().push(st);
        out.push(forged_case(&format!("trace-cid-missing-{tag}"), "trace state naming a content id that no store has; CidInfo::verify does not look at the trace", format!(r#"(call "{aid}" ("s" "f") [] x)"#), c, CallResults::new()));
    }
    { // aggregate present, its tetraplet missing is caught by check_reference: must be an error, not a panic
      let mut c = Craft::empty(); let vcid = c.add_raw_value("1"); let cid = c.add_service_result(&vcid, "h", "bagaaihramissingtetraplet"); c.trace().push(st_scalar(&cid));
      out.push(forged_case("aggregate-tetraplet-missing", "service result aggregate naming a missing tetraplet", format!(r#"(call "{aid}" ("s" "f") [] x)"#), c, CallResults::new())); }
    // 3./7. fold lore: positions, lengths, value_pos
    let fold_air = format!(r#"(seq (call "{aid}" ("s" "f") [] $s) (fold $s i (seq (call "{vid}" ("s" "id") [i] y) (next i))))"#);
    let fold_par_air = format!(r#"(seq (call "{aid}" ("s" "f") [] $s) (fold $s i (par (call "{vid}" ("s" "id") [i] y) (next i))))"#);
    let lores: Vec<(&str, Vec<(u64, (u64, u64), (u64, u64))>, Vec<Value>)> = vec![
        ("begin-max-len-1", vec![(0, (0xffff_ffff, 1), (2, 0))], vec![st_sent(&aid)]),
        ("begin-max-1-len-2", vec![(0, (0xffff_fffe, 2), (2, 0))], vec![st_sent(&aid)]),
        ("after-begin-max-len-1", vec![(0, (2, 1), (0xffff_ffff, 1))], vec![st_sent(&aid)]),
        ("begin-huge-len-0", vec![(0, (4_000_000_000, 0), (2, 0))], vec![]),
        ("after-huge-len-0", vec![(0, (2, 0), (4_000_000_000, 0))], vec![]),
        ("len-max", vec![(0, (2, 0xffff_ffff), (3, 0))], vec![st_sent(&aid)]),
        ("lens-sum-overflow", vec![(0, (2, 0x8000_0000), (3, 0x8000_0000))], vec![st_sent(&aid)]),
        ("after-lens-accumulate-overflow", vec![(0, (2, 0), (2, 0xffff_ffff)), (0, (2, 0), (2, 0xffff_ffff))], vec![]),
        ("value-pos-out-of-trace", vec![(77, (2, 1), (3, 0))], vec![st_sent(&aid)]),
        ("value-pos-max", vec![(0xffff_ffff, (2, 1), (3, 0))], vec![st_sent(&aid)]),
        ("value-pos-names-empty-ap", vec![(2, (3, 0), (3, 0))], vec![st_ap(&[])]),
        ("value-pos-names-fold-itself", vec![(1, (2, 0), (2, 0))], vec![]),
        ("same-value-pos-twice", vec![(0, (2, 0), (2, 0)), (0, (2, 0), (2, 0))], vec![]),
    ];
    for (tag, lore, rest) in &lores {
        for (air, atag) in [(&fold_air, "seq"), (&fold_par_air, "par")] {
            let mut c = Craft::empty();
            let cid = c.forge_result(&a, "s", "f", &[], "\"v\"");
            c.trace().push(st_stream(&cid, 0)); c.trace().push(st_fold(lore)); for s in rest { c.trace().push(s.clone()); }
            out.push(forged_case(&format!("fold-lore-{tag}-{atag}"), "stream fold whose recorded lore is hostile", air.clone(), c, CallResults::new()));
        }
    }
    { // fold lore with fewer than two sub-trace descriptors (also met by an instruction that expects another state kind → error text)
      for (n, tag) in [(0usize, "none"), (1, "one"), (3, "three")] {
        let desc: Vec<Value> = (0..n).map(|_| json!({"pos": 2, "len": 0})).collect();
        let fold = json!({"fold": {"lore": [{"pos": 0, "desc": desc}]}});
        let mut c = Craft::empty(); let cid = c.forge_result(&a, "s", "f", &[], "\"v\""); c.trace().push(st_stream(&cid, 0)); c.trace().push(fold.clone());
        out.push(forged_case(&format!("fold-lore-desc-count-{tag}"), "fold lore entry with a wrong number of sub-trace descriptors", fold_air.clone(), c, CallResults::new()));
        let mut c = Craft::empty(); c.trace().push(fold);
        out.push(forged_case(&format!("fold-lore-desc-count-{tag}-met-by-call"), "the same state where a call state is expected (the error message prints the state)", format!(r#"(call "{vid}" ("s" "f") [] x)"#), c, CallResults::new()));
      } }
    // 4. generations
    for g in [1u64, 1000, 3_000_000, 0x7fff_ffff, 0xffff_fffe, 0xffff_ffff] {
        let mut c = Craft::empty(); let cid = c.forge_result(&a, "s", "f", &[], "\"v\""); c.trace().push(st_stream(&cid, g));
        out.push(forged_case(&format!("stream-generation-{g}"), "executed stream call with an adversarial generation number (allocation is generation+1 vectors)", format!(r#"(call "{aid}" ("s" "f") [] $s)"#), c, CallResults::new()));
        let mut c = Craft::empty(); c.trace().push(st_ap(&[g]));
        out.push(forged_case(&format!("ap-generation-{g}"), "ap state with an adversarial generation number", r#"(ap "x" $s)"#.to_string(), c, CallResults::new()));
    }
    for gens in [vec![], vec![0u64, 0], vec![1, 2, 3]] {
        let mut c = Craft::empty(); c.trace().push(st_ap(&gens));
        out.push(forged_case(&format!("ap-gens-{}", gens.len()), "ap state with an empty / multiple generation list", r#"(seq (ap "x" $s) (fold $s i (seq (null) (next i))))"#.to_string(), c, CallResults::new()));
    }
    // 5. executed / failed state for a call whose arguments are still unresolved on the receiver
    for (tag, st_of) in [("executed", 0), ("failed", 1), ("own-request", 2)] {
        let mut c = Craft::empty();
        let cid = c.forge_result(&a, "s", "g", &[json!(1)], if st_of == 1 { "{\"ret_code\":1,\"message\":\"m\"}" } else { "\"v\"" });
        c.trace().push(st_par(1, 1)); c.trace().push(st_sent(&aid));
        c.trace().push(match st_of { 0 => st_scalar(&cid), 1 => st_failed(&cid), _ => st_sent_id(&vid, 1) });
        let mut results = CallResults::new();
        if st_of == 2 { results.insert("1".into(), CallServiceResult::ok(&json!("late"))); }
        out.push(forged_case(&format!("unresolved-args-{tag}"), "the data records a state for a call whose argument `x` is not yet defined on the receiver (its producer is still pending)",
            format!(r#"(par (call "{aid}" ("s" "f") [] x) (call "{vid}" ("s" "g") [x] y))"#), c, results));
    }
    // 6. scalar / iterator clash (no crafted data): an ordinary script; the second run (with the call result) reads `x`
    { let air = format!(r#"(seq (call "{vid}" ("s" "arr") [] x) (fold x x (seq (call "{vid}" ("s" "id") [x]) (next x))))"#);
      let first = crate::host::run(&RunArgs { air: &air, prev: &[], cur: &[], init_peer_id: &vid, peer: &v, particle_id: "c01", timestamp: TS, ttl: TTL, results: &CallResults::new(), limits: Limits::unlimited() });
      let mut results = CallResults::new(); results.insert("1".into(), CallServiceResult::ok(&json!([1, 2])));
      out.push(Case { label: "scalar-iterator-clash".into(), note: "a scalar and a fold iterator with the same name; second run, the service answered [1,2]".into(),
        air, prev: first.data, cur: vec![], peer: v.clone(), init_id: vid.clone(), particle: "c01".into(), results, raw_results: None, outside_quantifier: false, abort_risk: false }); }
    // 6b. a stream written outside every open `new` scope of the same name (no crafted data): before the repair in /repo
    //     (fix: 77bc49e) the scoped embodiments were dropped and a later scope end hit `get_mut(&name).unwrap()` on None
    for (tag, body) in [("stream", r#"(seq (xor (match i 3 (ap i $s)) (null)) (new $s (next i)))"#), ("stream-always", r#"(seq (ap i $s) (new $s (next i)))"#),
                        ("stream-map", r#"(seq (xor (match i 3 (ap ("k" i) %s)) (null)) (new %s (next i)))"#), ("stream-nested", r#"(new $s (seq (new $t (seq (ap i $s) (next i))) (ap i $t)))"#)] {
      let air = format!(r#"(seq (call "{vid}" ("s" "arr") [] arr) (fold arr i {body}))"#);
      let first = crate::host::run(&RunArgs { air: &air, prev: &[], cur: &[], init_peer_id: &vid, peer: &v, particle_id: "c01", timestamp: TS, ttl: TTL, results: &CallResults::new(), limits: Limits::unlimited() });
      let mut results = CallResults::new(); results.insert("1".into(), CallServiceResult::ok(&json!([1, 2, 3])));
      out.push(Case { label: format!("write-outside-open-new-scope-{tag}"), note: "a stream is written from outside every open `new` scope of that name while no global embodiment exists yet; second run, the service answered [1,2,3]".into(),
        air, prev: first.data, cur: vec![], peer: v.clone(), init_id: vid.clone(), particle: "c01".into(), results, raw_results: None, outside_quantifier: false, abort_risk: false }); }
    // 10. error_code above i64::MAX
    for (code, tag) in [("18446744073709551615", "u64max"), ("9223372036854775808", "i64max+1"), ("9223372036854775807", "i64max"), ("-9223372036854775808", "i64min"), ("1e400", "float-overflow"), ("1.5", "float")] {
        let mut c = Craft::empty();
        let cid = c.forge_result(&a, "s", "f", &[], &format!("{{\"error_code\":{code},\"message\":\"m\"}}"));
        c.trace().push(st_scalar(&cid));
        out.push(forged_case(&format!("fail-error-code-{tag}"), "`(fail x)` where x comes from the attacker's data", format!(r#"(seq (call "{aid}" ("s" "f") [] x) (fail x))"#), c, CallResults::new()));
    }
    // par sizes
    for (l, r) in [(0xffff_ffffu64, 0u64), (0, 0xffff_ffff), (0xffff_ffff, 0xffff_ffff), (0x8000_0000, 0x8000_0000), (1, 0xffff_ffff), (5, 0), (0, 5)] {
        let mut c = Craft::empty(); c.trace().push(st_par(l, r)); c.trace().push(st_sent(&aid));
        out.push(forged_case(&format!("par-sizes-{l}-{r}"), "par state with adversarial sub-trace sizes", format!(r#"(par (call "{aid}" ("s" "f") [] x) (call "{vid}" ("s" "g") [] y))"#), c, CallResults::new()));
    }
    // empty unsized fields (`Box<str>`, `Rc<str>`): rkyv 0.7 rebuilds them from a null pointer
    { let mut c = Craft::empty(); let v = c.add_raw_value("1"); let t = c.add_tetraplet(&aid, "s", "f", ""); let cid = c.add_service_result(&v, "", &t); c.trace().push(st_scalar(&cid));
      out.push(forged_case("empty-argument-hash", "service result aggregate with an empty argument hash string", format!(r#"(call "{aid}" ("s" "f") [] x)"#), c, CallResults::new())); }
    { let mut c = Craft::empty(); c.trace().push(st_unused(""));
      out.push(forged_case("empty-cid-in-trace", "trace state whose content id is the empty string", format!(r#"(call "{aid}" ("s" "f") [])"#), c, CallResults::new())); }
    for c in out.iter_mut() { if ["raw-value-empty", "empty-argument-hash", "empty-cid-in-trace"].contains(&c.label.as_str()) { c.abort_risk = true; } }
    // 9. lcid = u32::MAX: the counter is taken from PREVIOUS data only (outside the quantifier: previous data is the interpreter's own output)
    for l in [0xffff_ffffu64, 0xffff_fffe] {
        let mut c = Craft::empty(); c.j["lcid"] = json!(l);
        let bytes = c.encode().unwrap();
        out.push(Case { label: format!("lcid-{l}-in-current-data"), note: "request counter at the limit in CURRENT data (ignored by the interpreter)".into(), air: format!(r#"(call "{vid}" ("s" "f") [] x)"#), prev: vec![], cur: bytes.clone(), peer: v.clone(), init_id: vid.clone(),
            particle: "c01".into(), results: CallResults::new(), raw_results: None, outside_quantifier: false, abort_risk: false });
        out.push(Case { label: format!("lcid-{l}-in-previous-data"), note: "request counter at the limit in PREVIOUS data (not producible by the interpreter in practice: needs 2^32 requests)".into(), air: format!(r#"(call "{vid}" ("s" "f") [] x)"#), prev: bytes, cur: vec![], peer: v.clone(), init_id: vid.clone(),
            particle: "c01".into(), results: CallResults::new(), raw_results: None, outside_quantifier: true, abort_risk: false });
    }
    out
}

// ------------------------------------------------------------------------------------------------

fn service_cases() -> Vec<Case> {
    // call results handed in by the host: non-JSON, huge, deep, numbers at the limits
    let v = victim(); let vid = v.id.clone();
    let first = crate::host::run(&RunArgs { air: &format!(r#"(seq (call "{vid}" ("s" "f") [] x) (seq (fail x) (null)))"#), prev: &[], cur: &[], init_peer_id: &vid, peer: &v, particle_id: "c01", timestamp: TS, ttl: TTL, results: &CallResults::new(), limits: Limits::unlimited() });
    let mut out = vec![];
    let texts: Vec<(String, &str)> = vec![
        ("not json".into(), "not-json"), ("".into(), "empty"), ("{\"error_code\":18446744073709551615,\"message\":\"\"}".into(), "error-code-u64max"),
        ("{\"error_code\":9223372036854775808,\"message\":\"x\"}".into(), "error-code-i64max+1"), ("{\"error_code\":-1,\"message\":1}".into(), "message-not-string"),
        (format!("{}1{}", "[".repeat(120), "]".repeat(120)), "deep-120"), (format!("\"{}\"", "x".repeat(1 << 20)), "huge-1MiB"), ("1e999".into(), "float-overflow"), ("\"\\ud800\"".into(), "lone-surrogate"),
    ];
    for (t, tag) in texts {
        for rc in [0, 1, i32::MIN] {
            let mut results = CallResults::new(); results.insert("1".into(), CallServiceResult { ret_code: rc, result: t.clone() });
            out.push(Case { label: format!("call-result-{tag}-rc{rc}"), note: "hostile call result from the host's service".into(), air: format!(r#"(seq (call "{vid}" ("s" "f") [] x) (seq (fail x) (null)))"#), prev: first.data.clone(), cur: vec![], peer: v.clone(), init_id: vid.clone(),
                particle: "c01".into(), results, raw_results: None, outside_quantifier: false, abort_risk: false });
        }
    }
    out
}

pub fn run(ctx: &mut Ctx, rep: &mut Report) {
    install_hook();
    rep.rule = "case = one call of a public entry point on adversarial input: (text) air_parser::parse + Beautifier::beautify on seed/generated scripts mutated per token class (non-ASCII, limits, truncation, nesting up to 5000 in-process, 100000 in a child process); \
        (data) air::execute_air + air::to_human_readable_data on honest data of generated histories decoded, mutated structure-aware (trace positions/lengths, generations, ap lists, missing CIDs, non-JSON raw values, wrong kinds, unresolved-argument states, request counter), stores kept consistent and re-signed with the attacker's key, \
        plus a deterministic catalog of targeted scenarios and a byte-level malformed stream (bit flips, truncation, garbage) for data and call results; every case under catch_unwind with a counting allocator (peak > 64*|inputs| + 64 MiB flags), possible aborts in a child process with RLIMIT_AS 2 GiB; \
        non-trivial = text longer than 2 bytes / data case that passed preparation (reached execution); distinct by hash of the inputs; model comparison = outcome kind (returned(code) | panic(site)) on the `exec` op for cases inside the modelled fragment".into();
    let Some(inv) = Inventory::load() else { rep.disagree(json!({"op": "panic_site_inventory", "why": "lean/Aqua/Gen/PanicSites.json or sites/panic_sites.json is missing or unreadable"})); return; };
    // (0) inventory vs classification: a scanned site that is not classified is a new obligation
    rep.stat_n("inventory:scanned_sites", inv.scanned as u64);
    rep.stat_n("inventory:unreviewed", inv.unreviewed.len() as u64);
    rep.stat_n("inventory:classified_but_vanished(tolerated)", inv.stale as u64);
    if !inv.unclassified.is_empty() {
        rep.disagree(json!({"op": "panic_site_inventory", "why": format!("{} scanned panic site(s) of the Rust code are not in sites/panic_sites.json (new unwrap/index/arithmetic = new obligation)", inv.unclassified.len()),
            "unclassified": inv.unclassified.iter().take(12).collect::<Vec<_>>(), "model": "classified sites", "implementation": "scanned sites"}));
    }
    let thorough = ctx.thorough;
    let t0 = std::time::Instant::now();
    let mut rng = Rng::new(ctx.seed ^ 0xC01);
    {
    let mut sink = Sink { rep: &mut *rep, seen: BTreeSet::new() };

    let phase = |name: &str| { eprintln!("C01 phase {name} at {:.1}s", t0.elapsed().as_secs_f64()); };
    // (1) text entry points
    let seeds = seed_texts(&mut rng);
    for t in &seeds { check_text(&inv, &mut sink, t, "seed"); }
    let n_text = if thorough { 30_000 } else { 2_000 };
    for _ in 0..n_text {
        let mut t = rng.pick(&seeds).clone();
        for _ in 0..(1 + rng.below(3)) { t = mutate_text(&t, &mut rng); }
        if t.len() > 4_000 { continue; }
        check_text(&inv, &mut sink, &t, "mutated");
    }
    for kind in ["seq", "par", "xor", "new", "fold", "match", "open", "bracket", "lens"] {
        // the beautifier's output is quadratic in the nesting depth (indentation): 5000 levels cost seconds and hundreds of MB
        let depths = if thorough { vec![100, 1000, 5000] } else if kind == "seq" || kind == "par" { vec![200, 5000] } else { vec![200, 1500] };
        for depth in depths { check_text(&inv, &mut sink, &deep_text(kind, depth), &format!("deep_text({kind},{depth})")); }
    }
    phase("texts done");
    // deep nesting in a child process (a stack overflow aborts the process)
    let deep: Vec<(&str, usize, &str)> = if thorough { vec![("seq", 100_000, "parse"), ("seq", 400_000, "parse"), ("par", 400_000, "parse"), ("xor", 400_000, "parse"), ("new", 400_000, "parse"), ("match", 400_000, "parse"), ("open", 400_000, "parse"), ("bracket", 400_000, "parse"), ("lens", 400_000, "parse"), ("seq", 400_000, "beautify"), ("seq", 20_000, "parse"), ("seq", 50_000, "parse")] }
        else { vec![("seq", 100_000, "parse"), ("seq", 400_000, "parse")] };
    for (kind, depth, entry) in deep {
        let k = in_child(entry, &deep_text(kind, depth), &format!("{kind}{depth}"));
        sink.rep.case(&format!("child|{entry}|{kind}|{depth}"), true, || json!({"entry": entry, "text": format!("deep_text({kind},{depth})"), "outcome": k.brief()}));
        sink.rep.stat(&format!("child:{entry}:{}", match &k { Kind::Returned(_) => "returned", Kind::Abort { .. } => "ABORT", _ => "bad" }));
        if k.finding_key().is_some() {
            // one finding per entry point and abort kind: nesting depth beyond the stack
            sink.fail(&k, &format!("{entry} (child process)"), json!({"recipe": format!("deep_text({kind:?}, {depth}) = {}…", deep_text(kind, 2)), "depth": depth, "entry": entry}), false, text_cause(&deep_text(kind, depth)));
        }
    }

    phase("deep children done");
    // (2) targeted catalog + hostile call results
    let mut dr = DataRun { inv: &inv, child_budget: if thorough { 9000 } else { 400 }, hrd_seen: BTreeSet::new() };
    let mut cases = catalog();
    cases.extend(service_cases());
    if let Some(f) = &ctx.replay { if let Ok(t) = std::fs::read_to_string(f) { if let Ok(v) = serde_json::from_str::<Value>(&t) { let inp = if v.get("failure").is_some() { v["failure"]["input"].clone() } else { v }; if inp.get("air").is_some() { cases.insert(0, Case::from_json(&inp)); } } } }
    for c in &cases { let k = dr.run(ctx, &mut sink, c); if std::env::var("C01_DEBUG").is_ok() { eprintln!("C01_DEBUG catalog {} => {}", c.label, k.brief()); } sink.rep.stat(&format!("catalog:{}", match k { Kind::Returned(_) => "returned", Kind::Panic { .. } => "panic", Kind::Abort { .. } => "abort", Kind::Alloc { .. } => "alloc" })); }

    phase("catalog done");
    // (3) generated histories: structure-aware mutation of delivered data, attacker = any other participant
    let n_hist = if thorough { 500 } else { 45 };
    let per_step = if thorough { 4 } else { 3 };
    for hi in 0..n_hist {
        let budget = 6 + rng.below(10);
        let h = gen_history(&mut rng, hi % 4 != 3, false, budget, 40);
        let peers: Vec<Peer> = h.net.peers.iter().map(|p| p.peer.clone()).collect();
        let init_id = h.net.peer_ids[h.net.init].clone();
        let steps: Vec<&StepRecord> = h.net.log.iter().filter(|s| !s.cur.is_empty() && s.outcome.ret_code != PANIC_CODE).collect();
        if steps.is_empty() { continue; }
        for _ in 0..per_step {
            let st = *rng.pick(&steps);
            let Some(mut craft) = Craft::from_bytes(&st.cur) else { continue; };
            let others: Vec<&Peer> = peers.iter().filter(|p| p.id != peers[st.peer].id).collect();
            let att = (*rng.pick(&others)).clone();
            let mut what = vec![];
            for _ in 0..(1 + rng.below(3)) { what.push(mutate(&mut craft, &att, &mut rng)); }
            craft.resign(&att, &h.net.particle);
            let Some(cur) = craft.encode() else { sink.rep.stat("mutation_does_not_encode"); continue; };
            let prev = if rng.chance(1, 3) { vec![] } else { st.prev.clone() };
            let c = Case { label: format!("history-{hi}-step-{}", st.step), note: what.join("; "), air: h.air.clone(), prev, cur, peer: peers[st.peer].clone(), init_id: init_id.clone(), particle: h.net.particle.clone(),
                results: if rng.chance(1, 4) { st.results.clone() } else { CallResults::new() }, raw_results: None, outside_quantifier: false,
                abort_risk: what.iter().any(|w| w.contains("raw value \"\"")) || has_empty_string_field(&craft.j) };
            for w in &what { sink.rep.stat(&format!("mutation:{}", w.split(|ch: char| ch.is_ascii_digit() || ch == ':' || ch == '(').next().unwrap_or("").trim())); }
            dr.run(ctx, &mut sink, &c);
        }
        // (4) byte-level malformed stream on the same history
        for _ in 0..(if thorough { 6 } else { 3 }) {
            let st = *rng.pick(&steps);
            let mut cur = st.cur.clone();
            let mut raw_results = None;
            let what = match rng.below(9) {
                0 => { let i = rng.below(cur.len()); cur[i] ^= 1 << rng.below(8); "bitflip" }
                1 => { let k = 1 + rng.below(8); for _ in 0..k { let i = rng.below(cur.len()); cur[i] = rng.next() as u8; } "bytes-overwritten" }
                2 => { let n = rng.below(cur.len()); cur.truncate(n); "truncated" }
                3 => { cur = (0..rng.below(200)).map(|_| rng.next() as u8).collect(); "random-bytes" }
                4 => { // valid envelope around damaged inner (rkyv) bytes
                    match air_interpreter_data::InterpreterDataEnvelope::try_from_slice(&st.cur) {
                        Ok(env) => { let mut inner = env.inner_data.to_vec(); if !inner.is_empty() { for _ in 0..(1 + rng.below(4)) { let i = rng.below(inner.len()); inner[i] = match rng.below(3) { 0 => 0xff, 1 => 0, _ => rng.next() as u8 }; } if rng.chance(1, 4) { let n = rng.below(inner.len()); inner.truncate(n); } }
                            let mut o = vec![]; crate::mp::map_header(&mut o, 3); crate::mp::str_(&mut o, b"version"); crate::mp::str_(&mut o, env.versions.data_version.to_string().as_bytes());
                            crate::mp::str_(&mut o, b"interpreter_version"); crate::mp::str_(&mut o, env.versions.interpreter_version.to_string().as_bytes()); crate::mp::str_(&mut o, b"inner_data"); crate::mp::bin(&mut o, &inner); cur = o; "rkyv-bytes-damaged" }
                        Err(_) => "bitflip" } }
                5 => { let mut o = vec![]; crate::mp::map_header(&mut o, 3); crate::mp::str_(&mut o, b"version"); crate::mp::str_(&mut o, b"0.6.0"); crate::mp::str_(&mut o, b"interpreter_version"); crate::mp::str_(&mut o, b"99.0.0");
                       crate::mp::str_(&mut o, b"inner_data"); o.push(0xc6); o.extend_from_slice(&0xffff_fff0u32.to_be_bytes()); o.extend_from_slice(&[0u8; 16]); cur = o; "envelope-claims-4GiB-inner" }
                8 => { // honest inner data in an envelope of an unsupported / odd interpreter version (pretty-printer and runner check versions)
                    match air_interpreter_data::InterpreterDataEnvelope::try_from_slice(&st.cur) {
                        Ok(env) => { let v = *rng.pick(&["0.60.0", "0.0.0", "99.0.0-pre+b", "18446744073709551615.0.0"]);
                            let mut o = vec![]; crate::mp::map_header(&mut o, 3); crate::mp::str_(&mut o, b"version"); crate::mp::str_(&mut o, env.versions.data_version.to_string().as_bytes());
                            crate::mp::str_(&mut o, b"interpreter_version"); crate::mp::str_(&mut o, v.as_bytes()); crate::mp::str_(&mut o, b"inner_data"); crate::mp::bin(&mut o, &env.inner_data); cur = o; "odd-interpreter-version" }
                        Err(_) => "bitflip" } }
                6 => { let mut r = encode_results(&st.results); if r.is_empty() { r = vec![0x80]; } let i = rng.below(r.len()); r[i] ^= 1 << rng.below(8); if rng.chance(1, 3) { let n = rng.below(r.len()); r.truncate(n); } raw_results = Some(r); cur = st.cur.clone(); "call-results-bytes-damaged" }
                _ => { raw_results = Some((0..rng.below(64)).map(|_| rng.next() as u8).collect()); "call-results-random-bytes" }
            };
            sink.rep.stat(&format!("malformed:{what}"));
            let c = Case { label: format!("history-{hi}-step-{}-{what}", st.step), note: what.into(), air: h.air.clone(), prev: st.prev.clone(), cur, peer: peers[st.peer].clone(), init_id: init_id.clone(), particle: h.net.particle.clone(),
                results: st.results.clone(), raw_results, outside_quantifier: false,
                // bytes that may still pass the rkyv validator can decode to an empty unsized field (process abort, see the catalog): child process
                abort_risk: matches!(what, "bitflip" | "bytes-overwritten" | "rkyv-bytes-damaged") };
            dr.run(ctx, &mut sink, &c);
        }
        // honest steps themselves: every entry point on honest data too
        for st in h.net.log.iter().take(3) { dr.check_hrd(&mut sink, &st.outcome.data, "honest"); }
    }
    }
    eprintln!("C01 phase histories done at {:.1}s", t0.elapsed().as_secs_f64());
    let rule = rep.rule.clone();
    // (5) trace-handler operation sequences: real panics vs model panics
    crate::props::traceops::run(ctx, rep);
    rep.rule = format!("{rule} || plus trace-handler operation sequences (traceops: answers incl. panic vs panic)");
    // restore the silent hook of main
    if std::env::var("AQUA_PANIC_VERBOSE").is_err() { std::panic::set_hook(Box::new(|_| {})); }
}
