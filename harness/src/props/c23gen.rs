//! C23 generators: scripts over the whole grammar of `air.lalrpop` (well-scoped by construction, or
//! "sloppy": names from small pools), injected scoping errors at every variable position, token-level and
//! character-level mutations, non-ASCII text in every token class, hand-written boundary texts.
use crate::script::{Gen as ExecGen, GenCfg};
use crate::util::Rng;

#[derive(Clone, Debug, PartialEq)]
pub enum Role { Other, Use, Def, IterDef, Next }

/// a token of a generated script; for variable tokens `name` is the byte range of the variable name in `s`
/// and `acc` the byte ranges of the scalar names its lens indexes with
#[derive(Clone, Debug)]
pub struct Tk { pub s: String, pub role: Role, pub name: Option<(usize, usize)>, pub acc: Vec<(usize, usize)> }
fn o(s: &str) -> Tk { Tk { s: s.to_string(), role: Role::Other, name: None, acc: vec![] } }

#[derive(Clone, Debug)]
pub struct InstrInfo { pub kind: &'static str, pub open: usize, pub close: usize, pub children: Vec<usize>, pub iterator: Option<String> }

#[derive(Clone, Debug, Default)]
pub struct Script { pub toks: Vec<Tk>, pub instrs: Vec<InstrInfo> }

const WS: &[&str] = &[" ", " ", " ", " ", "\n", "\t", "  ", "\r\n", " \u{a0}", "\u{2003}", "\u{3000}", " ; comment (with parens [ \"\n", "\n;; é\n"];

impl Script {
    pub fn text(&self, rng: &mut Rng, fancy_ws: bool) -> String {
        let mut s = String::new();
        for (i, t) in self.toks.iter().enumerate() {
            if i > 0 {
                let prev = &self.toks[i - 1].s;
                let tight = (prev == "(" || prev == "[") || (t.s == ")" || t.s == "]");
                if fancy_ws { if !(tight && rng.chance(2, 3)) { s.push_str(*rng.pick(WS)); } }
                else if !tight { s.push(' '); }
            }
            s.push_str(&t.s);
        }
        s
    }
    pub fn plain(&self) -> String { let mut r = Rng::new(1); self.text(&mut r, false) }
}

#[derive(Clone, Default)]
struct Env { scalars: Vec<String>, streams: Vec<String>, maps: Vec<String>, canons: Vec<String>, cmaps: Vec<String>, iters: Vec<String> }

pub struct G<'a> {
    pub rng: &'a mut Rng,
    /// names from small pools, arbitrary shapes, occasional undefined names
    pub sloppy: bool,
    pub non_ascii: bool,
    counter: usize,
    pub out: Script,
}

const ASCII_TAILS: &[&str] = &["a", "b", "x1", "_y", "-z", "Q"];
const NON_ASCII_BITS: &[&str] = &["é", "ß", "я", "名", "٣", "½", "ǅ", "ª"];

impl<'a> G<'a> {
    pub fn new(rng: &'a mut Rng, sloppy: bool, non_ascii: bool) -> Self { G { rng, sloppy, non_ascii, counter: 0, out: Script::default() } }

    fn fresh(&mut self, tag: &str, base: &str) -> String {
        self.counter += 1;
        if self.sloppy && self.rng.chance(3, 5) { return format!("{tag}{}", self.rng.pick(&["aa", "bb", "ii", "jj", "kk"])); }
        let mid = if self.non_ascii && self.rng.chance(1, 3) { *self.rng.pick(NON_ASCII_BITS) } else { "" };
        let tail = if self.non_ascii && self.rng.chance(1, 8) { *self.rng.pick(NON_ASCII_BITS) } else { *self.rng.pick(ASCII_TAILS) };
        format!("{tag}{base}{}{mid}{tail}", self.counter)
    }
    fn field(&mut self) -> String {
        // a non-ASCII alphanumeric is an ordinary field-name character (first, middle or last)
        if self.rng.chance(if self.non_ascii { 2 } else { 1 }, 6) { match self.rng.below(4) { 0 => self.rng.pick(NON_ASCII_BITS).to_string(), 1 => format!("f{}", self.rng.pick(NON_ASCII_BITS)), 2 => format!("{}z", self.rng.pick(NON_ASCII_BITS)), _ => format!("f{}{}z", self.rng.pick(NON_ASCII_BITS), self.rng.pick(NON_ASCII_BITS)) } }
        else if self.sloppy && self.rng.chance(1, 10) { "0a".to_string() }
        else { self.rng.pick(&["a", "peer", "arr", "n_1", "x-y", "a0", "msg", "error_code", "-", "_"]).to_string() }
    }
    fn lit(&mut self) -> String {
        if self.non_ascii && self.rng.chance(1, 3) { format!("\"lit é {} (seq) [x] ;\"", self.rng.pick(NON_ASCII_BITS)) } else { format!("\"{}\"", self.rng.pick(&["p", "s", "f", "", "a b", "(null)", "x.$.y", "12D3Koo"])) }
    }
    fn num(&mut self) -> String {
        match self.rng.below(8) { 0 => "0".into(), 1 => "-1".into(), 2 => "+7".into(), 3 => "9223372036854775807".into(), 4 => "-9223372036854775808".into(), 5 => "1.5".into(), 6 => "-0.25".into(), _ => self.rng.range(-50, 5000).to_string() }
    }

    /// a lens; scalar accessors are taken from `scalars` (uses). Returns (text, ranges of accessor names relative to the lens start)
    fn lens(&mut self, env: &Env) -> (String, Vec<(usize, usize)>) {
        if self.rng.chance(1, 6) { return (".length".into(), vec![]); }
        let mut s = String::from(".$");
        let mut acc = vec![];
        let n = 1 + self.rng.below(3);
        for _ in 0..n {
            match self.rng.below(6) {
                0 | 1 => { s.push('.'); s.push_str(&self.field()); }
                2 => { s.push_str(if self.rng.chance(1, 2) { ".[" } else { "[" }); s.push_str(&self.rng.below(12).to_string()); s.push(']'); }
                3 | 4 if !env.scalars.is_empty() || !env.iters.is_empty() || self.sloppy => {
                    let name = self.scalar_name(env);
                    s.push_str(if self.rng.chance(1, 2) { ".[" } else { "[" });
                    let st = s.len(); s.push_str(&name); acc.push((st, s.len())); s.push(']');
                }
                _ => { s.push('.'); s.push_str(&self.field()); }
            }
            // the AIR lexer admits the flattening sign only as the last character of the token
            if self.sloppy && self.rng.chance(1, 8) { s.push('!'); }
        }
        if self.rng.chance(1, 5) { s.push('!'); }
        (s, acc)
    }
    fn scalar_name(&mut self, env: &Env) -> String {
        let mut pool: Vec<String> = env.scalars.iter().chain(env.iters.iter()).cloned().collect();
        if pool.is_empty() || (self.sloppy && self.rng.chance(1, 10)) { pool.push(self.rng.pick(&["undef", "aa", "ii", "zz9"]).to_string()); }
        pool[self.rng.below(pool.len())].clone()
    }
    fn var_tk(&mut self, name: &str, with_lens: bool, env: &Env, role: Role) -> Tk {
        let mut s = name.to_string();
        let nm = Some((0, s.len()));
        let mut acc = vec![];
        if with_lens { let (l, a) = self.lens(env); let off = s.len(); s.push_str(&l); acc = a.into_iter().map(|(x, y)| (x + off, y + off)).collect(); }
        Tk { s, role, name: nm, acc }
    }
    fn pick_from(&mut self, pool: &[String], undef: &str) -> Option<String> {
        if pool.is_empty() { if self.sloppy { Some(undef.to_string()) } else { None } }
        else if self.sloppy && self.rng.chance(1, 12) { Some(undef.to_string()) }
        else { Some(pool[self.rng.below(pool.len())].clone()) }
    }
    /// kinds: which alternatives the position admits
    fn value(&mut self, env: &Env, pos: &str) -> Vec<Tk> {
        for _ in 0..20 {
            let k = self.rng.below(17);
            let allowed = |pos: &str, k: usize| -> bool { match pos {
                "peer" => matches!(k, 0 | 5 | 11 | 12 | 14 | 16),
                "string" => matches!(k, 5 | 11 | 12 | 14 | 16),
                "value" => true,
                "ap" => k != 15,
                "key" => matches!(k, 5 | 8 | 11 | 12 | 14),
                _ => false } };
            if !allowed(pos, k) { continue; }
            let t: Option<Vec<Tk>> = match k {
                0 => Some(vec![o("%init_peer_id%")]),
                1 => Some(vec![o("%last_error%")]),
                2 => { let (l, a) = self.lens(env); let base = "%last_error%".len(); Some(vec![Tk { s: format!("%last_error%{l}"), role: Role::Use, name: None, acc: a.into_iter().map(|(x, y)| (x + base, y + base)).collect() }]) }
                3 => Some(vec![o(":error:")]),
                4 => { let (l, a) = self.lens(env); let base = ":error:".len(); Some(vec![Tk { s: format!(":error:{l}"), role: Role::Use, name: None, acc: a.into_iter().map(|(x, y)| (x + base, y + base)).collect() }]) }
                5 => Some(vec![o(&self.lit())]),
                6 => Some(vec![o("%timestamp%")]),
                7 => Some(vec![o("%ttl%")]),
                8 => { let mut n = self.num(); if pos == "key" { n = n.replace('.', ""); } Some(vec![o(&n)]) }
                9 => Some(vec![o(if self.rng.chance(1, 2) { "true" } else { "false" })]),
                10 => Some(vec![o("["), o("]")]),
                11 | 12 => { let pool: Vec<String> = env.scalars.iter().chain(env.iters.iter()).cloned().collect(); self.pick_from(&pool, "undef_s").map(|n| vec![self.var_tk(&n, k == 12, env, Role::Use)]) }
                13 | 14 => self.pick_from(&env.canons.clone(), "#undef_c").map(|n| vec![self.var_tk(&n, k == 14, env, Role::Use)]),
                15 | 16 => self.pick_from(&env.cmaps.clone(), "#%undef_m").map(|n| vec![self.var_tk(&n, k == 16, env, Role::Use)]),
                _ => None,
            };
            if let Some(t) = t { return t; }
        }
        vec![o(if pos == "key" { "\"k\"" } else { "\"p\"" })]
    }
    fn push(&mut self, t: Tk) { self.out.toks.push(t); }
    fn push_all(&mut self, ts: Vec<Tk>) { self.out.toks.extend(ts); }
    fn def_tk(&mut self, name: &str, role: Role) -> Tk { Tk { s: name.to_string(), role, name: Some((0, name.len())), acc: vec![] } }

    fn begin(&mut self, kind: &'static str, kw: &str) -> usize {
        let idx = self.out.instrs.len();
        self.out.instrs.push(InstrInfo { kind, open: self.out.toks.len(), close: 0, children: vec![], iterator: None });
        self.push(o("(")); self.push(o(kw));
        idx
    }
    fn end(&mut self, idx: usize) { self.out.instrs[idx].close = self.out.toks.len(); self.push(o(")")); }

    pub fn instr(&mut self, env: &mut Env, budget: usize, depth: usize) -> usize {
        if budget <= 1 || depth > 7 { return self.leaf(env); }
        match self.rng.below(100) {
            0..=29 => {
                let kw = *self.rng.pick(&["seq", "seq", "seq", "par", "xor"]);
                let kind = match kw { "seq" => "seq", "par" => "par", _ => "xor" };
                let id = self.begin(kind, kw);
                let lb = 1 + self.rng.below(budget - 1);
                let a = self.instr(env, lb, depth + 1);
                let b = self.instr(env, budget - lb, depth + 1);
                self.out.instrs[id].children = vec![a, b];
                self.end(id); id
            }
            30..=39 => {
                let kw = if self.rng.chance(1, 2) { "match" } else { "mismatch" };
                let id = self.begin("match", kw);
                let a = self.value(env, "value"); self.push_all(a);
                let b = self.value(env, "value"); self.push_all(b);
                let c = self.instr(env, budget - 1, depth + 1);
                self.out.instrs[id].children = vec![c];
                self.end(id); id
            }
            40..=59 => self.fold(env, budget, depth),
            60..=69 => {
                let id = self.begin("new", "new");
                let (tag, base) = *self.rng.pick(&[("", "nv"), ("$", "ns"), ("%", "nm"), ("#", "nc"), ("#%", "ncm")]);
                let mut name = self.fresh(tag, base);
                if !self.sloppy { while env.iters.contains(&name) { name = self.fresh(tag, base); } }
                let t = self.def_tk(&name, Role::Def); self.push(t);
                match tag { "" => env.scalars.push(name), "$" => env.streams.push(name), "%" => env.maps.push(name), "#" => env.canons.push(name), _ => env.cmaps.push(name) }
                let c = self.instr(env, budget - 1, depth + 1);
                self.out.instrs[id].children = vec![c];
                self.end(id); id
            }
            _ => self.leaf(env),
        }
    }

    fn fold(&mut self, env: &mut Env, budget: usize, depth: usize) -> usize {
        let id = self.begin("fold", "fold");
        // iterable
        let mut stream_fold = false;
        let k = self.rng.below(8);
        let mut done = false;
        match k {
            0 => if let Some(n) = self.pick_from(&env.streams.clone(), "$undef") { let t = self.var_tk(&n, false, env, Role::Use); self.push(t); stream_fold = true; done = true; },
            1 => if let Some(n) = self.pick_from(&env.maps.clone(), "%undef") { let t = self.var_tk(&n, false, env, Role::Use); self.push(t); stream_fold = true; done = true; },
            2 => if let Some(n) = self.pick_from(&env.canons.clone(), "#undef") { let t = self.var_tk(&n, false, env, Role::Use); self.push(t); done = true; },
            3 => if let Some(n) = self.pick_from(&env.cmaps.clone(), "#%undef") { let wl = self.rng.chance(1, 2); let t = self.var_tk(&n, wl, env, Role::Use); self.push(t); done = true; },
            4 => { self.push(o("[")); self.push(o("]")); done = true; }
            _ => {}
        }
        if !done {
            let pool: Vec<String> = env.scalars.iter().chain(env.iters.iter()).cloned().collect();
            match self.pick_from(&pool, "undef_it") {
                Some(n) => { let wl = self.rng.chance(1, 3); let t = self.var_tk(&n, wl, env, Role::Use); self.push(t); }
                None => { self.push(o("[")); self.push(o("]")); }
            }
        }
        let mut it = self.fresh("", "it");
        if !self.sloppy { while env.iters.contains(&it) || env.scalars.contains(&it) { it = self.fresh("", "it"); } }
        let t = self.def_tk(&it, Role::IterDef); self.push(t);
        self.out.instrs[id].iterator = Some(it.clone());
        let mut inner = env.clone(); inner.iters.push(it.clone());
        // body: X combined with (next it)
        let shape = self.rng.below(10);
        let comb = |s: &mut Self, kw: &'static str, next_first: bool, inner: &mut Env, budget: usize| -> usize {
            let kind = match kw { "seq" => "seq", "par" => "par", _ => "xor" };
            let b = s.begin(kind, kw);
            let (a, c);
            if next_first { a = s.next_instr(&it); c = s.instr(inner, budget, depth + 1); } else { a = s.instr(inner, budget, depth + 1); c = s.next_instr(&it); }
            s.out.instrs[b].children = vec![a, c];
            s.end(b); b
        };
        let bb = budget.saturating_sub(2).max(1);
        let body = if self.sloppy {
            match shape { 0..=3 => comb(self, "seq", false, &mut inner, bb), 4 => comb(self, "seq", true, &mut inner, bb), 5 => comb(self, "par", true, &mut inner, bb), 6 => comb(self, "xor", false, &mut inner, bb), 7 => self.next_instr(&it), _ => self.instr(&mut inner, bb, depth + 1) }
        } else if stream_fold {
            match shape { 0..=4 => comb(self, "seq", false, &mut inner, bb), 5..=6 => comb(self, "par", false, &mut inner, bb), 7 => comb(self, "xor", true, &mut inner, bb), 8 => self.next_instr(&it), _ => self.instr(&mut inner, bb, depth + 1) }
        } else {
            match shape { 0..=3 => comb(self, "seq", false, &mut inner, bb), 4 => comb(self, "seq", true, &mut inner, bb), 5 => comb(self, "par", true, &mut inner, bb), 6 => comb(self, "par", false, &mut inner, bb), 7 => comb(self, "xor", false, &mut inner, bb), 8 => self.next_instr(&it), _ => self.instr(&mut inner, bb, depth + 1) }
        };
        let mut children = vec![body];
        if self.rng.chance(1, 4) { let l = self.leaf(&mut inner); children.push(l); }
        self.out.instrs[id].children = children;
        // definitions made inside the fold stay visible textually
        let iters = env.iters.clone(); *env = inner; env.iters = iters;
        self.end(id); id
    }
    fn next_instr(&mut self, it: &str) -> usize { let id = self.begin("next", "next"); let t = self.def_tk(it, Role::Next); self.push(t); self.end(id); id }

    fn leaf(&mut self, env: &mut Env) -> usize {
        match self.rng.below(100) {
            0..=44 => {
                let id = self.begin("call", "call");
                let p = self.value(env, "peer"); self.push_all(p);
                self.push(o("("));
                let s = self.value(env, "string"); self.push_all(s);
                let f = self.value(env, "string"); self.push_all(f);
                self.push(o(")")); self.push(o("["));
                for _ in 0..self.rng.below(4) { let a = self.value(env, "value"); self.push_all(a); }
                self.push(o("]"));
                match self.rng.below(4) {
                    0 | 1 => { let mut n = self.fresh("", "v"); if !self.sloppy { while env.iters.contains(&n) { n = self.fresh("", "v"); } } let t = self.def_tk(&n, Role::Def); self.push(t); env.scalars.push(n); }
                    2 => { let n = if !env.streams.is_empty() && self.rng.chance(1, 2) { self.rng.pick(&env.streams).clone() } else { self.fresh("$", "s") }; let t = self.def_tk(&n, Role::Def); self.push(t); if !env.streams.contains(&n) { env.streams.push(n); } }
                    _ => {}
                }
                self.end(id); id
            }
            45..=59 => {
                let id = self.begin("ap", "ap");
                let a = self.value(env, "ap"); self.push_all(a);
                if self.rng.chance(1, 2) { let mut n = self.fresh("", "av"); if !self.sloppy { while env.iters.contains(&n) { n = self.fresh("", "av"); } } let t = self.def_tk(&n, Role::Def); self.push(t); env.scalars.push(n); }
                else { let n = if !env.streams.is_empty() && self.rng.chance(1, 2) { self.rng.pick(&env.streams).clone() } else { self.fresh("$", "as") }; let t = self.def_tk(&n, Role::Def); self.push(t); if !env.streams.contains(&n) { env.streams.push(n); } }
                self.end(id); id
            }
            60..=67 => {
                let id = self.begin("ap_map", "ap");
                self.push(o("("));
                let k = self.value(env, "key"); self.push_all(k);
                let v = self.value(env, "ap"); self.push_all(v);
                self.push(o(")"));
                let n = if !env.maps.is_empty() && self.rng.chance(1, 2) { self.rng.pick(&env.maps).clone() } else { self.fresh("%", "m") };
                let t = self.def_tk(&n, Role::Def); self.push(t); if !env.maps.contains(&n) { env.maps.push(n); }
                self.end(id); id
            }
            68..=79 => {
                let id = self.begin("canon", "canon");
                let p = self.value(env, "peer"); self.push_all(p);
                let from_map = self.rng.chance(1, 3);
                if from_map {
                    let src = match self.pick_from(&env.maps.clone(), "%undef_src") { Some(n) => n, None => "%m0".to_string() };
                    let mut t = self.def_tk(&src, Role::Use); t.role = Role::Use; self.push(t);
                    if self.rng.chance(1, 2) { let n = self.fresh("#%", "cm"); let t = self.def_tk(&n, Role::Def); self.push(t); env.cmaps.push(n); }
                    else { let mut n = self.fresh("", "cs"); if !self.sloppy { while env.iters.contains(&n) { n = self.fresh("", "cs"); } } let t = self.def_tk(&n, Role::Def); self.push(t); env.scalars.push(n); }
                } else {
                    let src = match self.pick_from(&env.streams.clone(), "$undef_src") { Some(n) => n, None => "$s0".to_string() };
                    let mut t = self.def_tk(&src, Role::Use); t.role = Role::Use; self.push(t);
                    let tg = if self.rng.chance(1, 4) { "#$" } else { "#" }; let n = self.fresh(tg, "cc"); let t = self.def_tk(&n, Role::Def); self.push(t); env.canons.push(n);
                }
                self.end(id); id
            }
            80..=87 => {
                let id = self.begin("fail", "fail");
                match self.rng.below(7) {
                    0 => self.push(o("%last_error%")),
                    1 => self.push(o(":error:")),
                    2 | 3 => { let c = if self.sloppy && self.rng.chance(1, 3) { "0".to_string() } else { (1 + self.rng.below(9999)).to_string() }; self.push(o(&c)); let l = self.lit(); self.push(o(&l)); }
                    4 => { let pool: Vec<String> = env.scalars.iter().chain(env.iters.iter()).cloned().collect(); match self.pick_from(&pool, "undef_f") { Some(n) => { let wl = self.rng.chance(1, 2); let t = self.var_tk(&n, wl, env, Role::Use); self.push(t); } None => self.push(o(":error:")) } }
                    _ => match self.pick_from(&env.canons.clone(), "#undef_fc") { Some(n) => { let t = self.var_tk(&n, true, env, Role::Use); self.push(t); } None => self.push(o("%last_error%")) },
                }
                self.end(id); id
            }
            88..=93 => { let id = self.begin("null", "null"); self.end(id); id }
            94..=96 => { let id = self.begin("never", "never"); self.end(id); id }
            _ => { let id = self.begin("null", "null"); self.end(id); id }
        }
    }
}

pub fn gen_script(rng: &mut Rng, sloppy: bool, non_ascii: bool, budget: usize) -> Script {
    let mut g = G::new(rng, sloppy, non_ascii);
    let mut env = Env::default();
    g.instr(&mut env, budget, 0);
    g.out
}

// ------------------------------------------------------------------------------------------------
// scoping-error injections

fn replace_range(t: &mut Tk, r: (usize, usize), with: &str) {
    let delta = with.len() as isize - (r.1 - r.0) as isize;
    t.s.replace_range(r.0..r.1, with);
    let fix = |x: &mut (usize, usize)| { if x.0 >= r.1 { x.0 = (x.0 as isize + delta) as usize; x.1 = (x.1 as isize + delta) as usize; } else if *x == r { x.1 = (x.1 as isize + delta) as usize; } };
    if let Some(n) = t.name.as_mut() { fix(n); }
    for a in t.acc.iter_mut() { fix(a); }
}

fn tag_of(name: &str) -> &str { if name.starts_with("#%") { "#%" } else if name.starts_with("#$") { "#$" } else if name.starts_with('#') { "#" } else if name.starts_with('$') { "$" } else if name.starts_with('%') { "%" } else { "" } }

/// every (token index, which name: None = the variable itself, Some(k) = k-th lens accessor) that is a use
pub fn use_sites(s: &Script) -> Vec<(usize, Option<usize>)> {
    let mut v = vec![];
    for (i, t) in s.toks.iter().enumerate() {
        if t.role == Role::Use { if t.name.is_some() { v.push((i, None)); } for k in 0..t.acc.len() { v.push((i, Some(k))); } }
    }
    v
}

pub fn rename_use(s: &Script, site: (usize, Option<usize>), n: usize) -> Script {
    let mut s = s.clone();
    let t = &mut s.toks[site.0];
    let r = match site.1 { None => t.name.unwrap(), Some(k) => t.acc[k] };
    let old = t.s[r.0..r.1].to_string();
    let fresh = format!("{}undefined{}", tag_of(&old), n);
    replace_range(t, r, &fresh);
    s
}

fn instr_tokens(s: &Script, i: usize) -> Vec<Tk> { s.toks[s.instrs[i].open..=s.instrs[i].close].to_vec() }
fn tks(text: &[&str]) -> Vec<Tk> { text.iter().map(|x| o(x)).collect() }

/// replace instruction `i` by `pre ++ instr ++ post`
fn wrap(s: &Script, i: usize, pre: Vec<Tk>, post: Vec<Tk>) -> Script {
    let (a, b) = (s.instrs[i].open, s.instrs[i].close);
    let mut toks = s.toks[..a].to_vec(); toks.extend(pre); toks.extend(s.toks[a..=b].iter().cloned()); toks.extend(post); toks.extend(s.toks[b + 1..].iter().cloned());
    Script { toks, instrs: vec![] }
}

pub fn swap_children(s: &Script, i: usize) -> Option<Script> {
    let ins = &s.instrs[i];
    if !matches!(ins.kind, "seq" | "par" | "xor") || ins.children.len() != 2 { return None; }
    let (a, b) = (ins.children[0], ins.children[1]);
    let mut toks = s.toks[..s.instrs[a].open].to_vec();
    toks.extend(instr_tokens(s, b)); toks.extend(instr_tokens(s, a)); toks.extend(s.toks[s.instrs[b].close + 1..].iter().cloned());
    Some(Script { toks, instrs: vec![] })
}

fn call_using(name: &str) -> Vec<Tk> {
    let mut v = tks(&["(", "call", "\"p\"", "(", "\"s\"", "\"f\"", ")", "["]);
    v.push(Tk { s: name.to_string(), role: Role::Use, name: Some((0, name.len())), acc: vec![] });
    v.extend(tks(&["]", ")"]));
    v
}

/// the injections that need a fold
pub fn fold_injections(s: &Script, rng: &mut Rng) -> Vec<(&'static str, Script)> {
    let folds: Vec<usize> = (0..s.instrs.len()).filter(|i| s.instrs[*i].kind == "fold").collect();
    let mut out = vec![];
    if folds.is_empty() { return out; }
    let f = folds[rng.below(folds.len())];
    let it = s.instrs[f].iterator.clone().unwrap();
    let mut pre = tks(&["(", "seq"]);
    // iterator used after / before its fold
    let mut post = call_using(&it); post.push(o(")"));
    out.push(("inject-iterator-after-fold", wrap(s, f, pre.clone(), post)));
    pre.extend(call_using(&it));
    out.push(("inject-iterator-before-fold", wrap(s, f, pre, tks(&[")"]))));
    // the iterator in the head of an instruction that encloses the fold (reduced after the uses inside the fold:
    // the validator checks only the first unresolved use of a name)
    let mut pre = tks(&["(", "match"]); pre.push(Tk { s: it.clone(), role: Role::Use, name: Some((0, it.len())), acc: vec![] }); pre.push(o("1"));
    out.push(("inject-iterator-in-enclosing-head", wrap(s, f, pre, tks(&[")"]))));
    let mut pre = tks(&["(", "fold"]); pre.push(Tk { s: format!("{it}.$.[{it}]"), role: Role::Use, name: Some((0, it.len())), acc: vec![] }); pre.push(o("outer_it")); pre.extend(tks(&["(", "seq"]));
    out.push(("inject-iterator-in-enclosing-head", wrap(s, f, pre, tks(&["(", "next", "outer_it", ")", ")", ")"]))));
    // next outside
    let mut nx = tks(&["(", "next"]); nx.push(o(&it)); nx.push(o(")"));
    let mut post = nx.clone(); post.push(o(")"));
    out.push(("inject-next-after-fold", wrap(s, f, tks(&["(", "seq"]), post)));
    let mut pre = tks(&["(", "seq"]); pre.extend(nx.clone());
    out.push(("inject-next-before-fold", wrap(s, f, pre, tks(&[")"]))));
    // second next / renamed next / new on the iterator, inside the body
    let body = s.instrs[f].children[0];
    let mut post = nx.clone(); post.push(o(")"));
    out.push(("inject-second-next", wrap(s, body, tks(&["(", "seq"]), post)));
    let mut pre = tks(&["(", "par"]); pre.extend(nx.clone());
    out.push(("inject-next-first-par", wrap(s, body, pre, tks(&[")"]))));
    let mut pre = tks(&["(", "new"]); pre.push(o(&it));
    out.push(("inject-new-on-iterator", wrap(s, body, pre, tks(&[")"]))));
    // the next of this fold renamed (other / undefined iterator)
    for (i, t) in s.toks.iter().enumerate() {
        if t.role == Role::Next && t.s == it && i > s.instrs[f].open && i < s.instrs[f].close {
            let mut c = s.clone(); c.toks[i].s = "other_iter".into(); c.toks[i].name = Some((0, 10)); c.instrs.clear();
            out.push(("inject-next-renamed", c));
            break;
        }
    }
    // nested fold with the same iterator name: rename the iterator of an inner fold (definition, uses, next)
    for g in &folds {
        if *g != f && s.instrs[*g].open > s.instrs[f].open && s.instrs[*g].close < s.instrs[f].close {
            let inner = s.instrs[*g].iterator.clone().unwrap();
            let mut c = s.clone();
            for i in s.instrs[*g].open..=s.instrs[*g].close {
                let t = &mut c.toks[i];
                if let Some(r) = t.name { if t.s[r.0..r.1] == inner { replace_range(t, r, &it); } }
                for k in 0..t.acc.len() { let r = t.acc[k]; if t.s[r.0..r.1] == inner { replace_range(t, r, &it); } }
            }
            c.instrs.clear();
            out.push(("inject-duplicate-iterator-nested", c));
            break;
        }
    }
    out
}

pub fn kind_confusion(s: &Script, rng: &mut Rng) -> Option<Script> {
    let vars: Vec<usize> = (0..s.toks.len()).filter(|i| s.toks[*i].name.is_some() && s.toks[*i].role != Role::Other).collect();
    if vars.is_empty() { return None; }
    let i = vars[rng.below(vars.len())];
    let mut c = s.clone();
    let t = &mut c.toks[i];
    let r = t.name.unwrap();
    let old = t.s[r.0..r.1].to_string();
    let bare = old[tag_of(&old).len()..].to_string();
    let new_tag = *rng.pick(&["", "$", "#", "%", "#$", "#%"]);
    replace_range(t, r, &format!("{new_tag}{bare}"));
    c.instrs.clear();
    Some(c)
}

// ------------------------------------------------------------------------------------------------
// token-level and character-level mutations

const DICT: &[&str] = &["(", ")", "[", "]", "call", "canon", "ap", "seq", "par", "fail", "fold", "xor", "never", "new", "next", "null", "match", "mismatch",
    "%init_peer_id%", "%last_error%", ":error:", "%timestamp%", "%ttl%", "true", "false", "x", "$s", "#c", "%m", "#%cm", "#$cs", "x.$.a", "#c.$.[0]", "#%cm.$.k", "$s.$.[0]",
    "%m.$.k", "%last_error%.$.message", ":error:.$.error_code", "\"lit\"", "\"\"", "0", "1", "-1", "1.5", "x.length", "x.$.[y]!", "x.$.é", "é", "\"", ";", "!", ".", "$", "#", "%", "#$", "#%"];

pub fn token_mutation(s: &Script, rng: &mut Rng) -> Script {
    let mut c = s.clone(); c.instrs.clear();
    let n = c.toks.len();
    if n == 0 { return c; }
    let k = 1 + rng.below(3);
    for _ in 0..k {
        let n = c.toks.len(); if n == 0 { break; }
        let i = rng.below(n);
        match rng.below(7) {
            0 => { c.toks.remove(i); }
            1 => { let t = c.toks[i].clone(); c.toks.insert(i, t); }
            2 => { if i + 1 < n { c.toks.swap(i, i + 1); } }
            3 => { c.toks[i] = o(*rng.pick(DICT)); }
            4 => { c.toks.insert(i, o(*rng.pick(DICT))); }
            5 => { let j = rng.below(n); c.toks.swap(i, j); }
            _ => { // unbalance brackets
                let which = *rng.pick(&["(", ")", "[", "]"]);
                if rng.chance(1, 2) { c.toks.insert(i, o(which)); } else if let Some(p) = c.toks.iter().position(|t| t.s == which) { c.toks.remove(p); }
            }
        }
    }
    c
}

const CHARS: &[char] = &['(', ')', '[', ']', '"', ';', '\n', ' ', '\t', '!', '.', '$', '#', '%', ':', '@', '?', '*', ',', '\'', '-', '+', '_', '0', '9', 'a', 'Z', 'é', 'ß', 'я', '名', '٣', '½', 'ǅ',
    '\u{a0}', '\u{2003}', '\u{3000}', '\u{85}', '\u{1680}', '\u{200b}', '\u{301}', '😀', '\u{0}', '\u{7f}', '\\', '/', '=', '<', '{', '}', '\u{feff}', '\u{10ffff}', '\r', '\u{b}', '\u{c}', 'ª', '²', 'Ⅷ'];

pub fn char_mutation(text: &str, rng: &mut Rng) -> String {
    let mut cs: Vec<char> = text.chars().collect();
    let k = 1 + rng.below(4);
    for _ in 0..k {
        let n = cs.len();
        match rng.below(5) {
            0 => { if n > 0 { cs.remove(rng.below(n)); } }
            1 => { cs.insert(rng.below(n + 1), *rng.pick(CHARS)); }
            2 => { if n > 0 { let i = rng.below(n); cs[i] = *rng.pick(CHARS); } }
            3 => { if n > 1 { let i = rng.below(n); let j = (i + 1 + rng.below(8)).min(n); let seg: Vec<char> = cs[i..j].to_vec(); let at = rng.below(n + 1); for (d, ch) in seg.into_iter().enumerate() { cs.insert((at + d).min(cs.len()), ch); } } }
            _ => { if n > 1 { let i = rng.below(n - 1); cs.swap(i, i + 1); } }
        }
    }
    cs.into_iter().collect()
}

pub fn random_text(rng: &mut Rng) -> String {
    let n = rng.below(40);
    let mut s = String::new();
    for _ in 0..n { if rng.chance(1, 3) { s.push_str(*rng.pick(DICT)); s.push(' '); } else { s.push(*rng.pick(CHARS)); } }
    s
}

// ------------------------------------------------------------------------------------------------
// hand-written texts

pub fn witnesses() -> Vec<&'static str> {
    // the scripts of theorem C23_full_false (lean/AquaProps/C23.lean) and the other known defects
    vec![
        "(fail undefined)",
        "(fail x.$.l)",
        "(canon undefined $s #c)",
        "(ap (\"k\" undefined) %m)",
        "(call \"p\" (\"s\" \"f\") [%last_error%.$.[undefined]])",
        "(call \"p\" (\"s\" \"f\") [:error:.$.[undefined]])",
        "(canon \"p\" $undefined #c)",
        "(seq (call \"p\" (\"s\" \"f\") [] y) (seq (fold y i (seq (null) (next i))) (call i (\"s\" \"f\") [])))",
        "(seq (call \"p\" (\"s\" \"f\") [] y) (match x 1 (fold y x (seq (call x (\"s\" \"f\") []) (next x)))))",
        "(seq (call \"p\" (\"s\" \"f\") [] y) (seq (fold y i (seq (null) (next i))) (next i)))",
        // the panic repaired in 5981066 (now an undefined-variable error; a panic would be a violation)
        "(call \"p\" (\"s\" \"f\") [x.$.é])",
    ]
}

pub fn fixed_texts() -> Vec<(&'static str, String)> {
    let mut v: Vec<(&'static str, String)> = vec![];
    let b = |s: &str| ("boundary", s.to_string());
    for s in ["", " ", "\n", ";", "; comment", ";\n", "()", "(", ")", "[", "]", "(null)", "(null) ", " (null)", "(null)(null)", "(null) (null)", "(null))", "((null))", "(seq (null))", "(seq (null) (null) (null))",
              "(never)", "( never )", "(\u{a0}null\u{3000})", "(null\u{200b})", "(nu\u{301}ll)", "null", "(NULL)", "(call)", "(call \"p\")", "(call \"p\" (\"s\" \"f\"))", "(call \"p\" (\"s\" \"f\") [])",
              "(call \"p\" (\"s\" \"f\") [] )", "(call \"p\" (\"s\" \"f\") [] x y)", "(call \"p\" (\"s\") [])", "(call \"p\" (\"s\" \"f\" \"g\") [])", "(call \"p\" \"s\" \"f\" [])", "(call (\"s\" \"f\") [])",
              "(call %init_peer_id% (\"s\" \"f\") [[]])", "(call %init_peer_id% (\"s\" \"f\") [[] []])", "(call %init_peer_id% (\"s\" \"f\") [[[]]])", "(call %init_peer_id% (\"s\" \"f\") [[])", "(call %init_peer_id% (\"s\" \"f\") []])",
              "(call %init_peer_id% (%init_peer_id% \"f\") [])", "(call \"p\" (\"s\" \"f\") [seq])", "(call \"p\" (\"s\" \"f\") [call])", "(call \"p\" (\"s\" \"f\") [true false 1 -1 +1 1.0 \"\" [] %ttl% %timestamp% %init_peer_id% %last_error% :error:])",
              "(call \"p\" (\"s\" \"f\") [%last_error%.$.message :error:.$.error_code %last_error%.length :error:.$.[0]])", "(call \"p\" (\"s\" \"f\") [%last_error%x])", "(call \"p\" (\"s\" \"f\") [%last_error%.])", "(call \"p\" (\"s\" \"f\") [%last_error%.$])",
              "(call \"p\" (\"s\" \"f\") [:error:.$.é])", "(call \"p\" (\"s\" \"f\") [:error:.$.éa])", "(call \"p\" (\"s\" \"f\") [:error:.$.☃])", "(call \"p\" (\"s\" \"f\") [:error:é])", "(call \"p\" (\"s\" \"f\") [:error:.$.[é]])",
              "(call \"p\" (\"s\" \"f\") [%init_peer_id%x])", "(call \"p\" (\"s\" \"f\") [%ttl%.$.a])", "(call \"p\" (\"s\" \"f\") [%])", "(call \"p\" (\"s\" \"f\") [$])", "(call \"p\" (\"s\" \"f\") [#])", "(call \"p\" (\"s\" \"f\") [#$])", "(call \"p\" (\"s\" \"f\") [#%])",
              "(call \"p\" (\"s\" \"f\") [#a])", "(call \"p\" (\"s\" \"f\") [#$a])", "(call \"p\" (\"s\" \"f\") [#%a])", "(call \"p\" (\"s\" \"f\") [$a])", "(call \"p\" (\"s\" \"f\") [%a])", "(call \"p\" (\"s\" \"f\") [a%b])", "(call \"p\" (\"s\" \"f\") [$%x])",
              "(call \"p\" (\"s\" \"f\") [é%b])", "(call \"p\" (\"s\" \"f\") [+x])", "(call \"p\" (\"s\" \"f\") [-x])", "(call \"p\" (\"s\" \"f\") [+])", "(call \"p\" (\"s\" \"f\") [-])", "(call \"p\" (\"s\" \"f\") [+$x])", "(call \"p\" (\"s\" \"f\") [1x])", "(call \"p\" (\"s\" \"f\") [x1])",
              "(call \"p\" (\"s\" \"f\") [1-2])", "(call \"p\" (\"s\" \"f\") [1+2])", "(call \"p\" (\"s\" \"f\") [.x])", "(call \"p\" (\"s\" \"f\") [x.])", "(call \"p\" (\"s\" \"f\") [x.$])", "(call \"p\" (\"s\" \"f\") [x.$.])", "(call \"p\" (\"s\" \"f\") [x.$.[])",
              "(call \"p\" (\"s\" \"f\") [x.$.[0])", "(call \"p\" (\"s\" \"f\") [x.$.[0]!])", "(call \"p\" (\"s\" \"f\") [x.$.a!])", "(call \"p\" (\"s\" \"f\") [x.$.a!b])", "(call \"p\" (\"s\" \"f\") [x.$.a!.b])", "(call \"p\" (\"s\" \"f\") [x.$.a.b!])", "(call \"p\" (\"s\" \"f\") [x.$!])",
              "(call \"p\" (\"s\" \"f\") [x.$.[0][1].[2]])", "(call \"p\" (\"s\" \"f\") [x.$.[4294967295]])", "(call \"p\" (\"s\" \"f\") [x.$.[4294967296]])", "(call \"p\" (\"s\" \"f\") [x.$.[00000000000000000001]])", "(call \"p\" (\"s\" \"f\") [x.$.[1a]])", "(call \"p\" (\"s\" \"f\") [x.$.1a])",
              "(call \"p\" (\"s\" \"f\") [x.$.a..b])", "(call \"p\" (\"s\" \"f\") [x.$..a])", "(call \"p\" (\"s\" \"f\") [x.$.[a.b]])", "(call \"p\" (\"s\" \"f\") [x.$.[[0]]])", "(call \"p\" (\"s\" \"f\") [x.$.a(b)])", "(call \"p\" (\"s\" \"f\") [x.$.a,b])", "(call \"p\" (\"s\" \"f\") [x.$.\"a\"])",
              "(call \"p\" (\"s\" \"f\") [x.length])", "(call \"p\" (\"s\" \"f\") [x.lengthy])", "(call \"p\" (\"s\" \"f\") [x.length!])", "(call \"p\" (\"s\" \"f\") [x.$.length])", "(call \"p\" (\"s\" \"f\") [x.$.aéb])", "(call \"p\" (\"s\" \"f\") [x.$.éb])", "(call \"p\" (\"s\" \"f\") [x.$.bé])",
              "(call \"p\" (\"s\" \"f\") [x.$.[é]])", "(call \"p\" (\"s\" \"f\") [x.$.[éa]])", "(call \"p\" (\"s\" \"f\") [x.$.é!])", "(call \"p\" (\"s\" \"f\") [x.$.[.é])", "(call \"p\" (\"s\" \"f\") [x.$.]é])", "(call \"p\" (\"s\" \"f\") [x.$.[0]é])", "(call \"p\" (\"s\" \"f\") [x.$.٣])", "(call \"p\" (\"s\" \"f\") [x.$.[٣]])",
              "(seq (call \"p\" (\"s\" \"f\") [] é) (call \"p\" (\"s\" \"f\") [é.$.é é.$.[é] é.$.é.[é]! é.$.٣ é.$.aé٣ é.$.[0]é é.$.é[0].ß é.$.名! é.$.½ é.$.-é é.$._ª]))", "(seq (canon \"p\" $s #éc) (fold #éc.$.é ïi (seq (ap ïi.$.[ïi].名 $s) (next ïi))))",
              "(call \"p\" (\"s\" \"f\") [#a.$.[0]])", "(call \"p\" (\"s\" \"f\") [#ab.$.[0]])", "(call \"p\" (\"s\" \"f\") [#$a.$.[0]])", "(call \"p\" (\"s\" \"f\") [$a.$.[0]])", "(call \"p\" (\"s\" \"f\") [$ab.$.[0]])", "(call \"p\" (\"s\" \"f\") [%ab.$.k])", "(call \"p\" (\"s\" \"f\") [#.x])", "(call \"p\" (\"s\" \"f\") [$.x])",
              "(call \"p\" (\"s\" \"f\") [9223372036854775807])", "(call \"p\" (\"s\" \"f\") [9223372036854775808])", "(call \"p\" (\"s\" \"f\") [-9223372036854775808])", "(call \"p\" (\"s\" \"f\") [-9223372036854775809])", "(call \"p\" (\"s\" \"f\") [+9223372036854775807])",
              "(call \"p\" (\"s\" \"f\") [000000000000000000000000000000000000001])", "(call \"p\" (\"s\" \"f\") [99999999999999999999999999999999999999])", "(call \"p\" (\"s\" \"f\") [1.])", "(call \"p\" (\"s\" \"f\") [1.5.2])", "(call \"p\" (\"s\" \"f\") [1.5x])", "(call \"p\" (\"s\" \"f\") [1e5])", "(call \"p\" (\"s\" \"f\") [1.5e5])",
              "(call \"p\" (\"s\" \"f\") [0.123456789])", "(call \"p\" (\"s\" \"f\") [0.1234567890])", "(call \"p\" (\"s\" \"f\") [12345678.90])", "(call \"p\" (\"s\" \"f\") [-1234567.89])", "(call \"p\" (\"s\" \"f\") [-12345678.90])", "(call \"p\" (\"s\" \"f\") [+.5])", "(call \"p\" (\"s\" \"f\") [-.5])", "(call \"p\" (\"s\" \"f\") [٣])",
              "(call \"p\" (\"s\" \"f\") [٣.5])", "(call \"p\" (\"s\" \"f\") [1.٣])", "(call \"p\" (\"s\" \"f\") [٣x])", "(call \"p\" (\"s\" \"f\") [x٣])", "(call \"p\" (\"s\" \"f\") [½])", "(call \"p\" (\"s\" \"f\") [1½])", "(call \"p\" (\"s\" \"f\") [²])", "(call \"p\" (\"s\" \"f\") [Ⅷ])", "(call \"p\" (\"s\" \"f\") [ª])",
              "(call \"p\" (\"s\" \"f\") [\"unclosed])", "(call \"p\" (\"s\" \"f\") [\"a\"\"b\"])", "(call \"p\" (\"s\" \"f\") [\"a\"b])", "(call \"p\" (\"s\" \"f\") [a\"b\"])", "(call \"p\" (\"s\" \"f\") [\"multi\nline (x) ; é\"])", "(call \"p\" (\"s\" \"f\") [x;y])", "(call \"p\" (\"s\" \"f\") [x] ; tail", "(call \"p\" (\"s\" \"f\") [x];tail\n)",
              "(ap 1 x)", "(ap x x)", "(ap 1 $s)", "(ap 1 #c)", "(ap 1 %m)", "(ap #%m x)", "(ap #%m.$.k x)", "(ap (1 2) %m)", "(ap (\"k\" 2) %m)", "(ap (1.5 2) %m)", "(ap (x 2) %m)", "(ap (#c 2) %m)", "(ap (#cc.$.[0] []) %m)", "(ap (\"k\" 2) $s)", "(ap (\"k\") %m)", "(ap () %m)", "(ap (\"k\" 2 3) %m)",
              "(fail 1 \"m\")", "(fail 0 \"m\")", "(fail -1 \"m\")", "(fail 1)", "(fail \"m\")", "(fail 1.5 \"m\")", "(fail %last_error%)", "(fail :error:)", "(fail %last_error%.$.message)", "(fail #c)", "(fail #cc.$.[0])", "(fail $s)", "(fail x y)",
              "(canon \"p\" $s #c)", "(canon \"p\" $s #$c)", "(canon \"p\" $s #%c)", "(canon \"p\" %m #%c)", "(canon \"p\" %m #c)", "(canon \"p\" %m x)", "(canon \"p\" $s x)", "(canon \"p\" #c $s)", "(canon $s #c)", "(canon %init_peer_id% $s #c)", "(canon x.$.p $s #c)",
              "(new x (null))", "(new $s (null))", "(new %m (null))", "(new #c (null))", "(new #%c (null))", "(new x.$.a (null))", "(new \"x\" (null))", "(new x)", "(new x (null) (null))", "(next i)", "(fold [] i (next i))", "(fold [] i (null))", "(fold [] i (next i) (null))", "(fold [] i (next i) (null) (null))",
              "(fold x i (next i))", "(fold $s i (next i))", "(fold %m i (next i))", "(fold #c i (next i))", "(fold #cc.$.[0] i (next i))", "(fold #%c i (next i))", "(fold #%cc.$.k i (next i))", "(fold \"x\" i (next i))", "(fold 1 i (next i))", "(fold [] $i (next $i))", "(fold [] i.$.a (next i))", "(fold [] i (next i.$.a))",
              "(fold [] i (seq (next i) (next i)))", "(fold [] i (fold [] i (next i)))", "(fold [] i (fold [] j (seq (next j) (next i))))", "(fold [] i (new i (next i)))", "(seq (fold [] i (next i)) (fold [] i (next i)))", "(fold [] i (seq (next i) (null)))",
              "(seq (ap 1 $s) (fold $s i (seq (next i) (null))))", "(seq (ap 1 $s) (fold $s i (par (next i) (null))))", "(seq (ap 1 $s) (fold $s i (xor (next i) (null))))", "(seq (ap 1 $s) (fold $s i (seq (null) (next i))))", "(seq (ap 1 $s) (fold $s i (seq (null) (next i)) (null)))",
              "(seq (ap 1 $s) (fold $s i (seq (seq (next i) (null)) (null))))", "(seq (ap 1 $s) (fold $s i (match 1 1 (seq (next i) (null)))))", "(seq (ap 1 $s) (fold $s i (new x (seq (next i) (null)))))", "(seq (ap 1 $s) (fold $s i (fold [] j (seq (next i) (next j)))))",
              "(seq (ap 1 $s) (fold $s i (xor (seq (next i) (null)) (seq (next i) (null)))))", "(seq (ap (1 1) %m) (fold %m i (seq (next i) (null)) (null)))", "(match 1 1 (null))", "(mismatch 1 1 (null))", "(match x x (null))", "(match [] [] (null))", "(match 1 (null))", "(match 1 1 1 (null))", "(match $s 1 (null))",
              "(xor (null))", "(par (null) (null))", "(seq (call \"p\" (\"s\" \"f\") [] x) (call \"p\" (\"s\" \"f\") [x] x))", "(call \"p\" (\"s\" \"f\") [x] x)", "(seq (new x (null)) (call \"p\" (\"s\" \"f\") [x]))", "(new x (call \"p\" (\"s\" \"f\") [x]))", "(seq (call \"p\" (\"s\" \"f\") [x]) (call \"p\" (\"s\" \"f\") [] x))",
              "(par (call \"p\" (\"s\" \"f\") [] x) (call \"p\" (\"s\" \"f\") [x]))", "(xor (call \"p\" (\"s\" \"f\") [] x) (call \"p\" (\"s\" \"f\") [x]))", "(seq (call \"p\" (\"s\" \"f\") [] $x) (call \"p\" (\"s\" \"f\") [x]))", "(seq (canon \"p\" $s #x) (call \"p\" (\"s\" \"f\") [#x #$x]))",
              "(seq (call \"p\" (\"s\" \"f\") [] x) (seq (call \"p\" (\"s\" \"f\") [x.$.[y]]) (call \"p\" (\"s\" \"f\") [] y)))", "(seq (call \"p\" (\"s\" \"f\") [] x) (fold x x (seq (call \"p\" (\"s\" \"id\") [x]) (next x))))"] { v.push(b(s)); }
    // very long identifiers / literals / comments
    for n in [1000usize, 100_000] {
        v.push(("long", format!("(call \"p\" (\"s\" \"f\") [] {})", "x".repeat(n))));
        v.push(("long", format!("(seq (call \"p\" (\"s\" \"f\") [] {0}) (call \"p\" (\"s\" \"f\") [{0}.$.{0}]))", "é".repeat(n) + "a")));
        v.push(("long", format!("(call \"p\" (\"s\" \"f\") [\"{}\"])", "é(".repeat(n))));
        v.push(("long", format!("; {}\n(null)", "c".repeat(n))));
        v.push(("long", format!("(call \"p\" (\"s\" \"f\") [{}])", "1".repeat(n))));
        v.push(("long", format!("(call \"p\" (\"s\" \"f\") [x.$.[{}]])", "0".repeat(n) + "7")));
        v.push(("long", format!("(call \"p\" (\"s\" \"f\") [{}])", "\"a\" ".repeat(n / 10))));
    }
    // nesting depth up to 2000 (deeper nesting overflows the stack of the real parser: property C01)
    for d in [10usize, 500, 2000] {
        v.push(("deep", format!("{}(null){}", "(seq (null) ".repeat(d), ")".repeat(d))));
        v.push(("deep", format!("{}(null){}", "(xor ".repeat(d), " (null))".repeat(d))));
        v.push(("deep", format!("{}(null){}", (0..d).map(|i| format!("(new v{i} ")).collect::<String>(), ")".repeat(d))));
        v.push(("deep", format!("{}(null){}", (0..d).map(|i| format!("(fold [] i{i} (seq (next i{i}) ")).collect::<String>(), "))".repeat(d))));
        v.push(("deep", format!("{}(null){}", "(match 1 1 ".repeat(d), ")".repeat(d))));
        v.push(("deep", format!("{}", "(".repeat(d))));
        v.push(("deep", format!("(call \"p\" (\"s\" \"f\") [{}{}])", "[".repeat(d), "]".repeat(d))));
        v.push(("deep", format!("(call \"p\" (\"s\" \"f\") [x.$.{}0{}])", "[".repeat(d), "]".repeat(d))));
    }
    v
}

// ------------------------------------------------------------------------------------------------

/// one round of generated cases: (category, text, expected validity if known)
pub fn round(rng: &mut Rng, thorough: bool, round_no: u64) -> Vec<(&'static str, String, Option<bool>)> {
    let mut out: Vec<(&'static str, String, Option<bool>)> = vec![];
    let big = thorough && round_no % 10 == 0;
    // A: executor-oriented generator of the framework
    {
        let peers: Vec<String> = ["pa", "pb", "pc"].iter().map(|s| s.to_string()).collect();
        let budget = if big { 60 } else { 4 + rng.below(20) };
        let mut r2 = rng.fork();
        let mut g = ExecGen::new(&mut r2, GenCfg { peers, streams: true, fragment: false, budget, failing_services: true });
        out.push(("valid-exec-gen", g.script().text(), Some(true)));
    }
    // B: full-grammar generator, strict
    let budget = if big { 80 } else { 3 + rng.below(18) };
    let strict = gen_script(rng, false, false, budget);
    let fancy = rng.chance(1, 3);
    out.push(("valid-full-grammar", strict.text(rng, fancy), Some(true)));
    let na = gen_script(rng, false, true, budget);
    out.push(("non-ascii-names", na.text(rng, true), Some(true)));
    // sloppy
    let sl_na = rng.chance(1, 5); let sl = gen_script(rng, true, sl_na, budget);
    out.push(("sloppy-names", sl.text(rng, false), None));
    // C: injections on the strict script
    let sites = use_sites(&strict);
    if !sites.is_empty() {
        let picks = if thorough || sites.len() <= 6 { sites.clone() } else { (0..6).map(|_| sites[rng.below(sites.len())]).collect() };
        for (n, site) in picks.into_iter().enumerate() { out.push(("inject-undefined-use", rename_use(&strict, site, n).plain(), None)); }
    }
    for i in 0..strict.instrs.len() { if let Some(s) = swap_children(&strict, i) { if rng.chance(1, 2) || thorough { out.push(("inject-swap-children", s.plain(), None)); } } }
    for (cat, s) in fold_injections(&strict, rng) { out.push((cat, s.plain(), None)); }
    if let Some(s) = kind_confusion(&strict, rng) { out.push(("inject-kind-confusion", s.plain(), None)); }
    // D: token-level
    for _ in 0..3 { out.push(("token-mutation", token_mutation(&strict, rng).plain(), None)); }
    out.push(("token-mutation", token_mutation(&sl, rng).plain(), None));
    // E: character-level
    let base = strict.plain();
    for _ in 0..3 { out.push(("char-mutation", char_mutation(&base, rng), None)); }
    out.push(("char-mutation", char_mutation(&na.plain(), rng), None));
    out.push(("random-text", random_text(rng), None));
    out
}
