//! C26 — the interpreter's JSON value type (`air_interpreter_value::JValue`) is faithful to JSON.
//!
//! Three layers, kept apart in the report:
//!  * direct oracle (independent of the model): `serde_json::Value` is the reference semantics.  Every generated
//!    text is parsed with both types; accept/reject (+ error text), printed forms (`to_string`, `Display`, `{:#}`,
//!    `Debug`, `to_vec`), every conversion (`From<&Value>`, `From<Value>`, `to_value`, `from_value`,
//!    `JValue::deserialize(&Value)`), accessors, `==` on pairs, the `partial_eq.rs` impls, `pointer`/`get`/indexing,
//!    the `From<T>` constructors, and the print → parse round trip are compared;
//!  * model correspondence: the Lean parser/printer/conversions (`Aqua/Json/Parse.lean`, `Std.lean`) on the same texts:
//!    accept/reject + error class, canonical printed value, conversions, equality, integer/bool/str comparisons;
//!  * a float stream (no model: `f64` arithmetic is outside the model): print → parse → print on random bit patterns.
//!
//! Float protocol: the model's number lexer produces `(positive, significand, exponent)` exactly as serde_json does
//! before it calls `f64_from_parts`; the harness answers these triples with serde_json itself
//! (`from_str::<f64>("<sig>e<exp>")` runs `parse_integer → parse_exponent → f64_from_parts` on the same triple, then
//! `to_string` prints it) — the float conversion stays in Rust.
use crate::util::*;
use crate::Ctx;
use air_interpreter_value::{JValue, JsonString, Map};
use serde::Deserialize;
use serde_json::{json, Value};
use std::borrow::Cow;
use std::collections::HashMap;
use std::panic::{catch_unwind, AssertUnwindSafe};
use std::rc::Rc;

const FLOAT_FINDING: &str = "float-text-roundtrip-not-identity";

fn err_kind(msg: &str) -> &'static str {
    if msg.starts_with("recursion limit exceeded") { "recursionLimit" } else if msg.starts_with("number out of range") { "numberOutOfRange" } else { "syntax" }
}

/// the model's float oracle, computed by serde_json: `f64_from_parts(p, s, e)` printed, `None` = NumberOutOfRange
fn parts_repr(p: bool, s: &str, e: &str) -> Option<String> {
    let t = format!("{}{}e{}", if p { "" } else { "-" }, s, e);
    match serde_json::from_str::<f64>(&t) { Ok(f) => Some(serde_json::to_string(&f).unwrap()), Err(_) => None }
}

// ------------------------------------------------------------------------------------------------ generators

const NUM_VALID: &[&str] = &[
    "0", "-0", "1", "-1", "9", "10", "-10", "42", "9223372036854775807", "9223372036854775808", "-9223372036854775808", "-9223372036854775809",
    "-9223372036854775807", "18446744073709551615", "18446744073709551616", "18446744073709551614", "-18446744073709551615", "-18446744073709551616",
    "1844674407370955161", "18446744073709551609", "18446744073709551610", "18446744073709551620", "184467440737095516150", "9007199254740991",
    "9007199254740992", "9007199254740993", "-9007199254740993", "1e308", "1.7976931348623157e308", "1.7976931348623158e308", "5e-324", "4.9e-324",
    "2e-324", "3e-324", "2.2250738585072014e-308", "2.2250738585072011e-308", "1.0", "1E5", "1e5", "1e+5", "1e-5", "1E-5", "-0.0", "0.0", "0.1", "0.2", "0.3",
    "-0e0", "0e0", "0E+0", "0.0e-0", "1e-400", "-1e-400", "0e999999999999", "-0e999999999999", "0.000e2147483648", "1e-2147483648", "1e-2147483649",
    "-1e-99999999999", "0e-99999999999", "123456789012345678901234567890", "-123456789012345678901234567890", "0.1234567890123456789012345",
    "18446744073709551615.5", "18446744073709551616.5", "1.8446744073709551615", "1.8446744073709551616", "0.18446744073709551616e20",
    "123456789012345678901234567890.5e-3", "1234567890123456789012345678901234567890e-30", "100000000000000000000", "1e22", "1e23", "8.5", "1.5e300", "1e16",
    "1e15", "123456789012345680000", "0.000001", "0.0000001", "1e21", "1.0e0", "10.0", "1.00000000000000011102230246251565404236316680908203125",
    "0.99999999999999988897769753748434595763683319091796875", "17976931348623157e292", "4.35", "0.000035", "179769313486231570000000000000000000000000000000000000000000000000000000000000000000000000000000000000000000000000000000000000000000000000000000000000000000000000000000000000000000000000000000000000000000000000000000000000000000000000000000000000000000000000000000000000000000000000000000000000000000000",
];
const NUM_BAD: &[&str] = &[
    "1e309", "-1e309", "1e400", "1e999999999999", "-1e99999999999", "1e2147483647", "1e2147483648", "0.1e2147483648", "1.7976931348623159e308", "2e308",
    "1797693134862315800000000000000000000000000000000000000000000000000000000000000000000000000000000000000000000000000000000000000000000000000000000000000000000000000000000000000000000000000000000000000000000000000000000000000000000000000000000000000000000000000000000000000000000000000000000000000000000000000",
    "01", "-01", "00", "-00", "+1", "+0", ".5", "-.5", "1.", "-1.", "1.e3", "1e", "1e+", "1e-", "1E", "-", "--1", "-a", "0x10", "1_000", "Infinity", "-Infinity", "NaN", "nan", "1.0.0",
    "1ee1", "1e1.5", "1e1e1", "1.5.", "0.", "0.e1", "1a", "1 2", "1,2", "1e 5", "1 e5", "- 1", "1.-5", "1.+5", "１", "1٠",
];

const KEY_LITS: &[&str] = &["\"a\"", "\"b\"", "\"k\"", "\"\"", "\"\\u0061\"", "\"\\u0062\"", "\"é\"", "\"\\u00e9\"", "\"\\u00E9\"", "\"aa\"", "\"a\\u0000\"", "\"A\"", "\"𝄞\"", "\"\\ud834\\udd1e\"",
    "\"\\uffff\"", "\"~\"", "\"a/b\"", "\"a~1b\"", "\"0\"", "\"1\"", "\"01\"", "\"-1\"", "\" \"", "\"\\n\"", "\"\\\"\"", "\"\\\\\"", "\"\\/\""];

#[derive(Clone, Debug)]
enum T { Lit(String), Arr(Vec<T>), Obj(Vec<(String, T)>) }

struct G { rng: Rng, bad: bool, used_bad: bool }
impl G {
    fn hex4(&mut self, n: u32) -> String { let s = format!("{:04x}", n); if self.rng.chance(1, 3) { s.to_uppercase() } else if self.rng.chance(1, 4) { s.chars().map(|c| if self.rng.chance(1, 2) { c.to_ascii_uppercase() } else { c }).collect() } else { s } }
    fn number(&mut self) -> String {
        if self.bad && self.rng.chance(1, 12) { self.used_bad = true; return self.rng.pick(NUM_BAD).to_string(); }
        match self.rng.below(11) {
            0 | 1 | 2 => self.rng.pick(NUM_VALID).to_string(),
            3 => if self.rng.chance(1, 2) { (self.rng.next() as i64).to_string() } else { self.rng.next().to_string() },
            4 => self.rng.range(-100, 100).to_string(),
            5 => { let f = f64::from_bits(self.rng.next()); if f.is_finite() { serde_json::to_string(&f).unwrap() } else { "0.5".into() } }
            6 | 7 => {
                let mut s = String::new();
                if self.rng.chance(1, 3) { s.push('-'); }
                let big = self.rng.chance(1, 4); let il = 1 + self.rng.below(if big { 30 } else { 6 });
                if self.rng.chance(1, 4) { s.push('0'); } else { s.push((b'1' + self.rng.below(9) as u8) as char); for _ in 1..il { s.push((b'0' + self.rng.below(10) as u8) as char); } }
                if self.rng.chance(1, 2) { s.push('.'); let big = self.rng.chance(1, 4); let fl = 1 + self.rng.below(if big { 30 } else { 6 }); for _ in 0..fl { s.push((b'0' + self.rng.below(10) as u8) as char); } }
                if self.rng.chance(1, 2) {
                    s.push(if self.rng.chance(1, 2) { 'e' } else { 'E' });
                    match self.rng.below(3) { 0 => s.push('+'), 1 => s.push('-'), _ => {} }
                    let el = match self.rng.below(8) { 0 => 10 + self.rng.below(4), 1 => 3, _ => 1 + self.rng.below(2) };
                    for _ in 0..el { s.push((b'0' + self.rng.below(10) as u8) as char); }
                }
                s
            }
            8 => { let d = self.rng.range(-12, 12) as i128; if self.rng.chance(1, 2) { (u64::MAX as i128 + d).to_string() } else { (i64::MIN as i128 + d).to_string() } }
            9 => { let k = self.rng.below(64); let d = self.rng.range(-2, 2) as i128; let v = (1i128 << k) + d; if self.rng.chance(1, 2) { v.to_string() } else { (-v).to_string() } }
            _ => { let i = self.rng.range(-1000, 1000); let s = format!("{}.0", i); if self.rng.chance(1, 3) { format!("{}e{}", i, self.rng.below(25)) } else { s } }
        }
    }
    fn string_lit(&mut self) -> String {
        let mut s = String::from("\"");
        let n = match self.rng.below(10) { 0 => 0, 1 => 12 + self.rng.below(20), _ => 1 + self.rng.below(6) };
        for _ in 0..n {
            if self.bad && self.rng.chance(1, 25) {
                self.used_bad = true;
                match self.rng.below(12) {
                    0 => s.push_str("\\ud834"), 1 => s.push_str("\\udd1e"), 2 => s.push_str("\\ud834\\u0041"), 3 => s.push_str("\\udd1e\\ud834"), 4 => s.push_str("\\ud834x"),
                    5 => s.push_str("\\x41"), 6 => s.push_str("\\u12"), 7 => s.push_str("\\u12G4"), 8 => s.push(char::from_u32(self.rng.below(32) as u32).unwrap()),
                    9 => s.push_str("\\ud834\\ud834"), 10 => s.push_str("\\u+123"), _ => s.push_str("\\ud834\\"),
                }
                continue;
            }
            match self.rng.below(14) {
                0 | 1 | 2 => s.push(*self.rng.pick(&['a', 'Z', '0', ' ', '/', '~', '_', '-', '.', ',', ':', '[', ']', '{', '}', '\'', 'u', 'n'])),
                3 => { let e: &[&str] = &["\\\"", "\\\\", "\\/", "\\b", "\\f", "\\n", "\\r", "\\t"]; s.push_str(e[self.rng.below(e.len())]); }
                4 => { let n = *self.rng.pick(&[0u32, 1, 8, 9, 0x1f, 0x20, 0x22, 0x5c, 0x7f, 0x80, 0xe9, 0x7ff, 0x800, 0xd7ff, 0xe000, 0xfffe, 0xffff, 0x2028, 0xfeff]); let h = self.hex4(n); s.push_str("\\u"); s.push_str(&h); }
                5 => { let mut n = self.rng.below(0x10000) as u32; if (0xd800..0xe000).contains(&n) { n = 0x41; } let h = self.hex4(n); s.push_str("\\u"); s.push_str(&h); }
                6 => { let c = 0x10000 + self.rng.below(0x100000) as u32; let c = *self.rng.pick(&[c, 0x10000, 0x10ffff, 0x1d11e]); let v = c - 0x10000; let (h, l) = (0xd800 + (v >> 10), 0xdc00 + (v & 0x3ff)); let (h, l) = (self.hex4(h), self.hex4(l)); s.push_str(&format!("\\u{}\\u{}", h, l)); }
                7 | 8 => s.push(*self.rng.pick(&['é', '€', '𝄞', '\u{10FFFF}', '\u{2028}', '\u{FEFF}', '\u{FFFD}', '\u{7f}', '\u{80}', '\u{7ff}', '\u{800}', '\u{ffff}', '\u{10000}', 'ß', '日'])),
                9 => { let mut n = self.rng.below(0x110000) as u32; if (0xd800..0xe000).contains(&n) || n < 0x20 || n == 0x22 || n == 0x5c { n = 0x263a; } s.push(char::from_u32(n).unwrap()); }
                _ => s.push((b'a' + self.rng.below(26) as u8) as char),
            }
        }
        if self.bad && self.rng.chance(1, 60) { self.used_bad = true; return s; }
        s.push('"');
        s
    }
    fn tree(&mut self, depth: usize) -> T {
        let k = if depth == 0 { self.rng.below(6) } else { self.rng.below(9) };
        match k {
            0 => T::Lit(self.rng.pick(&["null", "true", "false"]).to_string()),
            1 | 2 => T::Lit(self.number()),
            3 | 4 => T::Lit(self.string_lit()),
            5 => if self.bad && self.rng.chance(1, 6) { self.used_bad = true; T::Lit(self.rng.pick(&["nul", "True", "nulll", "tru", "fals", "NULL", "undefined", "'a'", "/*c*/1", "//c\n1", "", "\\u0041", "[1 2]", "[1,,2]", "{\"a\" 1}", "{\"a\":1,}", "[1,]", "{a:1}", "{1:1}", "{\"a\":}", "{\"a\"}", "[", "]", "{", "}", "{,}", "[,]", ":", ","]).to_string()) }
                 else { T::Lit(self.rng.pick(&["[]", "{}", "[ ]", "{ }", "[[]]", "{\"a\":{}}"]).to_string()) },
            6 | 7 => { let n = match self.rng.below(6) { 0 => 0, 1 => 1, 5 => 4 + self.rng.below(5), _ => 2 + self.rng.below(2) }; T::Arr((0..n).map(|_| self.tree(depth - 1)).collect()) }
            _ => { let n = match self.rng.below(6) { 0 => 0, 1 => 1, 5 => 4 + self.rng.below(5), _ => 2 + self.rng.below(2) };
                   T::Obj((0..n).map(|_| { let k = if self.rng.chance(2, 3) { self.rng.pick(KEY_LITS).to_string() } else { self.string_lit() }; (k, self.tree(depth - 1)) }).collect()) }
        }
    }
}

fn ws(rng: &mut Rng, out: &mut String, level: u8) {
    if level == 0 { return; }
    match rng.below(if level == 1 { 12 } else { 4 }) { 0 => out.push(' '), 1 => out.push('\n'), 2 => out.push_str("\t "), 3 => out.push_str("\r\n  "), _ => {} }
}
/// text of a tree; `level` = whitespace amount, `shuffle` permutes object members
fn emit(t: &T, rng: &mut Rng, level: u8, shuffle: bool, out: &mut String) {
    ws(rng, out, level);
    match t {
        T::Lit(s) => out.push_str(s),
        T::Arr(v) => { out.push('['); for (i, e) in v.iter().enumerate() { if i > 0 { out.push(','); } emit(e, rng, level, shuffle, out); } ws(rng, out, level); out.push(']'); }
        T::Obj(m) => {
            let mut idx: Vec<usize> = (0..m.len()).collect();
            if shuffle { rng.shuffle(&mut idx); }
            out.push('{');
            for (i, j) in idx.iter().enumerate() { if i > 0 { out.push(','); } ws(rng, out, level); out.push_str(&m[*j].0); ws(rng, out, level); out.push(':'); emit(&m[*j].1, rng, level, shuffle, out); }
            ws(rng, out, level); out.push('}');
        }
    }
    ws(rng, out, level);
}

const MUT_CHARS: &[char] = &['[', ']', '{', '}', ',', ':', '"', '\\', ' ', '-', '+', '.', 'e', 'E', '0', '1', '9', 'n', 't', 'f', 'u', 'l', '\n', '\t', '\u{0}', '\u{1f}', 'é', '𝄞', 'a', '/', 'd', 'D', '8'];
fn mutate(rng: &mut Rng, t: &str) -> String {
    let mut c: Vec<char> = t.chars().collect();
    let n = 1 + rng.below(3);
    for _ in 0..n {
        if c.is_empty() { c.push(*rng.pick(MUT_CHARS)); continue; }
        let i = rng.below(c.len());
        match rng.below(7) {
            0 => { c.truncate(i); }
            1 => { c.remove(i); }
            2 => { let x = c[i]; c.insert(i, x); }
            3 => { c[i] = *rng.pick(MUT_CHARS); }
            4 => { c.insert(i, *rng.pick(MUT_CHARS)); }
            5 => { if i + 1 < c.len() { c.swap(i, i + 1); } }
            _ => { let j = rng.below(c.len()); let (a, b) = (i.min(j), i.max(j)); let seg: Vec<char> = c[a..b].to_vec(); for (k, x) in seg.into_iter().enumerate() { c.insert(b + k, x); } }
        }
    }
    c.into_iter().collect()
}

fn deep_text(kind: usize, depth: usize, inner: &str) -> String {
    let mut s = String::new();
    for i in 0..depth { match kind { 0 => s.push('['), 1 => s.push_str("{\"a\":"), 2 => if i % 2 == 0 { s.push('[') } else { s.push_str("{\"k\":") }, _ => { s.push('['); s.push(' '); } } }
    s.push_str(inner);
    for i in (0..depth).rev() { match kind { 0 => s.push(']'), 1 => s.push('}'), 2 => if i % 2 == 0 { s.push(']') } else { s.push('}') }, _ => { s.push(' '); s.push(']'); } } }
    s
}

// ------------------------------------------------------------------------------------------------ direct oracle

fn depth_of(v: &Value) -> usize { match v { Value::Array(a) => 1 + a.iter().map(depth_of).max().unwrap_or(0), Value::Object(o) => 1 + o.values().map(depth_of).max().unwrap_or(0), _ => 0 } }
fn has_float(v: &Value) -> bool { match v { Value::Number(n) => n.is_f64(), Value::Array(a) => a.iter().any(has_float), Value::Object(o) => o.values().any(has_float), _ => false } }

struct Parsed { jv: JValue, sv: Value, printed: String }

fn real_parse(t: &str) -> Result<Result<JValue, String>, ()> {
    catch_unwind(AssertUnwindSafe(|| serde_json::from_str::<JValue>(t).map_err(|e| e.to_string()))).map_err(|_| ())
}

/// all paths of the value as JSON pointers (bounded)
fn pointers(v: &Value, prefix: &str, out: &mut Vec<String>) {
    if out.len() > 40 { return; }
    out.push(prefix.to_string());
    match v {
        Value::Array(a) => for (i, e) in a.iter().enumerate().take(4) { pointers(e, &format!("{prefix}/{i}"), out); },
        Value::Object(o) => for (k, e) in o.iter().take(4) { pointers(e, &format!("{prefix}/{}", k.replace('~', "~0").replace('/', "~1")), out); },
        _ => {}
    }
}

/// every conversion/printing/accessor path on one parsed value; returns the list of discrepancies
fn value_checks(jv: &JValue, sv: &Value, rng: &mut Rng, rep: &mut Report) -> Vec<String> {
    let mut bad: Vec<String> = vec![];
    let p = jv.to_string();
    let q = sv.to_string();
    if p != q { bad.push(format!("to_string differs from serde_json: {p} vs {q}")); }
    if format!("{}", jv) != p { bad.push("Display differs from to_string".into()); }
    if serde_json::to_string(jv).ok().as_deref() != Some(p.as_str()) { bad.push("serde_json::to_string(&JValue) differs from Display".into()); }
    if format!("{:#}", jv) != serde_json::to_string_pretty(sv).unwrap() { bad.push("pretty Display differs from serde_json::to_string_pretty".into()); }
    if format!("{:?}", jv) != format!("{:?}", sv) { bad.push(format!("Debug differs: {:?} vs {:?}", jv, sv)); }
    if serde_json::to_vec(jv).ok().as_deref() != Some(q.as_bytes()) { bad.push("to_vec differs".into()); }
    // conversions
    let from_ref = JValue::from(sv);
    if &from_ref != jv || from_ref.to_string() != p { bad.push(format!("From<&serde_json::Value> gives {from_ref}, parsing gives {p}")); }
    let from_owned = JValue::from(sv.clone());
    if &from_owned != jv || from_owned.to_string() != p { bad.push(format!("From<serde_json::Value> gives {from_owned}")); }
    match serde_json::to_value(jv) { Ok(s2) => if &s2 != sv || s2.to_string() != q { bad.push(format!("serde_json::to_value(&JValue) gives {s2}, reference {q}")); }, Err(e) => bad.push(format!("to_value fails: {e}")) }
    match serde_json::from_value::<JValue>(sv.clone()) { Ok(j2) => if &j2 != jv || j2.to_string() != p { bad.push(format!("from_value::<JValue> gives {j2}")); }, Err(e) => bad.push(format!("from_value fails: {e}")) }
    match JValue::deserialize(sv) { Ok(j2) => if &j2 != jv || j2.to_string() != p { bad.push(format!("JValue::deserialize(&Value) gives {j2}")); }, Err(e) => bad.push(format!("deserialize(&Value) fails: {e}")) }
    match serde_json::from_slice::<JValue>(q.as_bytes()) { Ok(j2) => if j2.to_string() != JValue::from(&serde_json::from_slice::<Value>(q.as_bytes()).unwrap()).to_string() { bad.push("from_slice differs".into()); }, Err(e) => bad.push(format!("from_slice of printed text fails: {e}")) }
    // clone / default / take
    if &jv.clone() != jv { bad.push("clone is not equal".into()); }
    let mut tk = jv.clone(); let taken = tk.take(); if &taken != jv || tk != JValue::Null { bad.push("take".into()); }
    if JValue::default() != JValue::Null { bad.push("default".into()); }
    // accessors
    let acc_j = format!("{:?}", ((jv.is_null(), jv.is_boolean(), jv.is_number(), jv.is_string(), jv.is_array(), jv.is_object(), jv.is_i64(), jv.is_u64(), jv.is_f64()),
        (jv.as_bool(), jv.as_i64(), jv.as_u64(), jv.as_f64().map(f64::to_bits), jv.as_str().map(|s| s.to_string()), jv.as_array().map(|a| a.len()), jv.as_object().map(|o| o.keys().map(|k| k.to_string()).collect::<Vec<_>>()), jv.as_null(), jv.as_number().map(|n| n.to_string()))));
    let acc_s = format!("{:?}", ((sv.is_null(), sv.is_boolean(), sv.is_number(), sv.is_string(), sv.is_array(), sv.is_object(), sv.is_i64(), sv.is_u64(), sv.is_f64()),
        (sv.as_bool(), sv.as_i64(), sv.as_u64(), sv.as_f64().map(f64::to_bits), sv.as_str().map(|s| s.to_string()), sv.as_array().map(|a| a.len()), sv.as_object().map(|o| o.keys().cloned().collect::<Vec<_>>()), sv.as_null(), sv.as_number().map(|n| n.to_string()))));
    if acc_j != acc_s { bad.push(format!("accessors differ: {} vs {}", acc_j, acc_s)); }
    // pointer / get / index
    let mut ptrs = vec![]; pointers(sv, "", &mut ptrs);
    for extra in ["/", "/0", "/00", "/+0", "/-1", "/a", "/a/0", "a", "/~", "/~2", "/1e0", "/18446744073709551616", "//", "/a~1b", "/a~0b"] { ptrs.push(extra.to_string()); }
    for ptr in &ptrs {
        let a = jv.pointer(ptr).map(|v| v.to_string()); let b = sv.pointer(ptr).map(|v| v.to_string());
        if a != b { bad.push(format!("pointer({ptr:?}) = {a:?}, serde_json gives {b:?}")); }
    }
    for key in ["a", "b", "", "é", "0", "zz"] {
        if jv.get(key).map(|v| v.to_string()) != sv.get(key).map(|v| v.to_string()) { bad.push(format!("get({key:?}) differs")); }
        if jv[key].to_string() != sv[key].to_string() { bad.push(format!("index [{key:?}] differs")); }
        if jv.get(key.to_string()).map(|v| v.to_string()) != sv.get(key.to_string()).map(|v| v.to_string()) { bad.push(format!("get(String {key:?}) differs")); }
    }
    for i in [0usize, 1, 2, 7, usize::MAX] {
        if jv.get(i).map(|v| v.to_string()) != sv.get(i).map(|v| v.to_string()) { bad.push(format!("get({i}) differs")); }
        if jv[i].to_string() != sv[i].to_string() { bad.push(format!("index [{i}] differs")); }
    }
    // partial_eq.rs
    bad.extend(partial_eq_checks(jv, sv, rng, rep));
    bad
}

fn int_candidates(sv: &Value, rng: &mut Rng) -> Vec<i128> {
    let mut c: Vec<i128> = vec![i64::MIN as i128, -1, 0, 1, 127, 128, 255, 256, -128, -129, 65535, 65536, i32::MAX as i128, i32::MIN as i128, u32::MAX as i128, i64::MAX as i128, i64::MAX as i128 + 1, u64::MAX as i128];
    if let Some(i) = sv.as_i64() { c.push(i as i128); c.push(i as i128 + 1); }
    if let Some(u) = sv.as_u64() { c.push(u as i128); c.push(u as i128 - 1); }
    if let Some(f) = sv.as_f64() { if f.abs() < 1e30 { c.push(f as i128); } }
    c.push(rng.next() as i64 as i128);
    c
}

macro_rules! peq_num {
    ($jv:expr, $sv:expr, $bad:expr, $x:expr, $($ty:ty),*) => { $( {
        let y = $x as $ty;
        let (a, b) = (*$jv == y, *$sv == y);
        let (a2, b2) = (y == *$jv, y == *$sv);
        let a3 = $jv == y;                       // `impl PartialEq<$ty> for &JValue`
        if a != b || a2 != b2 || a3 != a { $bad.push(format!("== {} ({}): JValue {a}/{a2}/{a3}, serde_json::Value {b}/{b2}", y, stringify!($ty))); }
    } )* };
}

fn partial_eq_checks(jv: &JValue, sv: &Value, rng: &mut Rng, rep: &mut Report) -> Vec<String> {
    let mut bad = vec![];
    for x in int_candidates(sv, rng) {
        if x >= i64::MIN as i128 && x <= i64::MAX as i128 { let x = x as i64; peq_num!(jv, sv, bad, x, i8, i16, i32, i64, isize); }
        if x >= 0 && x <= u64::MAX as i128 { let x = x as u64; peq_num!(jv, sv, bad, x, u8, u16, u32, u64, usize); }
    }
    let mut fs: Vec<f64> = vec![0.0, -0.0, 1.0, 0.1, 0.5, -1.5, 1e16, 9007199254740993.0, 1.8446744073709552e19, 9.223372036854776e18, -9.223372036854776e18, f64::MAX, f64::MIN_POSITIVE, 5e-324, f64::NAN, f64::INFINITY, f64::NEG_INFINITY, 0.1f32 as f64, 16777217.0];
    if let Some(f) = sv.as_f64() { fs.push(f); fs.push(f as f32 as f64); fs.push(f64::from_bits(f.to_bits().wrapping_add(1))); }
    fs.push(f64::from_bits(rng.next()));
    for x in fs {
        peq_num!(jv, sv, bad, x, f64);
        // f32: partial_eq.rs says "NB: is not same as the original version" — JValue compares in f64 (exact), serde_json rounds the stored
        // f64 to f32 first.  Reference here: exact comparison of the stored number with the f32's value.
        let y = x as f32;
        let exact = sv.as_f64().map_or(false, |i| i == y as f64);
        let (a, a2, a3) = (*jv == y, y == *jv, jv == y);
        if a != exact || a2 != exact || a3 != exact { bad.push(format!("== {y} (f32): JValue {a}/{a2}/{a3}, exact comparison {exact}")); }
        if (*sv == y) != exact { rep.stat("peq_f32_serde_json_value_rounds_where_jvalue_is_exact"); }
    }
    for x in [true, false] {
        let (a, b) = (*jv == x, *sv == x); let (a2, b2) = (x == *jv, x == *sv); let a3 = jv == x;
        if a != b || a2 != b2 || a3 != a { bad.push(format!("== {x} (bool) differs")); }
    }
    let mut ss: Vec<String> = vec!["".into(), "a".into(), "é".into(), "null".into(), "1".into(), "true".into()];
    if let Some(s) = sv.as_str() { ss.push(s.to_string()); ss.push(format!("{s} ")); }
    ss.push(sv.to_string());
    for s in ss {
        let st: &str = &s;
        let r = [*jv == *st, *jv == st, *st == *jv, st == *jv, *jv == s, s == *jv];
        let e = [*sv == *st, *sv == st, *st == *sv, st == *sv, *sv == s, s == *sv];
        if r != e { bad.push(format!("== {s:?} (str/&str/String, both directions): JValue {r:?}, serde_json::Value {e:?}")); }
    }
    bad
}

/// `From<T> for JValue`, `FromIterator`, the constructors — against the same constructions of `serde_json::Value`
fn from_checks(rng: &mut Rng, rep: &mut Report) {
    let mut n = 0u64;
    let mut check = |rep: &mut Report, what: &str, j: JValue, s: Value| {
        n += 1;
        let ok = serde_json::to_value(&j).map(|x| x == s).unwrap_or(false) && j.to_string() == s.to_string() && JValue::from(&s) == j;
        rep.case(&format!("from|{what}|{}", s), true, || json!({"from": what, "value": s}));
        if !ok { rep.oracle_fail(json!({"why": format!("JValue::from({what}) = {j} differs from serde_json::Value::from = {s}"), "input": {"from": what, "reference": s}})); }
    };
    macro_rules! ints { ($($ty:ty),*) => { $( for x in [<$ty>::MIN, <$ty>::MAX, 0 as $ty, 1 as $ty, (rng.next() as $ty)] { check(rep, stringify!($ty), JValue::from(x), Value::from(x)); } )* } }
    ints!(i8, i16, i32, i64, isize, u8, u16, u32, u64, usize);
    let mut floats = vec![0.0f64, -0.0, 1.0, 0.1, 1e16, 1e15, 123456789012345680000.0, 5e-324, f64::MAX, f64::MIN, f64::NAN, f64::INFINITY, f64::NEG_INFINITY, 1e-7, 0.3, 2.5e-5];
    for _ in 0..200 { floats.push(f64::from_bits(rng.next())); }
    for x in floats { check(rep, "f64", JValue::from(x), Value::from(x)); check(rep, "f32", JValue::from(x as f32), Value::from(x as f32)); }
    for x in [true, false] { check(rep, "bool", JValue::from(x), Value::from(x)); }
    for s in ["", "a", "é\u{0}\"\\\n", "𝄞\u{7f}\u{1f}", "\u{2028}/"] {
        check(rep, "String", JValue::from(s.to_string()), Value::from(s.to_string()));
        check(rep, "&str", JValue::from(s), Value::from(s));
        check(rep, "Cow::Borrowed", JValue::from(Cow::Borrowed(s)), Value::from(Cow::Borrowed(s)));
        check(rep, "Cow::Owned", JValue::from(Cow::<str>::Owned(s.to_string())), Value::from(Cow::<str>::Owned(s.to_string())));
        check(rep, "JsonString", JValue::from(JsonString::from(s)), Value::from(s));
        check(rep, "JValue::string", JValue::string(s), Value::from(s));
        check(rep, "Option<&str>", JValue::from(Some(s)), Value::from(Some(s)));
    }
    check(rep, "()", JValue::from(()), Value::from(()));
    check(rep, "None", JValue::from(None::<i32>), Value::from(None::<i32>));
    check(rep, "Number", JValue::from(serde_json::Number::from(7u8)), Value::from(serde_json::Number::from(7u8)));
    check(rep, "Number(f)", JValue::from(serde_json::Number::from_f64(-0.0).unwrap()), Value::from(serde_json::Number::from_f64(-0.0).unwrap()));
    let v: Vec<i64> = vec![3, -1, i64::MIN];
    check(rep, "Vec<i64>", JValue::from(v.clone()), Value::from(v.clone()));
    check(rep, "&[i64]", JValue::from(&v[..]), Value::from(&v[..]));
    check(rep, "FromIterator<i64>", v.iter().cloned().collect::<JValue>(), v.iter().cloned().collect::<Value>());
    check(rep, "array_from_iter", JValue::array_from_iter(v.iter().cloned()), Value::from(v.clone()));
    check(rep, "JValue::array", JValue::array(vec![JValue::Null, JValue::from(1)]), json!([null, 1]));
    check(rep, "Vec<&str> empty", JValue::from(Vec::<&str>::new()), Value::from(Vec::<&str>::new()));
    // objects: insertion in arbitrary order, duplicates (later wins)
    let pairs: Vec<(&str, i64)> = vec![("b", 1), ("a", 2), ("é", 3), ("", 4), ("b", 5), ("a\u{0}", 6), ("B", 7), ("𝄞", 8), ("\u{ffff}", 9)];
    check(rep, "FromIterator<(K,V)>", pairs.iter().cloned().collect::<JValue>(), pairs.iter().map(|(k, v)| (k.to_string(), Value::from(*v))).collect::<Value>());
    check(rep, "object_from_pairs", JValue::object_from_pairs(pairs.iter().cloned()), pairs.iter().map(|(k, v)| (k.to_string(), Value::from(*v))).collect::<Value>());
    let mut m: Map<JsonString, JValue> = Map::new(); let mut sm = serde_json::Map::new();
    for (k, v) in &pairs { m.insert((*k).into(), JValue::from(*v)); sm.insert(k.to_string(), Value::from(*v)); }
    check(rep, "Map", JValue::from(m.clone()), Value::from(sm.clone()));
    check(rep, "JValue::object", JValue::object(m), Value::Object(sm.clone()));
    let hm: HashMap<&str, i64> = pairs.iter().cloned().filter(|(k, _)| *k != "b").collect();
    check(rep, "HashMap", JValue::from(hm.clone()), hm.iter().map(|(k, v)| (k.to_string(), Value::from(*v))).collect::<Value>());
    let rc: Rc<str> = "x".into();
    check(rep, "Rc<str>", JValue::from(rc), Value::from("x"));
    rep.stat_n("from_constructor_cases", n);
}

// ------------------------------------------------------------------------------------------------ one text

struct Case<'a> { text: &'a str, origin: &'a str, partner: Option<&'a str>, model: bool }

fn peq_probe_list(sv: &Value, rng: &mut Rng) -> Vec<Value> {
    let mut l = vec![];
    for x in int_candidates(sv, rng) {
        if x >= i64::MIN as i128 && x <= i64::MAX as i128 { l.push(json!({"kind": "i64", "other": x.to_string()})); }
        if x >= 0 && x <= u64::MAX as i128 { l.push(json!({"kind": "u64", "other": x.to_string()})); }
    }
    l.push(json!({"kind": "bool", "other": true})); l.push(json!({"kind": "bool", "other": false}));
    let mut ss = vec!["".to_string(), "a".to_string(), sv.to_string()];
    if let Some(s) = sv.as_str() { ss.push(s.to_string()); ss.push(format!("{s}x")); }
    for s in ss { l.push(json!({"kind": "str", "other": s})); }
    l
}
fn peq_real(jv: &JValue, probes: &[Value]) -> Vec<Value> {
    probes.iter().map(|q| match q["kind"].as_str().unwrap() {
        "i64" => json!(*jv == q["other"].as_str().unwrap().parse::<i64>().unwrap()),
        "u64" => json!(*jv == q["other"].as_str().unwrap().parse::<u64>().unwrap()),
        "bool" => json!(*jv == q["other"].as_bool().unwrap()),
        _ => json!(*jv == q["other"].as_str().unwrap()),
    }).collect()
}

struct Run<'a> { ctx: &'a mut Ctx, rep: &'a mut Report, rng: Rng, float_findings: u64, float_example: Option<Value> }

impl<'a> Run<'a> {
    fn parse_both(&mut self, t: &str, origin: &str) -> Option<Parsed> {
        let real = real_parse(t);
        let refv = serde_json::from_str::<Value>(t);
        match (real, refv) {
            (Err(()), _) => { self.rep.oracle_fail(json!({"why": "serde_json::from_str::<JValue> panics", "input": {"text": t, "origin": origin}})); None }
            (Ok(Ok(jv)), Ok(sv)) => { let printed = jv.to_string(); Some(Parsed { jv, sv, printed }) }
            (Ok(Err(e)), Err(e2)) => {
                if e != e2.to_string() { self.rep.oracle_fail(json!({"why": format!("error differs from serde_json::Value's: {e:?} vs {:?}", e2.to_string()), "input": {"text": t, "origin": origin}})); }
                None
            }
            (Ok(Ok(jv)), Err(e2)) => { self.rep.oracle_fail(json!({"why": format!("JValue accepts a text serde_json::Value rejects ({e2}); parsed as {jv}"), "input": {"text": t, "origin": origin}})); None }
            (Ok(Err(e)), Ok(sv)) => { self.rep.oracle_fail(json!({"why": format!("JValue rejects ({e}) a text serde_json::Value accepts as {sv}"), "input": {"text": t, "origin": origin}})); None }
        }
    }

    fn check(&mut self, c: Case) {
        let t = c.text;
        let real = real_parse(t);
        let a = self.parse_both(t, c.origin);
        let accepted = a.is_some();
        self.rep.case(t, t.len() >= 2, || json!({"text": if t.len() > 300 { format!("{}… ({} bytes)", t.chars().take(300).collect::<String>(), t.len()) } else { t.to_string() }, "origin": c.origin, "accepted": accepted}));
        self.rep.stat(&format!("origin_{}", c.origin));
        self.rep.stat(&format!("len_{}", match t.len() { 0..=9 => "0-9", 10..=99 => "10-99", 100..=999 => "100-999", 1000..=9999 => "1k-10k", _ => "10k+" }));
        match &real { Ok(Ok(_)) => self.rep.stat("real_accept"), Ok(Err(e)) => { self.rep.stat("real_reject"); self.rep.stat(&format!("reject_{}", e.split(" at line").next().unwrap_or("?").replace(' ', "_"))); } Err(()) => self.rep.stat("real_panic") }
        let mut reparse_real: Option<String> = None;
        if let Some(pa) = &a {
            self.rep.stat(&format!("depth_{}", match depth_of(&pa.sv) { d @ 0..=4 => d.to_string(), 5..=20 => "5-20".into(), 21..=126 => "21-126".into(), d => d.to_string() }));
            self.rep.stat(match &pa.sv { Value::Null => "top_null", Value::Bool(_) => "top_bool", Value::Number(n) => if n.is_f64() { "top_float" } else if n.is_u64() { "top_posint" } else { "top_negint" }, Value::String(_) => "top_string", Value::Array(_) => "top_array", Value::Object(_) => "top_object" });
            let mut rng = self.rng.fork();
            let bad = value_checks(&pa.jv, &pa.sv, &mut rng, self.rep);
            for b in bad.into_iter().take(3) { self.rep.oracle_fail(json!({"why": b, "input": {"text": t, "origin": c.origin}})); }
            // print → parse round trip
            let p = &pa.printed;
            match real_parse(p) {
                Ok(Ok(v2)) => {
                    let p2 = v2.to_string();
                    reparse_real = Some(p2.clone());
                    if &p2 != p || v2 != pa.jv {
                        // is it the float conversion of serde_json (the reference type shows the very same change)?
                        let q2 = serde_json::from_str::<Value>(&pa.sv.to_string()).map(|v| v.to_string()).unwrap_or_default();
                        if q2 == p2 && has_float(&pa.sv) {
                            self.float_findings += 1; self.rep.stat("roundtrip_changed_by_float_conversion");
                            if self.float_example.is_none() { self.float_example = Some(json!({"text": t, "printed": p, "reparsed_prints": p2})); }
                        } else {
                            self.rep.oracle_fail(json!({"why": format!("print → parse is not the identity: {p} reparses to {p2}"), "input": {"text": t, "origin": c.origin}}));
                        }
                    }
                }
                Ok(Err(e)) => { reparse_real = Some(format!("err:{}", err_kind(&e))); self.rep.oracle_fail(json!({"why": format!("the printed value does not parse: {p}: {e}"), "input": {"text": t, "origin": c.origin}})); }
                Err(()) => { self.rep.oracle_fail(json!({"why": "parse of printed value panics", "input": {"text": t, "origin": c.origin}})); }
            }
        }
        // pairs: equality relation
        let b = c.partner.and_then(|pt| { let r = real_parse(pt); match (r, serde_json::from_str::<Value>(pt)) { (Ok(Ok(jv)), Ok(sv)) => { let printed = jv.to_string(); Some(Parsed { jv, sv, printed }) } _ => None } });
        if let (Some(pa), Some(pb)) = (&a, &b) {
            let (je, se) = (pa.jv == pb.jv, pa.sv == pb.sv);
            self.rep.stat(if je { "pair_equal" } else { "pair_unequal" });
            if je != se || (pb.jv == pa.jv) != je { self.rep.oracle_fail(json!({"why": format!("== differs from serde_json::Value: JValue {je}, reference {se}"), "input": {"text": t, "partner": c.partner, "origin": c.origin}})); }
            let same_print = pa.printed == pb.printed;
            if same_print && !je { self.rep.oracle_fail(json!({"why": "values with the same printed form compare unequal", "input": {"text": t, "partner": c.partner}})); }
            if je && !same_print {
                if pa.printed.replace("-0.0", "0.0") == pb.printed.replace("-0.0", "0.0") { self.rep.stat("pair_equal_up_to_sign_of_zero"); }
                else { self.rep.oracle_fail(json!({"why": format!("equal values print differently: {} vs {}", pa.printed, pb.printed), "input": {"text": t, "partner": c.partner}})); }
            }
        }
        if !c.model { return; }
        // ---- model correspondence
        let extra = format!("{} {} {}", c.partner.unwrap_or(""), a.as_ref().map(|p| p.printed.as_str()).unwrap_or(""), b.as_ref().map(|p| p.printed.as_str()).unwrap_or(""));
        let q = self.ctx.driver.ask(&json!({"op": "json_float_queries", "text": t, "b": extra}));
        let mut floats = vec![];
        for tr in q["queries"].as_array().cloned().unwrap_or_default() {
            let (p, s, e) = (tr[0].as_bool().unwrap_or(true), tr[1].as_str().unwrap_or("0").to_string(), tr[2].as_str().unwrap_or("0").to_string());
            let r = parts_repr(p, &s, &e);
            floats.push(json!({"p": p, "s": s, "e": e, "r": r}));
        }
        self.rep.stat_n("float_oracle_answers", floats.len() as u64);
        let probes = a.as_ref().map(|pa| peq_probe_list(&pa.sv, &mut self.rng)).unwrap_or_default();
        let mut req = json!({"op": "json_parse", "text": t, "floats": floats, "peq": probes});
        if let Some(pt) = c.partner { req["b"] = json!(pt); }
        let m = self.ctx.driver.ask(&req);
        self.rep.model_compared += 1;
        let mut diffs: Vec<String> = vec![];
        let side = |m: &Value, real: &Result<Result<JValue, String>, ()>, printed: Option<&String>, which: &str, diffs: &mut Vec<String>| {
            match (m["result"].as_str(), real) {
                (Some("ok"), Ok(Ok(_))) => { if m["render"].as_str() != printed.map(|s| s.as_str()) { diffs.push(format!("{which}: printed value differs")); } }
                (Some("err"), Ok(Err(e))) => { if m["kind"].as_str() != Some(err_kind(e)) { diffs.push(format!("{which}: error class: model {}, implementation {e}", m["kind"])); } }
                (Some("err"), Err(())) => {}
                _ => diffs.push(format!("{which}: accept/reject differs")),
            }
        };
        side(&m["a"], &real, a.as_ref().map(|p| &p.printed), "text", &mut diffs);
        if let Some(pa) = &a {
            let ma = &m["a"];
            if ma["result"] == "ok" {
                let std = serde_json::to_value(&pa.jv).map(|v| v.to_string()).unwrap_or_else(|e| format!("error {e}"));
                if ma["std_render"].as_str() != Some(std.as_str()) { diffs.push("to_value: printed serde_json::Value differs".into()); }
                let back = serde_json::to_value(&pa.jv).map(|v| JValue::from(v).to_string()).unwrap_or_default();
                if ma["back_render"].as_str() != Some(back.as_str()) { diffs.push("From<Value>(to_value(v)) differs".into()); }
                if ma["back_beq"] != json!(true) { diffs.push("model: fromStd (toStd v) is not v".into()); }
                if ma["reparse"].as_str() != reparse_real.as_deref() { diffs.push(format!("print → parse: model {}, implementation {:?}", ma["reparse"], reparse_real)); }
                if ma["depth"].as_u64() != Some(depth_of(&pa.sv) as u64) { diffs.push("depth differs".into()); }
                if m["peq"] != Value::Array(peq_real(&pa.jv, &probes)) { diffs.push("partial_eq.rs comparisons (i64/u64/bool/str) differ".into()); }
            }
        }
        if let Some(pt) = c.partner {
            let rb = real_parse(pt);
            side(&m["b"], &rb, b.as_ref().map(|p| &p.printed), "partner", &mut diffs);
            if let (Some(pa), Some(pb)) = (&a, &b) {
                if m["valEq"] != json!(pa.jv == pb.jv) { diffs.push(format!("==: model {}, implementation {}", m["valEq"], pa.jv == pb.jv)); }
                if m["std_valEq"] != json!(pa.sv == pb.sv) { diffs.push("== on serde_json::Value differs".into()); }
                if m["beq"] != json!(pa.printed == pb.printed) { diffs.push("structural equality vs equality of printed forms differs".into()); }
                if m["norm_beq"] != m["valEq"] { diffs.push("model: valEq ≠ equality after normalising zeros".into()); }
            }
        }
        if m["a"]["kind"] == "fuel" || m["b"]["kind"] == "fuel" { diffs.push("model ran out of fuel".into()); }
        if m.get("protocol_error").is_some() || m.get("error").is_some() { diffs.push("driver error".into()); }
        if !diffs.is_empty() {
            let impl_view = json!({"text": match &real { Ok(Ok(v)) => json!({"ok": v.to_string()}), Ok(Err(e)) => json!({"err": e}), Err(()) => json!("panic") }, "reparse": reparse_real,
                "partner": b.as_ref().map(|p| p.printed.clone())});
            self.rep.disagree(json!({"op": "json_parse", "diffs": diffs, "request": req, "model": m, "implementation": impl_view}));
        }
    }
}

pub fn run(ctx: &mut Ctx, rep: &mut Report) {
    rep.rule = "case = one JSON text (optionally with a partner text for ==): generated nested values (depth ≤ 6, boundary and random numbers, escaped/raw/non-BMP strings, duplicate and permuted keys, whitespace variants), \
        a malformed stream (bad number/escape/structure tokens; truncations and character mutations of valid texts), nesting depth 1..130 and beyond, plus constructor cases From<T>; \
        each text is parsed by JValue, by serde_json::Value (reference) and by the Lean model; non-trivial = text of at least 2 bytes; distinct by hash of the text. \
        ASSUMPTIONS: (1) f64 formatting/parsing is outside the model — the model's number lexer yields (sign, u64 significand, decimal exponent) and the harness answers them with serde_json itself (from_str::<f64>(\"<sig>e<exp>\") then to_string), i.e. the float conversion stays in Rust; \
        (2) the model reads characters where serde_json reads UTF-8 bytes (every byte serde_json inspects is ASCII); (3) i32 exponent counters do not wrap (texts shorter than 2^31 digits); \
        (4) BTreeMap<Rc<str>> order = code-point order of Lean strings; (5) ryu printing is injective on finite non-zero f64 (used by the model of f64 `==` on float texts)".into();
    let thorough = ctx.thorough;
    let seed = ctx.seed;
    let replay = ctx.replay.clone();
    let mut run = Run { ctx, rep, rng: Rng::new(seed ^ 0xC26), float_findings: 0, float_example: None };

    if let Some(path) = replay {
        let v: Value = serde_json::from_str(&std::fs::read_to_string(&path).unwrap_or_default()).unwrap_or(Value::Null);
        let inp = if v.get("failure").is_some() { v["failure"]["input"].clone() } else { v["input"].clone() };
        if let Some(t) = inp["text"].as_str() { let partner = inp["partner"].as_str().map(|s| s.to_string()); run.check(Case { text: t, origin: "replay", partner: partner.as_deref(), model: true }); }
        return;
    }

    // 1. fixed boundary texts (every number token alone, in an array, as object value; bad ones too)
    let mut fixed: Vec<String> = vec![];
    for n in NUM_VALID.iter().chain(NUM_BAD.iter()) { fixed.push(n.to_string()); fixed.push(format!("[{n}]")); fixed.push(format!(" {{\"a\": {n} }}\n")); fixed.push(format!("[{n},{n}]")); fixed.push(format!("-{n}")); }
    for s in ["", " ", "\n", "null", "nul", "nulll", "null null", "true", "false", "truefalse", "[]", "{}", "[", "]", "{", "}", "[}", "{]", "\"\"", "\"", "\"a", "\"\\", "\"\\\"", "\"\\u\"", "\"\\u0\"", "\"\\u00\"", "\"\\u000\"", "\"\\u0000\"",
              "\"\\u001f\"", "\"\\u007f\"", "\"\u{7f}\"", "\"\\ud834\\udd1e\"", "\"\\uD834\\uDD1E\"", "\"𝄞\"", "\"\\ud834\"", "\"\\udd1e\"", "\"\\ud834\\ud834\"", "\"\\ud834\\u0041\"", "\"\\ud834\\n\"", "\"\\ud834\\\"", "\"\\ud834\\u\"",
              "\"\\udbff\\udfff\"", "\"\\ud800\\udc00\"", "\"\\udc00\\ud800\"", "\"\\uDBFF\\uE000\"", "\"\\ud7ff\"", "\"\\ue000\"", "\"\\uffff\"", "\"\\uFFFE\"", "\"\u{0}\"", "\"\u{1f}\"", "\"\n\"", "\"\t\"", "\"\\a\"", "\"\\v\"", "\"\\0\"", "\"\\'\"", "\"\\U0041\"", "'a'",
              "\"\\/\"", "\"/\"", "\"\\b\\f\\n\\r\\t\\\"\\\\\"", "{\"a\":1,\"a\":2}", "{\"a\":1,\"\\u0061\":2}", "{\"a\":{\"b\":1},\"a\":{\"c\":2}}", "{\"b\":1,\"a\":2}", "{\"a\":2,\"b\":1}", "{\"é\":1,\"z\":2,\"\u{10000}\":3,\"\u{ffff}\":4}",
              "{\"a\":1.0}", "{\"a\":1}", "[1,1.0]", "[1.0,1]", "[0.0]", "[-0.0]", "[-0]", "[0]", "{\"a\" :1}", "{\"a\": 1}", "{ \"a\":1}", "{\"a\":1 }", "{\"a\":1}x", "{\"a\":1} x", "[1] [2]", "[1],", "1 ", " 1", "\u{feff}1", "1\u{0}", "\u{a0}1", "\u{2028}1", "1\u{c}", "\u{b}1",
              "[1,]", "[,1]", "[1,,2]", "[1 2]", "{\"a\":1,}", "{,\"a\":1}", "{\"a\":1 \"b\":2}", "{\"a\" 1}", "{\"a\":}", "{\"a\"}", "{a:1}", "{1:1}", "{null:1}", "{\"a\":1,,\"b\":2}", "[\"a\":1]", "{\"a\",1}", "{[]:1}", "[1}", "{\"a\":1]",
              "tru", "t", "f", "n", "nu", "fals", "falsee", "True", "NULL", "-", "-n", "-[", "[-]", "[--1]", "//", "/**/1", "#", "1#", "\"\\", "\\", "\\u0031", "\\n1"] {
        fixed.push(s.to_string());
    }
    for t in &fixed { run.check(Case { text: t, origin: "fixed", partner: None, model: true }); }
    // fixed pairs for ==
    let pairs = [("1", "1.0"), ("1", "1"), ("0.0", "-0.0"), ("-0", "0"), ("-0", "-0.0"), ("[0.0]", "[-0.0]"), ("{\"a\":-0.0}", "{\"a\":0.0}"), ("18446744073709551615", "18446744073709551615.0"), ("18446744073709551615", "1.8446744073709552e19"),
        ("-9223372036854775808", "-9223372036854775808.0"), ("9223372036854775808", "9223372036854775807"), ("1e2", "100"), ("1e2", "100.0"), ("0.1", "0.10"), ("0.1", "1e-1"), ("{\"a\":1,\"b\":2}", "{\"b\":2,\"a\":1}"), ("{\"a\":1,\"a\":2}", "{\"a\":2}"),
        ("{\"a\":1,\"a\":2}", "{\"a\":1}"), ("[1,2]", "[2,1]"), ("[]", "{}"), ("null", "0"), ("false", "0"), ("\"\"", "null"), ("\"1\"", "1"), ("\"a\"", "\"\\u0061\""), ("\"é\"", "\"\\u00E9\""), ("\"𝄞\"", "\"\\ud834\\udd1e\""), ("\"/\"", "\"\\/\""),
        ("[[]]", "[]"), ("[null]", "[]"), ("{\"a\":null}", "{}"), ("9007199254740993", "9007199254740992.0"), ("9007199254740993", "9007199254740993.0"), ("0.30000000000000004", "0.3"), ("5e-324", "4.9e-324"), ("1e-400", "0.0"), ("-1e-400", "0.0")];
    for (x, y) in pairs { run.check(Case { text: x, origin: "fixed_pair", partner: Some(y), model: true }); run.check(Case { text: y, origin: "fixed_pair", partner: Some(x), model: true }); }

    // 2. nesting depth around the recursion limit
    let depths: Vec<usize> = if thorough { vec![1, 2, 3, 64, 100, 125, 126, 127, 128, 129, 130, 200, 255, 256, 257, 1000] } else { vec![1, 2, 126, 127, 128, 129, 130, 200] };
    for &d in &depths { for kind in 0..4 { for inner in ["", "1", "[]", "{}", "\"x\"", "1.5", "[1,{\"a\":[]}]", "]"] {
        let t = deep_text(kind, d, inner);
        run.check(Case { text: &t, origin: "deep", partner: None, model: true });
    } } }
    // deep on one branch only / limit restored after a closed container
    for d in [126usize, 127, 128] {
        let t = format!("[{},{}]", deep_text(0, d - 1, "1"), deep_text(1, d - 1, "2"));
        run.check(Case { text: &t, origin: "deep", partner: None, model: true });
        let t = format!("[{},{}]", deep_text(0, d - 1, "1"), deep_text(0, d, "2"));
        run.check(Case { text: &t, origin: "deep", partner: None, model: true });
        let t = format!("{{\"a\":{},\"a\":1}}", deep_text(2, d, "1"));
        run.check(Case { text: &t, origin: "deep", partner: None, model: true });
    }
    for d in if thorough { vec![10_000usize, 100_000, 1_000_000] } else { vec![10_000usize] } {
        for kind in [0usize, 1] { let t = deep_text(kind, d, ""); run.check(Case { text: &t, origin: "very_deep", partner: None, model: d <= 10_000 }); }
        let t = "[".repeat(d); run.check(Case { text: &t, origin: "very_deep", partner: None, model: d <= 10_000 });
    }
    // wide
    for n in if thorough { vec![1000usize, 3000] } else { vec![500usize] } {
        let t = format!("[{}]", (0..n).map(|i| (i as i64 - 5).to_string()).collect::<Vec<_>>().join(","));
        run.check(Case { text: &t, origin: "wide", partner: None, model: true });
        let t = format!("{{{}}}", (0..n).map(|i| format!("\"k{}\":{}", (i * 7919) % n, i)).collect::<Vec<_>>().join(","));
        run.check(Case { text: &t, origin: "wide", partner: None, model: true });
        let t = format!("\"{}\"", "aé𝄞\\n\\u0041".repeat(n));
        run.check(Case { text: &t, origin: "wide", partner: None, model: true });
    }

    // 3. generated trees: valid stream, whitespace/permutation partners, then the malformed stream
    let n_valid = if thorough { 1_000_000 } else { 20_000 };
    let mut prev_text = String::from("null");
    for i in 0..n_valid {
        let mut g = G { rng: run.rng.fork(), bad: false, used_bad: false };
        let depth = match g.rng.below(10) { 0 => 0, 1 | 2 => 1, 3 | 4 | 5 => 2, 6 | 7 => 3, 8 => 4, _ => 6 };
        let tree = g.tree(depth);
        let mut rng = run.rng.fork();
        let mut t = String::new(); emit(&tree, &mut rng, (i % 3) as u8, false, &mut t);
        // partner: whitespace variant with permuted members / previous text / mutated tree text
        let partner = match rng.below(4) {
            0 => { let mut p = String::new(); emit(&tree, &mut rng, 2, true, &mut p); p }
            1 => prev_text.clone(),
            2 => { let mut p = String::new(); emit(&tree, &mut rng, 0, true, &mut p); p }
            _ => { let mut g2 = G { rng: rng.fork(), bad: false, used_bad: false }; let t2 = g2.tree(depth.min(2)); let mut p = String::new(); emit(&t2, &mut rng, 1, false, &mut p); p }
        };
        run.check(Case { text: &t, origin: "generated_valid", partner: Some(&partner), model: true });
        prev_text = t;
    }
    let n_bad = if thorough { 1_000_000 } else { 20_000 };
    for i in 0..n_bad {
        let mut g = G { rng: run.rng.fork(), bad: true, used_bad: false };
        let depth = match g.rng.below(6) { 0 => 0, 1 | 2 => 1, 3 | 4 => 2, _ => 3 };
        let tree = g.tree(depth);
        let mut rng = run.rng.fork();
        let mut t = String::new(); emit(&tree, &mut rng, (i % 2) as u8, false, &mut t);
        let (t, origin) = if g.used_bad && rng.chance(1, 2) { (t, "generated_bad_token") } else { (mutate(&mut rng, &t), "mutated") };
        run.check(Case { text: &t, origin, partner: None, model: true });
    }

    // 4. constructors
    let mut rng = run.rng.fork();
    from_checks(&mut rng, run.rep);

    // 5. floats: print → parse → print on the implementation (no model; f64 arithmetic is outside the model)
    let n_f = if thorough { 20_000_000 } else { 300_000 };
    let (mut tested, mut changed, mut off_by_more, mut sign_or_class) = (0u64, 0u64, 0u64, 0u64);
    let mut example: Option<Value> = None;
    for i in 0..n_f {
        let f = match i % 8 { 0 => (run.rng.next() % 2_000_001) as f64 / 1000.0, 1 => f64::from_bits(run.rng.next() >> (run.rng.below(12) as u64)), 2 => ((run.rng.next() % 1_000_000) as f64) * 10f64.powi(run.rng.range(-30, 30) as i32), _ => f64::from_bits(run.rng.next()) };
        if !f.is_finite() { continue; }
        tested += 1;
        let jv = JValue::from(f);
        let s = jv.to_string();
        let sv = Value::from(f);
        if s != sv.to_string() { run.rep.oracle_fail(json!({"why": format!("float prints differently from serde_json: {s} vs {sv}"), "input": {"bits": f.to_bits()}})); }
        match serde_json::from_str::<JValue>(&s) {
            Ok(v2) => {
                let g = v2.as_f64().unwrap_or(f64::NAN);
                // the reference type must behave identically (same serde_json number parser)
                let g_ref = serde_json::from_str::<Value>(&s).ok().and_then(|v| v.as_f64()).unwrap_or(f64::NAN);
                if g.to_bits() != g_ref.to_bits() { run.rep.oracle_fail(json!({"why": format!("float text {s} parses to different f64 in JValue and serde_json::Value"), "input": {"text": s}})); }
                if g.to_bits() != f.to_bits() {
                    changed += 1;
                    let ulps = (g.to_bits() as i128 - f.to_bits() as i128).abs();
                    if ulps > 1 { off_by_more += 1; }
                    if !v2.is_f64() || g.is_sign_negative() != f.is_sign_negative() { sign_or_class += 1; }
                    if example.is_none() { example = Some(json!({"f64_bits": format!("{:#018x}", f.to_bits()), "printed": s, "reparsed_prints": v2.to_string(), "std_parse_is_exact": s.parse::<f64>().map(|x| x.to_bits() == f.to_bits()).unwrap_or(false)})); }
                }
            }
            Err(e) => { run.rep.oracle_fail(json!({"why": format!("printed float {s} does not parse: {e}"), "input": {"text": s}})); }
        }
    }
    run.rep.stat_n("float_stream_tested", tested); run.rep.stat_n("float_stream_roundtrip_changed", changed); run.rep.stat_n("float_stream_changed_by_more_than_1ulp", off_by_more); run.rep.stat_n("float_stream_changed_sign_or_class", sign_or_class);
    run.rep.case("float-stream", true, || json!({"float_stream": tested, "changed": changed}));
    if changed > 0 || run.float_findings > 0 {
        run.rep.oracle_fail(json!({"finding_key": FLOAT_FINDING,
            "why": format!("printing a float value and parsing the text back does not return the value: {changed} of {tested} random finite f64 (and {} generated texts) come back as a neighbouring f64 that prints differently — serde_json is built without its `float_roundtrip` feature, its default number parser (`f64_from_parts`: u64 significand → f64, then one multiplication/division by a power of ten) is not correctly rounded; JValue and serde_json::Value behave identically here", run.float_findings),
            "input": example.clone().or(run.float_example.clone()), "example_text": run.float_example}));
    }
}
