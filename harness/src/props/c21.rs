//! C21 placeholder (filled in next)
use crate::util::*; use crate::Ctx;
pub fn run(_ctx: &mut Ctx) -> Report { Report::new("C21", "") }
