//! C21 — unsupported interpreter versions: version grid x envelope shapes; implementation vs the model
//! of `parse_data` (on the real envelope bytes) and a direct oracle using the `semver` crate.
use crate::host::*;
use crate::mp;
use crate::props::common::*;
use crate::util::*;
use crate::Ctx;
use air_interpreter_data::{InterpreterData, InterpreterDataEnvelope};
use air_interpreter_interface::CallResults;
use serde_json::json;

#[derive(Clone, Debug)]
enum Shape { Normal, Reordered, ExtraKey, DupVersion, MissingInner, InnerAsStr, InnerAsArr, Trailing, NotAMap, VersionAsInt, MissingDataVersion }

fn envelope(data_version: &str, interp: &str, inner: &[u8], shape: &Shape) -> Vec<u8> {
    let mut o = vec![];
    let kv_ver = |o: &mut Vec<u8>| { mp::str_(o, b"version"); mp::str_(o, data_version.as_bytes()); };
    let kv_int = |o: &mut Vec<u8>| { mp::str_(o, b"interpreter_version"); mp::str_(o, interp.as_bytes()); };
    let kv_inner = |o: &mut Vec<u8>| { mp::str_(o, b"inner_data"); mp::bin(o, inner); };
    match shape {
        Shape::Normal => { mp::map_header(&mut o, 3); kv_ver(&mut o); kv_int(&mut o); kv_inner(&mut o); }
        Shape::Reordered => { mp::map_header(&mut o, 3); kv_inner(&mut o); kv_int(&mut o); kv_ver(&mut o); }
        Shape::ExtraKey => { mp::map_header(&mut o, 4); kv_ver(&mut o); mp::str_(&mut o, b"zzz"); mp::uint(&mut o, 7); kv_int(&mut o); kv_inner(&mut o); }
        Shape::DupVersion => { mp::map_header(&mut o, 4); kv_ver(&mut o); kv_int(&mut o); kv_int(&mut o); kv_inner(&mut o); }
        Shape::MissingInner => { mp::map_header(&mut o, 2); kv_ver(&mut o); kv_int(&mut o); }
        Shape::MissingDataVersion => { mp::map_header(&mut o, 2); kv_int(&mut o); kv_inner(&mut o); }
        Shape::InnerAsStr => { mp::map_header(&mut o, 3); kv_ver(&mut o); kv_int(&mut o); mp::str_(&mut o, b"inner_data"); mp::str_(&mut o, b"abc"); }
        Shape::InnerAsArr => { mp::map_header(&mut o, 3); kv_ver(&mut o); kv_int(&mut o); mp::str_(&mut o, b"inner_data"); mp::arr_header(&mut o, 3); mp::uint(&mut o, 1); mp::uint(&mut o, 200); mp::uint(&mut o, 3); }
        Shape::Trailing => { mp::map_header(&mut o, 3); kv_ver(&mut o); kv_int(&mut o); kv_inner(&mut o); o.extend_from_slice(&[0xc0, 0x01]); }
        Shape::NotAMap => { mp::arr_header(&mut o, 3); mp::str_(&mut o, data_version.as_bytes()); mp::str_(&mut o, interp.as_bytes()); mp::bin(&mut o, inner); }
        Shape::VersionAsInt => { mp::map_header(&mut o, 3); kv_ver(&mut o); mp::str_(&mut o, b"interpreter_version"); mp::uint(&mut o, 61); kv_inner(&mut o); }
    }
    o
}

pub fn run(ctx: &mut Ctx, rep: &mut Report) {
    rep.rule = "case = (interpreter version string, envelope shape, prev kind); versions: grid major{0,1} x minor{60,61,62} x patch{0,1} x pre-release x build variants plus malformed strings; non-trivial = envelope reaches the version check (decodes); distinct by hash of (version, shape, prev kind)".to_string();
    let mut rng = Rng::new(ctx.seed ^ 0xC21);
    let a = Peer::new("a");
    let b = Peer::new("b");
    let air = format!(r#"(seq (call "{}" ("svc" "f") [] x) (call "{}" ("svc" "g") [x] y))"#, a.id, b.id);
    let outs_a = run_to_quiescence(&air, &a, &a.id, "pid", &[], &echo_service, 8);
    let data_a = outs_a.last().unwrap().data.clone();
    if outs_a[0].ret_code != 0 || data_a.is_empty() {
        // the very first honest run (empty prev, empty current data) failed: empty data is not accepted
        rep.case("setup", true, || json!({"setup": "first run with empty data"}));
        rep.oracle_fail(json!({"why": "a run with empty previous and empty current data fails: empty current data is not treated as empty data",
                               "air": air, "outcome": outcome_brief(&outs_a[0])}));
        return;
    }
    let env_a = InterpreterDataEnvelope::try_from_slice(&data_a).unwrap();
    let inner_a: Vec<u8> = env_a.inner_data.to_vec();
    let data_version = env_a.versions.data_version.to_string();
    let empty_inner = InterpreterData::default().serialize().unwrap();
    let min = air::min_supported_version().clone();
    let unsupported_code = 1 + 5; // position of UnsupportedInterpreterVersion is checked by the model through the generated table

    let mut versions: Vec<String> = vec![];
    for major in [0u64, 1] { for minor in [60u64, 61, 62] { for patch in [0u64, 1] {
        for pre in ["", "-rc.1", "-0", "-alpha", "-1.2", "-a-b.0"] { for build in ["", "+b1", "+001", "+0"] {
            versions.push(format!("{major}.{minor}.{patch}{pre}{build}"));
        }}
    }}}
    for bad in ["0.61", "0.61.0-", "00.61.0", "0.61.0-01", "v0.61.0", "0.61.0+", "0.61.0-a..b", "0.61.0 ", "", "18446744073709551616.0.0",
                "0.18446744073709551615.0", "0.61.0-é", "0.61.0.1", "0.61.0-rc_1", "0.061.0", "0.61.0+b+c", "0.60.99999999999999999999"] {
        versions.push(bad.to_string());
    }
    if !ctx.thorough {
        // quick: every grid triple with a random subset of tags, all malformed ones
        let keep: Vec<String> = versions.iter().filter(|v| !v.contains('-') && !v.contains('+') || rng.chance(1, 3)).cloned().collect();
        versions = keep;
    }
    let shapes = [Shape::Normal, Shape::Reordered, Shape::ExtraKey, Shape::DupVersion, Shape::MissingInner, Shape::InnerAsStr, Shape::InnerAsArr,
                  Shape::Trailing, Shape::NotAMap, Shape::VersionAsInt, Shape::MissingDataVersion];
    let results = CallResults::new();
    // baseline for "empty current data is empty data"
    let run_b = |prev: &[u8], cur: &[u8]| crate::host::run(&RunArgs { air: &air, prev, cur, init_peer_id: &a.id, peer: &b, particle_id: "pid", timestamp: 1, ttl: 1, results: &results, limits: Limits::unlimited() });
    let default_env = envelope(&data_version, &min.to_string(), &empty_inner, &Shape::Normal);
    for prev in [vec![], data_a.clone()] {
        let o_empty = run_b(&prev, &[]);
        let o_default = run_b(&prev, &default_env);
        rep.case(&format!("empty|{}", prev.len()), true, || json!({"cur": "empty", "prev_len": prev.len(), "ret_code": o_empty.ret_code}));
        if o_empty.ret_code != o_default.ret_code || !same_data(&o_empty.data, &o_default.data) || o_empty.ret_code == unsupported_code {
            rep.oracle_fail(json!({"why": "empty current data is not treated as the empty data of a supported version", "prev_hex": hex(&prev),
                                   "with_empty": outcome_brief(&o_empty), "with_default_envelope": outcome_brief(&o_default)}));
        }
    }
    for v in &versions {
        let shape_list: Vec<Shape> = if ctx.thorough { shapes.to_vec() } else {
            let mut s = vec![Shape::Normal]; s.push(shapes[1 + rng.below(shapes.len() - 1)].clone()); s };
        for shape in &shape_list { for prev_kind in 0..2 {
            let prev: Vec<u8> = if prev_kind == 0 { vec![] } else { data_a.clone() };
            let inner: &[u8] = if rng.chance(1, 5) { &[1, 2, 3] } else { &inner_a };
            let cur = envelope(&data_version, v, inner, shape);
            let o = run_b(&prev, &cur);
            let real_env = InterpreterDataEnvelope::try_from_slice(&cur).ok();
            let reaches = real_env.is_some();
            rep.case(&format!("{v}|{shape:?}|{prev_kind}|{}", inner.len()), reaches, || json!({"version": v, "shape": format!("{shape:?}"), "prev_len": prev.len(), "cur_hex": hex(&cur), "outcome": outcome_brief(&o)}));
            rep.stat(&format!("code_{}", o.ret_code));
            // model
            let mut inner_ok = vec![json!({"hex": hex(&empty_inner), "ok": true}), json!({"hex": hex(&inner_a), "ok": true})];
            for raw in [&prev, &cur] {
                if let Ok(e) = InterpreterDataEnvelope::try_from_slice(raw) {
                    inner_ok.push(json!({"hex": hex(&e.inner_data), "ok": InterpreterData::try_from_slice(&e.inner_data).is_ok()}));
                }
            }
            let req = json!({"op": "parse_data", "prev": hex(&prev), "cur": hex(&cur), "empty_inner": hex(&empty_inner), "inner_ok": inner_ok});
            let m = ctx.driver.ask(&req);
            rep.model_compared += 1;
            let parse_data_codes = [2i64, 3, 4, 6];
            let agree = match m["result"].as_str() {
                Some("ok") => !parse_data_codes.contains(&o.ret_code),
                Some(_) => m["code"].as_i64() == Some(o.ret_code) && o.data == prev,
                None => false,
            };
            if !agree { rep.disagree(json!({"op": "parse_data", "version": v, "shape": format!("{shape:?}"), "request": req, "model": m, "implementation": outcome_brief(&o)})); }
            // direct oracle (semver crate as the independent reading of "older than the minimal version")
            if let Some(env) = &real_env {
                let older = env.versions.interpreter_version < min;
                if older {
                    let prev_shape = o.data == prev && o.next_peer_pks.is_empty() && decode_requests(&o.call_requests).map(|r| r.is_empty()).unwrap_or(false);
                    if !(o.ret_code == unsupported_code && o.error_message.contains("minimum") && prev_shape) {
                        rep.oracle_fail(json!({"why": format!("current data of version {v} (< {min}) was not rejected with the unsupported-version error and prev data"),
                            "version": v, "cur_hex": hex(&cur), "prev_hex": hex(&prev), "outcome": outcome_brief(&o)}));
                    }
                } else if o.ret_code == unsupported_code {
                    rep.oracle_fail(json!({"why": format!("current data of supported version {v} (>= {min}) was rejected for its version"),
                        "version": v, "cur_hex": hex(&cur), "prev_hex": hex(&prev), "outcome": outcome_brief(&o)}));
                }
            }
        }}
    }
}
